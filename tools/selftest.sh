#!/bin/bash
# selftest.sh [seed ids...] : must-fail corpus. For every stored seed whose meta.json says it is detected (detected_by.exit == 1)
# apply it to a scratch worktree of /repo's HEAD, run the quick check named in detected_by.check against that worktree (with a
# scratch copy of /verif, so that /verif/evidence is not overwritten), expect exit 1 with a VIOLATION line. Seeds marked
# invalid/missed are skipped. Prints one line per seed and a summary; exit 1 if a detection was lost.
cd /verif
ids="$@"; [ -z "$ids" ] && ids=$(ls seeded)
wt=/tmp/selftest_wt; vf=/tmp/selftest_vf
git -C /repo worktree remove --force $wt 2>/dev/null; rm -rf $vf
git -C /repo worktree add -q --detach $wt HEAD || exit 2
rsync -a --exclude .git --exclude replays --exclude seeded --exclude bin /verif/ $vf/
trap 'git -C /repo worktree remove --force $wt >/dev/null 2>&1; rm -rf $vf' EXIT
bad=0; n=0
for id in $ids; do
  m=seeded/$id/meta.json
  ex=$(jq -r '.detected_by.exit // empty' $m 2>/dev/null)
  [ "$ex" = "1" ] || { echo "skip $id ($(jq -r '.status_on_current_tree // .detected_by.note // "no detection recorded"' $m | cut -c1-80))"; continue; }
  prop=$(jq -r '.detected_by.check' $m | grep -o 'C[0-9][0-9]' | head -1)
  git -C $wt apply --check /verif/seeded/$id/patch.diff 2>/dev/null || { echo "STALE $id: patch does not apply"; bad=1; continue; }
  git -C $wt apply /verif/seeded/$id/patch.diff
  FVC_REPO=$wt FVC_VERIF=$vf bin/fvc check $prop quick > /tmp/selftest.$id.log 2>&1; rc=$?
  git -C $wt checkout -q -- . ; git -C $wt clean -fdq
  v=$(grep -c '^VIOLATION' /tmp/selftest.$id.log)
  n=$((n+1))
  if [ $rc -eq 1 ] && [ $v -gt 0 ]; then echo "ok   $id $prop violations=$v $(grep -m1 -o 'obligation=[^ ]*' /tmp/selftest.$id.log | cut -c1-120) $(grep -c replayed-on-real-code /tmp/selftest.$id.log | sed 's/^/replayed=/')"; else echo "LOST $id $prop rc=$rc violations=$v"; bad=1; fi
done
echo "selftest: $n seeds run, lost=$bad"
exit $bad
