#!/bin/bash
# selftest.sh [seed ids...] : must-fail corpus. For every stored seed whose meta.json says it is detected (detected_by.exit == 1)
# apply it to /repo, run the quick check of the property named in detected_by.check, expect exit 1 with a VIOLATION line,
# undo. Seeds marked invalid/missed are skipped. Prints one line per seed and a summary; exit 1 if a detection was lost.
cd /verif
ids="$@"; [ -z "$ids" ] && ids=$(ls seeded)
bad=0; n=0
for id in $ids; do
  m=seeded/$id/meta.json
  ex=$(jq -r '.detected_by.exit // empty' $m 2>/dev/null)
  [ "$ex" = "1" ] || { echo "skip $id ($(jq -r '.status_on_current_tree // .detected_by.note // "no detection recorded"' $m | cut -c1-80))"; continue; }
  prop=$(jq -r '.detected_by.check' $m | grep -o 'C[0-9][0-9]' | head -1)
  git -C /repo apply --check /verif/seeded/$id/patch.diff 2>/dev/null || { echo "STALE $id: patch does not apply"; bad=1; continue; }
  git -C /repo apply /verif/seeded/$id/patch.diff
  ./check $prop quick > /tmp/selftest.$id.log 2>&1; rc=$?
  git -C /repo apply -R /verif/seeded/$id/patch.diff || echo "WARNING: could not undo $id"
  v=$(grep -c '^VIOLATION' /tmp/selftest.$id.log)
  n=$((n+1))
  if [ $rc -eq 1 ] && [ $v -gt 0 ]; then echo "ok   $id $prop violations=$v"; else echo "LOST $id $prop rc=$rc violations=$v"; bad=1; fi
done
echo "selftest: $n seeds run, lost=$bad"
exit $bad
