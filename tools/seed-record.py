#!/usr/bin/env python3
"""seed-record.py <seed id> <property> : run tools/seed-run.sh and record the outcome in seeded/<id>/meta.json (detected_by)."""
import json,subprocess,sys,re
sid,prop=sys.argv[1],sys.argv[2]
out=subprocess.run(["/verif/tools/seed-run.sh",sid,prop],capture_output=True,text=True).stdout
print(out.strip()[:1500])
m=re.search(r'exit=(\d+)',out); rc=int(m.group(1)) if m else -1
obls=re.findall(r'obligation=(\S+)',out)+re.findall(r'bounded-standin=(\S+)',out)
p=f'/verif/seeded/{sid}/meta.json'; meta=json.load(open(p))
if rc==1 and obls:
    sv=re.findall(r'solver=(\S+)',out)
    meta['detected_by']={"check":f"./check {prop} quick","obligation":obls[0],"exit":1,"all_failed":obls[:8],"verdicts":sv[:8],"replayed":"replayed-on-real-code" in out}
else:
    meta['detected_by']={"check":f"./check {prop} quick","exit":rc,"note":"PATCH DOES NOT APPLY (port it)" if "patch does not apply" in out else "MISSED"}
json.dump(meta,open(p,'w'),indent=1,ensure_ascii=False)
