#!/usr/bin/env python3
# kf-add.py <property> <known|fixed> <commit or -> <obligation> <replay spec> <what...> : append one entry to
# known-findings.json (edit-time tool; checks never write that file)
import json, sys
prop, status, commit, obl, replay = sys.argv[1:6]
what = " ".join(sys.argv[6:])
p = '/verif/known-findings.json'
d = json.load(open(p))
lst = d['findings'] if isinstance(d, dict) else d
e = {"property": prop, "status": status}
if commit != '-':
    e["commit"] = commit
e["obligation"] = obl
if status == 'fixed':
    what = "fixed: property=%s %s %s" % (prop, commit, what)
e["what"] = what
e["replay"] = replay
lst.append(e)
json.dump(d, open(p, 'w'), indent=1, ensure_ascii=False)
open(p, 'a').write("\n")
print("added", prop, status, obl)
