#!/bin/bash
# seed-batch.sh <prop>... : verify mutant outputs /tmp/mut/<prop>/_out/{1,2,3} one after another (root tests use fixed ports)
mkdir -p /tmp/seedverify
for p in "$@"; do for k in 1 2 3; do
  [ -d /tmp/mut/$p/_out/$k ] || continue
  /verif/tools/seed-verify.sh /tmp/mut/$p/_out/$k $p-$k > /tmp/seedverify/$p-$k.log 2>&1
  echo "$p-$k: $(grep -A3 '== demo on unchanged' /tmp/seedverify/$p-$k.log | grep -E '^(ok|FAIL|---)' | head -1 | cut -c1-40) | $(grep -A5 '== demo with change' /tmp/seedverify/$p-$k.log | grep -E '^(ok|FAIL)' | head -1 | cut -c1-40) | $(grep -A4 '== package tests' /tmp/seedverify/$p-$k.log | grep -E '^(ok|FAIL)' | tr '\n' ' ' | cut -c1-120) $(grep -E 'DOES NOT' /tmp/seedverify/$p-$k.log)"
done; done
