#!/usr/bin/env python3
"""Compare the EXPORT VIEW of middleware/session in middleware/csrf/zz_contracts_session_verif.go with the checked
contracts of middleware/session: every requires/ensures clause of a view function must occur, with the same label and
text, in the session package's block of the same function (the sessErr record `fault-recorded` is the documented
addition); the modifies list must be the session package's list (plus sessErr).
usage: view_check.py <repo>"""
import re, sys, glob
repo = sys.argv[1]
def blocks(files):
    out, cur = {}, None
    for f in files:
        for line in open(f):
            line = line.rstrip("\n")
            m = re.match(r"//@ func (.*?)(\([\w, ]*\))?(( (assumed|pure|fresh|panics|allocates))*)\s*$", line)
            if m:
                cur = m.group(1).strip(); out.setdefault(cur, [])
                if "pure" in (m.group(3) or ""): out[cur].append("pure")
                continue
            if line.startswith("//@ ..") and cur: out[cur][-1] += " " + line[6:].strip(); continue
            if line.startswith("//@   ") and cur: out[cur].append(line[6:].strip()); continue
            if line.startswith("//@ ") : cur = None
    return out
sess = blocks(sorted(glob.glob(repo + "/middleware/session/zz_contracts*_verif.go")))
view = blocks([repo + "/middleware/csrf/zz_contracts_session_verif.go"])
norm = lambda t: re.sub(r"\s+", " ", t.replace("*session.", "*").replace("session.", "").replace("srcHeader()", "SourceHeader").replace("srcQuery()", "SourceURLQuery").replace("errorsSetF()", "errorsSet()"))
bad = 0
checked = 0
for name, cls in view.items():
    if not name.startswith("@session."): continue
    own = name[len("@session."):]
    if own not in sess: print("NO BLOCK in session for", own); bad += 1; continue
    have = [norm(c) for c in sess[own]]
    for c in cls:
        n = norm(c)
        checked += 1
        if n.startswith("ensures fault-recorded:"): continue
        if n.startswith("modifies"):
            a = set(x.strip() for x in n[len("modifies"):].split(",")) - {"sessErr"}
            b = set()
            for h in have:
                if h.startswith("modifies"): b |= set(x.strip() for x in h[len("modifies"):].split(","))
                if h == "pure": b |= set()
            if a != b and not (not a and "pure" in have): print("MODIFIES differs for", own, sorted(a ^ b)); bad += 1
            continue
        if n.startswith("ensures refused-inside-middleware:"):  # the view drops one conjunct (weaker)
            n2 = n.replace("result1 != nil && stHas", "result1 != nil && result1 == ErrSessionAlreadyLoadedByMiddleware && stHas")
            if n2 in have: continue
        if n not in have: print("NOT PROVED IN session:", own, "::", c); bad += 1
print("view clauses checked:", checked, "differences:", bad)
sys.exit(1 if bad else 0)
