#!/bin/bash
# seed-sweep.sh <solver seeds...> : run every claimed quick check under shifted z3 seeds (FVC_SOLVER_SEED) in THIS copy of
# /verif (evidence goes to this copy) and list the obligations whose verdict depends on the seed. For `vp run`.
cd "$(dirname "$0")/.." || exit 2
export GOFLAGS=-mod=mod GOPROXY=off GOSUMDB=off GOTOOLCHAIN=local FVC_VERIF=$PWD
[ -x bin/fvc ] || (cd engine && go build -o ../bin/fvc .) || exit 2
for sd in "$@"; do
  for p in $(jq -r '.checks[].property_id' MANIFEST.json); do
    FVC_SOLVER_SEED=$sd bin/fvc check $p quick > sweep.$sd.$p.log 2>&1
    echo "seed $sd $p rc=$? $(grep -E 'discharged' sweep.$sd.$p.log | cut -c1-90)"
    grep -E "^VIOLATION|ENGINE" sweep.$sd.$p.log | cut -c1-220
  done
done
