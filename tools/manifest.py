#!/usr/bin/env python3
"""Regenerates MANIFEST.json from tools/claims.json (one entry per claimed property)."""
import json
props=[json.loads(l) for l in open('/verif/properties.jsonl')]
claims=json.load(open('/verif/tools/claims.json'))
import subprocess
try:
    hc=subprocess.run(["git","-C","/repo","log","--format=%h %s","--grep=^verif:"],capture_output=True,text=True).stdout.strip().splitlines()
    if hc: claims["hook_commits"]=hc[::-1]
except Exception: pass
m={"version":1,
 "setup_cmd":"cd engine && GOFLAGS=-mod=mod GOPROXY=off GOSUMDB=off GOTOOLCHAIN=local go build -o ../bin/fvc .",
 "hooks":{"guard":"verif","enable":"-tags verif (comment-only contract files zz_contracts_verif.go in /repo packages; read by bin/fvc, they contain no executable code)","baseline_off_cmd":"cd /repo && GOFLAGS=-mod=mod go test -json -vet=off -count=1 -timeout 25m ./...","source_commits":claims.get("hook_commits",[]),"add_only":True},
 "engines":[{"name":"fvc","path":"engine","serves_properties":sorted(claims["checks"].keys()),"kind_free_text":"contract-based deductive verifier for Go written for this task: //@ contracts on the real functions (comment-only files behind build tag verif), weakest-precondition style VC generation over go/ssa of the current tree, obligations discharged by z3 5.1.0 / cvc5 1.0.3"}],
 "checks":[], "notes":"see DESIGN.md; known findings and fixes are in known-findings.json", "not_applicable":[]}
for p in props:
    pid=p["id"]
    if pid in claims["checks"]:
        c=claims["checks"][pid]
        m["checks"].append({"property_id":pid,"quick_cmd":f"./check {pid} quick","thorough_cmd":f"./check {pid} thorough","evidence_file":f"/verif/evidence/{pid}.json","replay_cmd_template":"./check --replay {path}","engine":"fvc",
          "level_claimed":{"category":c.get("category","proof"),"text":c["text"],"design_ref":c.get("design_ref","DESIGN.md §11 "+pid)},
          "level_note":c["note"],"technique":c.get("technique","contract-based deductive verification: //@ contracts on the real functions, VCs generated from go/ssa, discharged by z3/cvc5")})
    else:
        m["not_applicable"].append({"property_id":pid,"reason":claims.get("not_applicable",{}).get(pid,"not built yet; see DESIGN.md §11 for the plan")})
json.dump(m,open('/verif/MANIFEST.json','w'),indent=1)
print("claimed",len(m["checks"]),"not_applicable",len(m["not_applicable"]))
