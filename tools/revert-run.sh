#!/bin/bash
# revert-run.sh <fix commit> <property> : revert the library part of one `fix:` commit in a scratch worktree of /repo's HEAD
# and run the property's quick check against it (scratch copy of /verif): the repaired defect must fail a named obligation again.
cd /verif
c=$1; p=$2; wt=/tmp/revrun_wt; vf=/tmp/revrun_vf
git -C /repo worktree remove --force $wt 2>/dev/null; git -C /repo worktree prune
git -C /repo worktree add -q --detach $wt HEAD || exit 2
trap 'git -C /repo worktree remove --force $wt >/dev/null 2>&1' EXIT
git -C /repo show $c -- . ':(exclude)*zz_contracts*' | git -C $wt apply -R || { echo "revert of $c does not apply"; exit 3; }
(cd $wt && GOFLAGS=-mod=mod GOPROXY=off GOSUMDB=off GOTOOLCHAIN=local go build ./... ) || { echo "revert of $c does not compile"; exit 3; }
rsync -a --delete --exclude .git --exclude replays --exclude seeded --exclude bin /verif/ $vf/
FVC_REPO=$wt FVC_VERIF=$vf bin/fvc check $p quick > /tmp/revrun.$c.log 2>&1; rc=$?
echo "revert $c property $p exit=$rc"; grep -E "VIOLATION|ENGINE|UNDECIDED" /tmp/revrun.$c.log | grep -o "obligation=[^ ]*\|UNDECIDED.*" | cut -c1-220 | head -8
