#!/bin/bash
# seed-batch2.sh <gen dir> <offset> <prop>... : verify sub-agent outputs <gen dir>/<prop>/_out/{1,2,3} one after another
# (root tests use fixed ports) and store them as /verif/seeded/<prop>-<k+offset>
gd=$1; off=$2; shift 2
mkdir -p /tmp/seedverify
for p in "$@"; do for k in 1 2 3; do
  [ -d $gd/$p/_out/$k ] || continue
  id=$p-$((k+off))
  /verif/tools/seed-verify.sh $gd/$p/_out/$k $id > /tmp/seedverify/$id.log 2>&1
  echo "$id: $(grep -A3 '== demo on unchanged' /tmp/seedverify/$id.log | grep -E '^(ok|FAIL|---)' | head -1 | cut -c1-40) | $(grep -A5 '== demo with change' /tmp/seedverify/$id.log | grep -E '^(ok|FAIL)' | head -1 | cut -c1-40) | $(grep -A4 '== package tests' /tmp/seedverify/$id.log | grep -E '^(ok|FAIL)' | tr '\n' ' ' | cut -c1-120) $(grep -E 'DOES NOT' /tmp/seedverify/$id.log)"
done; done
