#!/bin/bash
# integrate.sh <agent name> : apply a contract sub-agent's contracts.patch to /repo and deps.patch to /verif/contracts
set -u
o=/tmp/ag/$1/out
git -C /repo apply --check $o/contracts.patch 2>/tmp/integ.err && git -C /repo apply $o/contracts.patch && echo "contracts.patch applied" || { echo "contracts.patch does NOT apply cleanly:"; head -5 /tmp/integ.err; git -C /repo apply --3way $o/contracts.patch && echo "applied with 3way"; }
if [ -s $o/deps.patch ]; then
  sed -E "s#^\+\+\+ /tmp/ag/$1/verif/#+++ /verif/#" $o/deps.patch > /tmp/integ.deps.patch
  (cd / && patch -p0 --forward < /tmp/integ.deps.patch) && echo "deps.patch applied"
fi
