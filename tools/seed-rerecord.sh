#!/bin/bash
# seed-rerecord.sh [slots] : re-run every stored seed against the current tree (scratch worktrees and scratch copies of /verif)
# and rewrite detected_by in its meta.json. Seeds are distributed over <slots> sequential lanes (default 2: more lanes make
# load-induced timeouts likelier, which would be recorded as detections).
cd /verif
n=${1:-2}
ls seeded | sort | grep -v "${SEED_SKIP:-^$}" > /tmp/rerecord.all
for i in $(seq 0 $((n-1))); do
  ( awk -v n=$n -v i=$i 'NR % n == i' /tmp/rerecord.all | while read s; do
      p=${s%%-*}
      SEED_SLOT=$i python3 tools/seed-record.py $s $p 2>&1 | head -3
    done > /tmp/rerecord.$i.log 2>&1 ) &
done
wait
cat /tmp/rerecord.*.log | grep "^seed" | sort
