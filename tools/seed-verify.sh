#!/bin/bash
# seed-verify.sh <src dir with patch.diff demo_test.go meta.json> <seed id> [pkgs to test]
# Confirms a seeded breaking change in a scratch worktree of /repo's HEAD: compiles, package tests pass,
# demo fails with the change and passes without; then stores it under /verif/seeded/<id>/.
set -u
export GOFLAGS=-mod=mod GOPROXY=off GOSUMDB=off GOTOOLCHAIN=local
src=$1; id=$2
place=$(head -1 "$src/demo_test.go" | sed -n 's|^// place in: *||p' | awk '{print $1}')
[ -z "$place" ] && place=.
wt=$(mktemp -d /tmp/seedwt.XXXX); rmdir "$wt"
git -C /repo worktree add -q --detach "$wt" HEAD || exit 2
trap 'git -C /repo worktree remove --force "$wt" >/dev/null 2>&1' EXIT
cd "$wt" || exit 2
tname=$(grep -o 'func Test[A-Za-z0-9_]*' "$src/demo_test.go" | head -1 | sed 's/func //')
cp "$src/demo_test.go" "$place/zz_seed_demo_test.go"
echo "== demo on unchanged tree (must pass)"
(cd "$place" && go test -vet=off -count=1 -timeout 120s -run "^$tname\$" . 2>&1 | tail -3); r0=${PIPESTATUS[0]}
git apply "$src/patch.diff" || { echo "PATCH DOES NOT APPLY"; exit 3; }
echo "== build"
go build ./... || { echo "DOES NOT COMPILE"; exit 3; }
echo "== demo with change (must fail)"
(cd "$place" && go test -vet=off -count=1 -timeout 120s -run "^$tname\$" . 2>&1 | tail -5)
rm "$place/zz_seed_demo_test.go"
echo "== package tests with change (must pass)"
pkgs=$(git diff --name-only | xargs -n1 dirname | sort -u | sed 's|^|./|')
go test -vet=off -count=1 -timeout 600s $pkgs 2>&1 | tail -4
mkdir -p /verif/seeded/$id && cp "$src/patch.diff" "$src/demo_test.go" "$src/meta.json" /verif/seeded/$id/
