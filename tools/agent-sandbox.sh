#!/bin/bash
# agent-sandbox.sh seed <prop>      : scratch worktree of /repo HEAD for a seed-writing sub-agent under /tmp/mut2/<prop>/wt,
#                                     with the contract files removed (committed on the detached HEAD, so `git diff` is clean)
# agent-sandbox.sh contract <name>  : private copy for a contract-writing sub-agent: /tmp/ag/<name>/repo (worktree of HEAD,
#                                     contracts included) and /tmp/ag/<name>/verif (copy of /verif without history/replays/seeds)
# agent-sandbox.sh rm seed|contract <name> : remove it again (worktree + build output)
set -u
kind=$1; name=$2
case $kind in
seed)
  d=${SEED_GEN_DIR:-/tmp/mut2}/$name; mkdir -p $d/_out
  git -C /repo worktree add -q --detach $d/wt HEAD || exit 2
  cd $d/wt && git rm -q $(git ls-files | grep 'zz_contracts.*_verif.go') && git -c user.name=scratch -c user.email=s@x commit -qm "scratch: worktree without contract files" && echo "$d/wt ready"
  ;;
contract)
  d=/tmp/ag/$name; mkdir -p $d/out
  git -C /repo worktree add -q --detach $d/repo HEAD || exit 2
  rsync -a --exclude .git --exclude replays --exclude seeded --exclude bin --exclude '*.smt2' /verif/ $d/verif/
  echo "$d ready: FVC_REPO=$d/repo FVC_VERIF=$d/verif /verif/bin/fvc ..."
  ;;
rm)
  k=$2; n=$3
  if [ "$k" = seed ]; then d=/tmp/mut2/$n; git -C /repo worktree remove --force $d/wt; else d=/tmp/ag/$n; git -C /repo worktree remove --force $d/repo; rm -rf $d/verif; fi
  git -C /repo worktree prune
  ;;
esac
