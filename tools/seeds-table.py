#!/usr/bin/env python3
"""seeds-table.py : markdown table of /verif/seeded/*/meta.json (id, what, which check/obligation catches it)."""
import json, glob, os, re
rows = []
for d in sorted(glob.glob('/verif/seeded/*'), key=lambda p: (os.path.basename(p).split('-')[0], int(os.path.basename(p).split('-')[1]))):
    sid = os.path.basename(d)
    try:
        m = json.load(open(d + '/meta.json'))
    except Exception:
        continue
    what = m.get('summary') or m.get('description') or m.get('what') or ''
    what = re.sub(r'\s+', ' ', str(what))
    if len(what) > 150:
        what = what[:147].rsplit(' ', 1)[0] + ' …'
    db = m.get('detected_by') or {}
    if str(m.get('status_on_current_tree','')).startswith('invalidated'):
        res = 'not counted: ' + str(m['status_on_current_tree'])[:110]
    elif db.get('exit') == 1:
        res = '`' + db.get('obligation', '?') + '`' + (' (replayed on the real code)' if db.get('replayed') else '')
    else:
        res = 'MISSED' + (': ' + m['missed_why'] if m.get('missed_why') else '')
    rows.append((sid, what.replace('|', '/'), res))
print('| seed | change | caught by |\n|---|---|---|')
for r in rows:
    print('| %s | %s | %s |' % r)
missed = [r[0] for r in rows if r[2].startswith('MISSED')]
invalid = [r[0] for r in rows if r[2].startswith('not counted')]
print('\n%d seeds, %d not counted (%s), %d caught, %d missed (%s)' % (len(rows), len(invalid), ', '.join(invalid), len(rows) - len(missed) - len(invalid), len(missed), ', '.join(missed)))
