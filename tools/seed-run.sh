#!/bin/bash
# seed-run.sh <seed id> <property> : apply the seeded change to /repo, run the property's quick check, undo.
cd /verif
[ -n "$(git -C /repo status --porcelain)" ] && { echo 'refusing: /repo has uncommitted changes'; exit 4; }
git -C /repo apply /verif/seeded/$1/patch.diff || { echo "patch does not apply"; exit 3; }
./check $2 quick > /tmp/seedrun.$1.log 2>&1; rc=$?
git -C /repo checkout -- . 
echo "seed $1 property $2 exit=$rc"; grep -E "VIOLATION|KNOWN|ENGINE|UNDECIDED" /tmp/seedrun.$1.log | cut -c1-260
exit $rc
