#!/bin/bash
# seed-run.sh <seed id> <property> : apply the seeded change to a scratch worktree of /repo's HEAD, run the property's quick
# check against it with a scratch copy of /verif (so that /verif/evidence and /verif/replays keep the clean-tree results), undo.
cd /verif
slot=${SEED_SLOT:-0}; wt=/tmp/seedrun_wt$slot; vf=/tmp/seedrun_vf$slot
git -C /repo worktree remove --force $wt 2>/dev/null; git -C /repo worktree prune
git -C /repo worktree add -q --detach $wt HEAD || exit 2
trap 'git -C /repo worktree remove --force $wt >/dev/null 2>&1' EXIT
git -C $wt apply --check /verif/seeded/$1/patch.diff || { echo "patch does not apply"; exit 3; }
git -C $wt apply /verif/seeded/$1/patch.diff
rsync -a --delete --exclude .git --exclude replays --exclude seeded --exclude bin /verif/ $vf/
FVC_REPO=$wt FVC_VERIF=$vf bin/fvc check $2 quick > /tmp/seedrun.$1.log 2>&1; rc=$?
echo "seed $1 property $2 exit=$rc"; grep -E "VIOLATION|KNOWN|ENGINE|UNDECIDED" /tmp/seedrun.$1.log | cut -c1-260
exit $rc
