#!/bin/bash
# seed-run.sh <seed id> <property> : apply the seeded change to /repo, run the property's quick check, undo
# (reverse-apply, so that no other working-tree file of /repo is touched).
cd /verif
git -C /repo apply --check /verif/seeded/$1/patch.diff || { echo "patch does not apply"; exit 3; }
git -C /repo apply /verif/seeded/$1/patch.diff
./check $2 quick > /tmp/seedrun.$1.log 2>&1; rc=$?
git -C /repo apply -R /verif/seeded/$1/patch.diff || echo "WARNING: could not undo $1"
echo "seed $1 property $2 exit=$rc"; grep -E "VIOLATION|KNOWN|ENGINE|UNDECIDED" /tmp/seedrun.$1.log | cut -c1-260
exit $rc
