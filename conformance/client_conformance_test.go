// place in: client
package client

// Bounded conformance tests for the assumed dependency contracts that contract round d_client added or changed
// (verif/contracts/deps/mw_C18.spec, mw_C06.spec): the real fasthttp v1.60 / strings behaviour against what the
// contract says.

import (
	"strings"
	"testing"

	"github.com/valyala/fasthttp"
)

func fvcLines(h *fasthttp.RequestHeader, name string) []string {
	var out []string
	for _, v := range h.PeekAll(name) {
		out = append(out, string(v))
	}
	return out
}

// (*RequestHeader).DelBytes(key): the name is normalised, every line of that name goes, other names stay; a name that
// normalises to User-Agent clears the user-agent field.
func TestFVCConformanceDelBytes(t *testing.T) {
	for _, spelling := range []string{"X-Tok", "x-tok", "X-TOK"} {
		var h fasthttp.RequestHeader
		h.Add("X-Tok", "a")
		h.Add("x-tok", "b")
		h.Add("X-Other", "c")
		h.SetUserAgent("ua")
		h.DelBytes([]byte(spelling))
		if got := fvcLines(&h, "X-Tok"); len(got) != 0 {
			t.Errorf("DelBytes(%q): lines of the name left: %v", spelling, got)
		}
		if got := fvcLines(&h, "X-Other"); len(got) != 1 || got[0] != "c" {
			t.Errorf("DelBytes(%q): other name changed: %v", spelling, got)
		}
		if string(h.UserAgent()) != "ua" {
			t.Errorf("DelBytes(%q) changed the user agent: %q", spelling, h.UserAgent())
		}
	}
	var h fasthttp.RequestHeader
	h.SetUserAgent("ua")
	h.Add("X-Other", "c")
	h.DelBytes([]byte("user-agent"))
	if len(h.UserAgent()) != 0 {
		t.Errorf("DelBytes(user-agent) left the user-agent field: %q", h.UserAgent())
	}
	if got := fvcLines(&h, "X-Other"); len(got) != 1 {
		t.Errorf("DelBytes(user-agent) changed another name: %v", got)
	}
}

// SetReferer(v) is Set("Referer", v): rewrites the FIRST stored Referer line (or appends one), keeps further ones, also
// for the empty value (an empty "Referer:" line is stored and sent).
func TestFVCConformanceSetRefererIsSet(t *testing.T) {
	var h fasthttp.RequestHeader
	h.SetReferer("z")
	if got := fvcLines(&h, "Referer"); len(got) != 1 || got[0] != "z" { // none-before-exactly-one-after
		t.Errorf("SetReferer on an empty header: %v", got)
	}
	h.Reset()
	h.Add("Referer", "x")
	h.Add("referer", "y")
	h.Add("X-Other", "c")
	h.SetReferer("z")
	got := fvcLines(&h, "Referer")
	if len(got) != 2 || got[0] != "z" || got[1] != "y" { // value-present, nothing-else-added, at-most-one-value-replaced
		t.Errorf("Add x, Add y, SetReferer z: %v, want [z y]", got)
	}
	if o := fvcLines(&h, "X-Other"); len(o) != 1 || o[0] != "c" {
		t.Errorf("SetReferer changed another name: %v", o)
	}
	// a Referer written through the generic writers is overwritten by SetReferer(""), and the empty line is on the wire
	h.Reset()
	h.SetRequestURI("/")
	h.SetHost("example.com")
	h.Set("Referer", "http://configured.example/")
	h.SetReferer("")
	if got := fvcLines(&h, "Referer"); len(got) != 1 || got[0] != "" {
		t.Errorf("Set(Referer, v) then SetReferer(\"\"): %q, want one empty line", got)
	}
	if !strings.Contains(h.String(), "Referer: \r\n") {
		t.Errorf("empty Referer line is not serialised:\n%s", h.String())
	}
}

// (*RequestHeader).Reset / (*Request).Reset: the header holds nothing afterwards.
func TestFVCConformanceHeaderReset(t *testing.T) {
	check := func(name string, h *fasthttp.RequestHeader) {
		n := 0
		h.VisitAll(func(_, _ []byte) { n++ })
		if n != 0 {
			t.Errorf("%s: %d header lines left", name, n)
		}
		if len(h.UserAgent()) != 0 || len(h.Referer()) != 0 || len(h.ContentType()) != 0 || len(h.MultipartFormBoundary()) != 0 {
			t.Errorf("%s: a field view is not empty", name)
		}
		if string(h.Method()) != "GET" {
			t.Errorf("%s: method %q (an empty method is sent as GET)", name, h.Method())
		}
		c := 0
		h.VisitAllCookie(func(_, _ []byte) { c++ })
		if c != 0 {
			t.Errorf("%s: %d cookies left", name, c)
		}
	}
	fill := func(h *fasthttp.RequestHeader) {
		h.SetMethod("POST")
		h.Add("X-A", "1")
		h.Add("X-A", "2")
		h.SetUserAgent("ua")
		h.SetReferer("r")
		h.SetCookie("k", "v")
		h.SetContentType("multipart/form-data")
		h.SetMultipartFormBoundary("b")
	}
	var h fasthttp.RequestHeader
	fill(&h)
	h.Reset()
	check("RequestHeader.Reset", &h)

	var other fasthttp.RequestHeader
	fill(&other)
	req := fasthttp.AcquireRequest()
	defer fasthttp.ReleaseRequest(req)
	fill(&req.Header)
	req.SetBody([]byte("body"))
	req.SetRequestURI("http://example.com/p?q=1")
	req.Reset()
	check("Request.Reset", &req.Header)
	if len(req.Body()) != 0 {
		t.Errorf("Request.Reset: body left: %q", req.Body())
	}
	if got := fvcLines(&other, "X-A"); len(got) != 2 || string(other.UserAgent()) != "ua" {
		t.Errorf("Request.Reset changed another header object: %v %q", got, other.UserAgent())
	}
}

// strings.SplitN(s, sep, 2) and the first piece of strings.Split(s, sep) against strings.Index (strIndexOf).
func TestFVCConformanceSplitN(t *testing.T) {
	alphabet := []byte("a?#")
	var gen func(prefix []byte, n int, f func(string))
	gen = func(prefix []byte, n int, f func(string)) {
		f(string(prefix))
		if n == 0 {
			return
		}
		for _, b := range alphabet {
			gen(append(append([]byte(nil), prefix...), b), n-1, f)
		}
	}
	for _, sep := range []string{"?", "#", "?#"} {
		gen(nil, 6, func(s string) {
			i := strings.Index(s, sep)
			// first-occurrence / none-earlier
			if i >= 0 && s[i:i+len(sep)] != sep {
				t.Fatalf("Index(%q,%q)=%d", s, sep, i)
			}
			upto := i
			if i < 0 {
				upto = len(s) - len(sep) + 1
			}
			for j := 0; j < upto; j++ {
				if s[j:j+len(sep)] == sep {
					t.Fatalf("earlier occurrence of %q in %q at %d (Index=%d)", sep, s, j, i)
				}
			}
			got := strings.SplitN(s, sep, 2)
			if i < 0 {
				if len(got) != 1 || got[0] != s {
					t.Errorf("SplitN(%q,%q,2)=%q, want the string itself", s, sep, got)
				}
			} else if len(got) != 2 || got[0] != s[:i] || got[1] != s[i+len(sep):] {
				t.Errorf("SplitN(%q,%q,2)=%q, want [%q %q]", s, sep, got, s[:i], s[i+len(sep):])
			}
			all := strings.Split(s, sep)
			want := s
			if i >= 0 {
				want = s[:i]
			}
			if len(all) < 1 || all[0] != want {
				t.Errorf("Split(%q,%q)[0]=%q, want %q", s, sep, all, want)
			}
		})
	}
}

// fasthttp.AcquireArgs / AcquireRequest hand out an object; SetRequestURI stores the text.
func TestFVCConformanceAcquire(t *testing.T) {
	a := fasthttp.AcquireArgs()
	if a == nil {
		t.Fatal("AcquireArgs returned nil")
	}
	fasthttp.ReleaseArgs(a)
	r1, r2 := fasthttp.AcquireRequest(), fasthttp.AcquireRequest()
	if r1 == nil || r2 == nil || r1 == r2 {
		t.Fatalf("AcquireRequest: %p %p", r1, r2)
	}
	r1.SetRequestURI("/x?y=1")
	if string(r1.RequestURI()) != "/x?y=1" {
		t.Errorf("SetRequestURI: %q", r1.RequestURI())
	}
	fasthttp.ReleaseRequest(r1)
	fasthttp.ReleaseRequest(r2)
}
