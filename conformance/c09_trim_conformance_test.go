// place in: internal/c09conf   (any directory of the fiber module works; it imports only bytes and fasthttp)
//
// Bounded CONFORMANCE test of the ASSUMED contracts added to /verif/contracts/deps/mw_C09.spec for C09:
//   bytes.TrimLeft / bytes.TrimRight / bytes.Trim with an ASCII cutset (suffix-of-s / prefix-of-s / middle-of-s,
//   first/last-byte-kept, only-cutset-dropped, slice identity only for a non-empty result, text == trimmedSet)
//   fasthttp.ParseUfloat: verdict-is-a-function-of-the-text (ufloatOK), value a function of the text and >= 0.
// Exhaustive over all byte strings up to length 5 over an alphabet of 6 bytes (incl. a non-ASCII byte), for the
// cutsets " \t", " ", "\t", "", " \t;" - every string embedded at every offset of a larger backing array.
package c09conf

import (
	"bytes"
	"testing"
	"unsafe"

	"github.com/valyala/fasthttp"
)

func inCutset(cs string, x byte) bool {
	for q := 0; q < len(cs); q++ {
		if cs[q] == x {
			return true
		}
	}
	return false
}

func sameSlice(a, b []byte) bool { // array, offset, length (the identity the model gives a byte slice)
	return len(a) == len(b) && (len(a) == 0 || unsafe.SliceData(a) == unsafe.SliceData(b))
}

func each(alpha []byte, n int, f func([]byte)) {
	var rec func(cur []byte)
	rec = func(cur []byte) {
		f(cur)
		if len(cur) == n {
			return
		}
		for _, c := range alpha {
			rec(append(append([]byte{}, cur...), c))
		}
	}
	rec(nil)
}

func Test_C09_Conformance_BytesTrim(t *testing.T) {
	alpha := []byte{' ', '\t', 'a', ';', ',', 0xC3}
	cutsets := []string{" \t", " ", "\t", "", " \t;"}
	count := 0
	each(alpha, 5, func(text []byte) {
		for _, cs := range cutsets {
			back := append(append([]byte("xx"), text...), "yy"...)
			s := back[2 : 2+len(text)]
			count++
			// TrimLeft
			r := bytes.TrimLeft(s, cs)
			if !(len(r) <= len(s) && string(r) == string(s[len(s)-len(r):]) && (len(r) == 0 || sameSlice(r, s[len(s)-len(r):]))) {
				t.Fatalf("TrimLeft suffix-of-s %q %q -> %q", s, cs, r)
			}
			if len(r) > 0 && inCutset(cs, r[0]) {
				t.Fatalf("TrimLeft first-byte-kept %q %q -> %q", s, cs, r)
			}
			for k := 0; k < len(s)-len(r); k++ {
				if !inCutset(cs, s[k]) {
					t.Fatalf("TrimLeft only-cutset-dropped %q %q -> %q", s, cs, r)
				}
			}
			// TrimRight
			r = bytes.TrimRight(s, cs)
			if !(len(r) <= len(s) && string(r) == string(s[:len(r)]) && (len(r) == 0 || sameSlice(r, s[:len(r)]))) {
				t.Fatalf("TrimRight prefix-of-s %q %q -> %q", s, cs, r)
			}
			if len(r) > 0 && inCutset(cs, r[len(r)-1]) {
				t.Fatalf("TrimRight last-byte-kept %q %q -> %q", s, cs, r)
			}
			for k := len(r); k < len(s); k++ {
				if !inCutset(cs, s[k]) {
					t.Fatalf("TrimRight only-cutset-dropped %q %q -> %q", s, cs, r)
				}
			}
			// Trim: cutLead = number of leading cutset bytes when something is left, any split otherwise
			r = bytes.Trim(s, cs)
			lead := 0
			for lead < len(s) && inCutset(cs, s[lead]) {
				lead++
			}
			if len(r) == 0 {
				lead = 0 // any cutLead with cutLead + 0 <= len(s) whose two dropped parts are cutset bytes: 0 works iff all of s is cutset
				for k := 0; k < len(s); k++ {
					if !inCutset(cs, s[k]) {
						t.Fatalf("Trim only-cutset-dropped (empty result) %q %q", s, cs)
					}
				}
			} else {
				if !(lead+len(r) <= len(s) && string(r) == string(s[lead:lead+len(r)]) && sameSlice(r, s[lead:lead+len(r)])) {
					t.Fatalf("Trim middle-of-s %q %q -> %q", s, cs, r)
				}
				if inCutset(cs, r[0]) || inCutset(cs, r[len(r)-1]) {
					t.Fatalf("Trim end-bytes-kept %q %q -> %q", s, cs, r)
				}
				for k := lead + len(r); k < len(s); k++ {
					if !inCutset(cs, s[k]) {
						t.Fatalf("Trim only-cutset-dropped %q %q -> %q", s, cs, r)
					}
				}
			}
			// text: a function of (text of s, cutset): the same text in another array gives the same text
			other := append([]byte{}, s...)
			if string(bytes.Trim(other, cs)) != string(r) {
				t.Fatalf("Trim text not a function of the text %q %q", s, cs)
			}
			// the input is never written
			if string(back) != "xx"+string(text)+"yy" {
				t.Fatalf("input written %q", back)
			}
		}
	})
	t.Logf("%d (string, cutset) pairs checked", count)
}

func Test_C09_Conformance_ParseUfloat(t *testing.T) {
	alpha := []byte{'0', '1', '9', '.', ' ', '\t', 'e', '-', 'q'}
	count := 0
	each(alpha, 5, func(text []byte) {
		count++
		a := append([]byte("zz"), text...)
		v1, e1 := fasthttp.ParseUfloat(a[2:])
		v2, e2 := fasthttp.ParseUfloat(append([]byte{}, text...))
		if (e1 == nil) != (e2 == nil) {
			t.Fatalf("verdict not a function of the text: %q", text)
		}
		if e1 == nil && (v1 != v2 || v1 < 0) {
			t.Fatalf("value not a function of the text or negative: %q %v %v", text, v1, v2)
		}
		if string(a[2:]) != string(text) {
			t.Fatalf("input written: %q", text)
		}
	})
	// the facts the fixes rest on: optional whitespace makes the weight unparsable
	for _, s := range []string{"0.1 ", "0.1\t", " 0.1", "0 "} {
		if _, err := fasthttp.ParseUfloat([]byte(s)); err == nil {
			t.Fatalf("ParseUfloat(%q) accepted", s)
		}
	}
	t.Logf("%d texts checked", count)
}
