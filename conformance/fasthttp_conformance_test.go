// place in: internal/fasthttpconf   (any directory of the fiber module works; it imports only fasthttp)
//
// Bounded CONFORMANCE test of the ASSUMED fasthttp contracts in /verif/contracts/deps
// (mw_C18.spec, mw_C15.spec, mw_C17.spec, mw_C20.spec, mw_C12.spec, mw_C14.spec, mw_C07.spec).
//
// Every assumed contract is a relation between the ghost state before and after a call. The test
//  1. defines, per ghost variable, the ABSTRACTION of the real fasthttp object it stands for
//     (what the spec comment says the ghost means: "the header object holds a line k: v", ...),
//  2. runs every operation sequence up to a bounded length over 2 keys x 2 values,
//  3. evaluates the clauses (ensures + frame) of the LAST operation of every sequence on
//     (abstraction before, abstraction after) - the clauses are re-implemented by hand below,
//  4. reports every (operation, clause) that fasthttp violates, with the shortest sequences.
//
// Two versions of the clauses are implemented:
//
//	FASTHTTPCONF_SPEC=old   the contracts as they were before the correction (lists the disagreements; FAILS)
//	FASTHTTPCONF_SPEC=new   (default) the corrected contracts; must pass. Frame effects across ghost VIEWS that
//	                        the corrected contracts still do not state are listed in knownRemaining
//	                        (they are reported, and are recorded as remaining assumptions).
package fasthttpconf

import (
	"bytes"
	"fmt"
	"os"
	"sort"
	"strings"
	"testing"
	"time"

	"github.com/valyala/fasthttp"
)

var specNew = os.Getenv("FASTHTTPCONF_SPEC") != "old"

// ------------------------------------------------------------------------------------------------
// exploration
// ------------------------------------------------------------------------------------------------

type viol struct {
	class  string // ENSURES (a clause about the operation's own view), FRAME (a ghost outside `modifies` changed), DOMAIN (dedicated header name)
	clause string
	detail string
}

type op struct {
	kind string // "RequestHeader.Set"
	name string // "Set(X-A,a)"
	run  func(sys any) []viol
}

type family struct {
	name   string
	maxLen int
	fresh  func() any
	ops    []op
}

type finding struct {
	count int
	seqs  []string
	lens  []int
}

func explore(t *testing.T, f family) map[string]*finding {
	t.Helper()
	res := map[string]*finding{}
	nseq := 0
	var rec func(prefix []int)
	rec = func(prefix []int) {
		for i := range f.ops {
			seq := append(append([]int{}, prefix...), i)
			sys := f.fresh()
			var vs []viol
			for _, j := range seq {
				vs = f.ops[j].run(sys) // only the verdict of the last operation is used
			}
			nseq++
			if len(vs) > 0 {
				names := make([]string, len(seq))
				for k, j := range seq {
					names[k] = f.ops[j].name
				}
				for _, v := range vs {
					key := v.class + " " + f.ops[i].kind + " / " + v.clause
					fd := res[key]
					if fd == nil {
						fd = &finding{}
						res[key] = fd
					}
					fd.count++
					txt := strings.Join(names, "; ") + "   => " + v.detail
					if len(fd.seqs) < 2 {
						fd.seqs, fd.lens = append(fd.seqs, txt), append(fd.lens, len(seq))
					} else {
						for x := range fd.seqs { // keep the shortest examples
							if len(seq) < fd.lens[x] {
								fd.seqs[x], fd.lens[x] = txt, len(seq)
								break
							}
						}
					}
				}
				pruned := false
				for _, v := range vs {
					if v.class == "ENSURES" {
						pruned = true // minimal sequences only: a sequence whose last step violates an ensures clause is not extended
					}
				}
				if pruned {
					continue
				}
			}
			if len(seq) < f.maxLen {
				rec(seq)
			}
		}
	}
	rec(nil)
	t.Logf("family %s: %d operations, %d sequences (length <= %d)", f.name, len(f.ops), nseq, f.maxLen)
	return res
}

// knownRemaining: disagreements the CORRECTED contracts still have, each a recorded assumption of the properties that
// use the contract (they are logged, they do not fail the test in the default mode).
var knownRemaining = map[string]string{
	// one header object is written through the writers of one ghost view only
	"FRAME RequestHeader.Set / frame:rqHdr":          "client-side writers do not maintain the server-side view rqHdrHas/rqHdrVal (middleware/session uses SetBytesV/Del only, package client never reads that view)",
	"FRAME RequestHeader.Add / frame:rqHdr":          "same",
	"FRAME RequestHeader.AddBytesKV / frame:rqHdr":   "same",
	"FRAME RequestHeader.SetReferer / frame:rqHdr":   "same (SetReferer is Set(\"Referer\", v))",
	"FRAME ResponseHeader.Set / frame:hdrList":       "mw_C07: ResponseHeader.Set is `pure` for the C07 sweep; the list view hdrCnt/hdrVal (idempotency, session) is not maintained by it",
	"FRAME ResponseHeader.SetBytesV / frame:hdrList": "mw_C14: SetBytesV maintains outHdr only, not the list view hdrCnt/hdrVal of mw_C17",
	"FRAME ResponseHeader.Del / frame:outHdr":        "mw_C17: Del maintains hdrCnt/hdrVal only; outHdr/outHdrSet (mw_C14, a history ghost: what this activation wrote) keep a value that is no longer in the response",
	"FRAME ResponseHeader.Set / frame:outHdr":        "same",
	// response-header names as spelled (mw_C17.spec: canonicalisation not modelled - recorded in the C17 note)
	"ENSURES ResponseHeader.Add / other-names-kept": "hdrCnt/hdrVal are indexed by the name as spelled; another spelling of the same name sees the new value too",
	"ENSURES ResponseHeader.Del / other-names-kept": "same (another spelling of the deleted name loses its values too)",
}

func known(key string) (string, bool) {
	if strings.HasPrefix(key, "DOMAIN ") {
		return "dedicated header name: outside the domain of the generic header-line contracts (recorded assumption: callers pass other names)", true
	}
	why, ok := knownRemaining[key]
	return why, ok
}

func report(t *testing.T, fam string, res map[string]*finding) {
	t.Helper()
	keys := make([]string, 0, len(res))
	for k := range res {
		keys = append(keys, k)
	}
	sort.Strings(keys)
	for _, k := range keys {
		fd := res[k]
		rem := ""
		if specNew {
			if why, ok := known(k); ok {
				rem = "   [REMAINING, recorded: " + why + "]"
			}
		}
		msg := fmt.Sprintf("%s: %s   (%d sequences)%s", fam, k, fd.count, rem)
		for _, s := range fd.seqs {
			msg += "\n        e.g. " + s
		}
		if rem != "" {
			t.Log(msg)
		} else {
			t.Error("DISAGREEMENT " + msg)
		}
	}
}

// ------------------------------------------------------------------------------------------------
// helpers
// ------------------------------------------------------------------------------------------------

type vset map[string]bool

func toSet(xs []string) vset {
	s := vset{}
	for _, x := range xs {
		s[x] = true
	}
	return s
}

func sameSet(a, b vset) bool {
	if len(a) != len(b) {
		return false
	}
	for k := range a {
		if !b[k] {
			return false
		}
	}
	return true
}

func sameBag(a, b []string) bool {
	x, y := append([]string{}, a...), append([]string{}, b...)
	sort.Strings(x)
	sort.Strings(y)
	return sameList(x, y)
}

func sameList(a, b []string) bool {
	if len(a) != len(b) {
		return false
	}
	for i := range a {
		if a[i] != b[i] {
			return false
		}
	}
	return true
}

func fset(a vset) string {
	ks := make([]string, 0, len(a))
	for k := range a {
		ks = append(ks, k)
	}
	sort.Strings(ks)
	return "{" + strings.Join(ks, ",") + "}"
}

func strs(bs [][]byte) []string {
	out := make([]string, len(bs))
	for i, b := range bs {
		out[i] = string(b)
	}
	return out
}

// hnorm: fasthttp's header-name normalisation (mw_C18.spec keeps it uninterpreted; this is the reference).
func hnorm(k string) string {
	if strings.IndexByte(k, ' ') >= 0 {
		return k
	}
	b := []byte(strings.ToLower(k))
	up := true
	for i, c := range b {
		if up && c >= 'a' && c <= 'z' {
			b[i] = c - 32
		}
		up = c == '-'
	}
	return string(b)
}

// the names fasthttp keeps in dedicated fields of a REQUEST header (setSpecialHeader) and the names the client
// contracts keep in ghost views of their own (Referer is a generic line inside fasthttp).
var reqDedicated = map[string]bool{"User-Agent": true, "Host": true, "Content-Type": true, "Content-Length": true,
	"Cookie": true, "Connection": true, "Trailer": true, "Transfer-Encoding": true}

// names outside the domain of the generic request-header writers: the dedicated ones and Referer (a ghost view of its own)
var reqOwnGhost = map[string]bool{"User-Agent": true, "Host": true, "Content-Type": true, "Content-Length": true,
	"Cookie": true, "Connection": true, "Trailer": true, "Transfer-Encoding": true, "Referer": true}
var respDedicated = map[string]bool{"Content-Type": true, "Content-Length": true, "Content-Encoding": true, "Server": true,
	"Set-Cookie": true, "Connection": true, "Trailer": true, "Transfer-Encoding": true, "Date": true}

// opKey: the header name an operation "Op(name,...)" is applied to
func opKey(opName string) string {
	i := strings.IndexByte(opName, '(')
	if i < 0 {
		return ""
	}
	k := opName[i+1:]
	if j := strings.IndexAny(k, ",)"); j >= 0 {
		k = k[:j]
	}
	return hnorm(k)
}

// domain: in the default mode the contracts' DOMAIN excludes the names fasthttp keeps in dedicated fields; what the
// clauses would say there is reported under one heading (class DOMAIN) instead of clause by clause.
func domain(opName string, dedicated map[string]bool, vs []viol) []viol {
	if !specNew || !dedicated[opKey(opName)] || len(vs) == 0 {
		return vs
	}
	return []viol{{"DOMAIN", "dedicated header name", vs[0].class + " " + vs[0].clause + ": " + vs[0].detail}}
}

// wireLines parses "Name: value" lines of a serialised header block (first line skipped).
func wireLines(block []byte) map[string][]string {
	out := map[string][]string{}
	lines := strings.Split(string(block), "\r\n")
	for _, l := range lines[1:] {
		if l == "" {
			continue
		}
		i := strings.Index(l, ": ")
		if i < 0 {
			out[l] = append(out[l], "")
			continue
		}
		out[l[:i]] = append(out[l[:i]], l[i+2:])
	}
	return out
}

// ------------------------------------------------------------------------------------------------
// fasthttp.RequestHeader
//   rhLine[h][k][v]            a line "k: v" (k normalised) is held by the object           (mw_C18.spec)
//   rhUA/rhReferer/rhCType/rhBoundary                                                      (mw_C18.spec)
//   jarHas/jarVal[h][name]     request cookies                                             (mw_C20.spec)
//   rqHdrHas/rqHdrVal[h][key]  "is a header of that name present" / its value, key AS SPELLED (mw_C15.spec)
// ------------------------------------------------------------------------------------------------

type rhSys struct {
	h    fasthttp.RequestHeader
	keys []string // key spellings used by the family
}

type rhG struct {
	line                         map[string][]string // by normalised name
	ua, referer, ctype, boundary string
	jar                          map[string][]string
	has                          map[string]bool // by key spelling
	val                          map[string]string
	obsMismatch                  string
}

func (s *rhSys) abs() rhG {
	g := rhG{line: map[string][]string{}, jar: map[string][]string{}, has: map[string]bool{}, val: map[string]string{}}
	inK := map[string]bool{}
	for _, k := range s.keys {
		inK[hnorm(k)] = true
	}
	wire := wireLines(s.h.Header())
	for n, vs := range wire {
		if inK[n] || reqDedicated[n] || n == "Referer" {
			continue
		}
		g.line[n] = vs
	}
	for n := range inK {
		if specNew && n == "User-Agent" {
			continue // corrected contracts: a header named User-Agent is never a line, it lives in the field rhUA
		}
		vs := strs(s.h.PeekAll(n))
		if reqDedicated[n] { // PeekAll of a dedicated field yields one EMPTY value when the field is empty (Cookie, Content-Length)
			var ne []string
			for _, v := range vs {
				if v != "" {
					ne = append(ne, v)
				}
			}
			vs = ne
		}
		if len(vs) > 0 {
			g.line[n] = vs
		}
		if !reqDedicated[n] && !sameSet(toSet(vs), toSet(wire[n])) {
			g.obsMismatch = fmt.Sprintf("PeekAll(%s)=%v but wire has %v", n, vs, wire[n])
		}
	}
	g.ua = string(s.h.UserAgent())
	g.referer = string(s.h.Referer())
	g.ctype = string(s.h.ContentType())
	g.boundary = string(s.h.MultipartFormBoundary())
	s.h.VisitAllCookie(func(k, v []byte) { g.jar[string(k)] = append(g.jar[string(k)], string(v)) })
	for _, k := range s.keys {
		all := s.h.PeekAll(k)
		g.has[k] = len(all) > 0
		g.val[k] = string(s.h.Peek(k))
	}
	return g
}

// frame check: every component not named in mod must be unchanged.
func rhFrame(pre, post rhG, mod string) []viol {
	var vs []viol
	m := func(c string) bool { return strings.Contains(","+mod+",", ","+c+",") }
	if !m("line") {
		names := map[string]bool{}
		for n := range pre.line {
			names[n] = true
		}
		for n := range post.line {
			names[n] = true
		}
		for n := range names {
			if !sameSet(toSet(pre.line[n]), toSet(post.line[n])) {
				vs = append(vs, viol{"FRAME", "frame:rhLine", fmt.Sprintf("rhLine[%s] %s -> %s", n, fset(toSet(pre.line[n])), fset(toSet(post.line[n])))})
			}
		}
	}
	if !m("ua") && pre.ua != post.ua {
		vs = append(vs, viol{"FRAME", "frame:rhUA", fmt.Sprintf("rhUA %q -> %q", pre.ua, post.ua)})
	}
	if !m("referer") && pre.referer != post.referer {
		vs = append(vs, viol{"FRAME", "frame:rhReferer", fmt.Sprintf("rhReferer %q -> %q", pre.referer, post.referer)})
	}
	if !m("ctype") && pre.ctype != post.ctype {
		vs = append(vs, viol{"FRAME", "frame:rhCType", fmt.Sprintf("rhCType %q -> %q", pre.ctype, post.ctype)})
	}
	if !m("boundary") && pre.boundary != post.boundary {
		vs = append(vs, viol{"FRAME", "frame:rhBoundary", fmt.Sprintf("rhBoundary %q -> %q", pre.boundary, post.boundary)})
	}
	if !m("jar") {
		names := map[string]bool{}
		for n := range pre.jar {
			names[n] = true
		}
		for n := range post.jar {
			names[n] = true
		}
		for n := range names {
			if !sameList(pre.jar[n], post.jar[n]) {
				vs = append(vs, viol{"FRAME", "frame:jar", fmt.Sprintf("cookie %s %v -> %v", n, pre.jar[n], post.jar[n])})
			}
		}
	}
	if !m("rq") {
		for k := range pre.has {
			if pre.has[k] != post.has[k] || (pre.has[k] && pre.val[k] != post.val[k]) {
				vs = append(vs, viol{"FRAME", "frame:rqHdr", fmt.Sprintf("rqHdrHas/Val[%s] %v/%q -> %v/%q", k, pre.has[k], pre.val[k], post.has[k], post.val[k])})
			}
		}
	}
	return vs
}

// names other than n keep their lines
func rhOtherLinesKept(pre, post rhG, n string) []viol {
	var vs []viol
	names := map[string]bool{}
	for x := range pre.line {
		names[x] = true
	}
	for x := range post.line {
		names[x] = true
	}
	for x := range names {
		if x != n && !sameSet(toSet(pre.line[x]), toSet(post.line[x])) {
			vs = append(vs, viol{"ENSURES", "other-names-kept", fmt.Sprintf("rhLine[%s] %s -> %s", x, fset(toSet(pre.line[x])), fset(toSet(post.line[x])))})
		}
	}
	return vs
}

// jar model: single-valued map; a name held twice is not representable
func jarCheckSet(pre, post rhG, key, value string) []viol {
	var vs []viol
	if len(post.jar[key]) == 0 || post.jar[key][0] != value {
		vs = append(vs, viol{"ENSURES", "jarVal[key]==value", fmt.Sprintf("cookie %s = %v", key, post.jar[key])})
	}
	if len(post.jar[key]) > 1 {
		vs = append(vs, viol{"ENSURES", "jar-single-valued", fmt.Sprintf("cookie %s held %d times: %v", key, len(post.jar[key]), post.jar[key])})
	}
	for n := range pre.jar {
		if n != key && !sameList(pre.jar[n], post.jar[n]) {
			vs = append(vs, viol{"ENSURES", "other-cookies-kept", fmt.Sprintf("cookie %s %v -> %v", n, pre.jar[n], post.jar[n])})
		}
	}
	return vs
}

func rhOp(kind, name string, f func(s *rhSys, pre func() rhG) (rhG, rhG, []viol)) op {
	return op{kind: kind, name: name, run: func(sys any) []viol {
		s := sys.(*rhSys)
		pre, post, vs := f(s, s.abs)
		if pre.obsMismatch != "" || post.obsMismatch != "" {
			vs = append(vs, viol{"OBS", "wire-vs-PeekAll", pre.obsMismatch + post.obsMismatch})
		}
		if strings.HasPrefix(kind, "RequestHeader.Set") && kind != "RequestHeader.Set" && kind != "RequestHeader.SetBytesV" {
			// SetUserAgent, SetReferer, SetCookie...: the argument is not a header name. In the family that uses the
			// names User-Agent / Referer as generic keys, the line (and rqHdr) view of THAT name changes with the dedicated
			// ghost: one state seen through two views - reported under DOMAIN as well.
			if specNew {
				for i, v := range vs {
					if v.class == "FRAME" && (strings.Contains(v.detail, "[User-Agent]") || strings.Contains(v.detail, "[Referer]")) {
						vs[i] = viol{"DOMAIN", "dedicated header name", v.class + " " + v.clause + ": " + v.detail}
					}
				}
			}
			return vs
		}
		if opKey(name) == "User-Agent" {
			return vs // modelled by the corrected contracts (routed to rhUA)
		}
		return domain(name, reqOwnGhost, vs)
	}}
}

// the Set clauses (shared by RequestHeader.Set, SetBytesV (new) and Args.Set): old = "exactly one line afterwards",
// new = what setArg does: the FIRST stored entry of the name gets the value, or one is appended; the others stay.
func setClauses(pre, post []string, value string) []viol {
	var vs []viol
	p, q := toSet(pre), toSet(post)
	if !specNew {
		if !(len(q) == 1 && q[value]) {
			vs = append(vs, viol{"ENSURES", "only-this-value (forallS(v, line[k][v] == (v == value)))", fmt.Sprintf("before %v, after %v", pre, post)})
		}
		return vs
	}
	if !q[value] {
		vs = append(vs, viol{"ENSURES", "value-present", fmt.Sprintf("before %v, after %v", pre, post)})
	}
	for v := range q {
		if v != value && !p[v] {
			vs = append(vs, viol{"ENSURES", "nothing-else-added", fmt.Sprintf("before %v, after %v", pre, post)})
		}
	}
	if len(p) == 0 && !(len(q) == 1 && q[value]) {
		vs = append(vs, viol{"ENSURES", "none-before-exactly-one-after", fmt.Sprintf("before %v, after %v", pre, post)})
	}
	dropped := 0
	for v := range p {
		if !q[v] {
			dropped++
		}
	}
	if dropped > 1 {
		vs = append(vs, viol{"ENSURES", "at-most-one-value-replaced", fmt.Sprintf("before %v, after %v", pre, post)})
	}
	return vs
}

// corrected contracts: a generic writer called with a name that normalises to "User-Agent" writes the field rhUA
// (Del clears it) and leaves the lines alone.
func uaRouted(pre, post rhG, want, mod string) []viol {
	var vs []viol
	if post.ua != want {
		vs = append(vs, viol{"ENSURES", "user-agent-field", fmt.Sprintf("rhUA %q, want %q", post.ua, want)})
	}
	return append(vs, rhFrame(pre, post, mod)...)
}

func rhFamily(name string, keys []string, vals func(k, v string) string, maxLen int, withExtras bool) family {
	f := family{name: name, maxLen: maxLen, fresh: func() any { return &rhSys{keys: keys} }}
	V := []string{"a", "b"}
	domain := func(kind, k string) []viol {
		return []viol{{"DOMAIN", "dedicated header name", kind + "(" + k + "): fasthttp routes this name to a dedicated field"}}
	}
	_ = domain
	for _, k := range keys {
		k := k
		n := hnorm(k)
		for _, v0 := range V {
			v := vals(k, v0)
			f.ops = append(f.ops, rhOp("RequestHeader.Set", "Set("+k+","+v+")", func(s *rhSys, abs func() rhG) (rhG, rhG, []viol) {
				pre := abs()
				s.h.Set(k, v)
				post := abs()
				if specNew && n == "User-Agent" {
					return pre, post, uaRouted(pre, post, v, "ua,rq")
				}
				vs := setClauses(pre.line[n], post.line[n], v)
				vs = append(vs, rhOtherLinesKept(pre, post, n)...)
				vs = append(vs, rhFrame(pre, post, "line")...)
				return pre, post, vs
			}))
			for _, variant := range []string{"Add", "AddBytesKV"} {
				variant := variant
				f.ops = append(f.ops, rhOp("RequestHeader."+variant, variant+"("+k+","+v+")", func(s *rhSys, abs func() rhG) (rhG, rhG, []viol) {
					pre := abs()
					if variant == "Add" {
						s.h.Add(k, v)
					} else {
						s.h.AddBytesKV([]byte(k), []byte(v))
					}
					post := abs()
					if specNew && n == "User-Agent" {
						return pre, post, uaRouted(pre, post, v, "ua,rq")
					}
					var vs []viol
					want := toSet(pre.line[n])
					want[v] = true
					if !sameSet(want, toSet(post.line[n])) {
						vs = append(vs, viol{"ENSURES", "line-added-nothing-replaced", fmt.Sprintf("rhLine[%s] before %v, after %v", n, pre.line[n], post.line[n])})
					}
					vs = append(vs, rhOtherLinesKept(pre, post, n)...)
					vs = append(vs, rhFrame(pre, post, "line")...)
					return pre, post, vs
				}))
			}
			f.ops = append(f.ops, rhOp("RequestHeader.SetBytesV", "SetBytesV("+k+","+v+")", func(s *rhSys, abs func() rhG) (rhG, rhG, []viol) {
				pre := abs()
				s.h.SetBytesV(k, []byte(v))
				post := abs()
				if specNew && n == "User-Agent" {
					vs := uaRouted(pre, post, v, "ua,rq")
					if !post.has[k] || post.val[k] != v {
						vs = append(vs, viol{"ENSURES", "rqHdrHas[key] && rqHdrVal[key]==value", fmt.Sprintf("has=%v val=%q", post.has[k], post.val[k])})
					}
					return pre, post, vs
				}
				var vs []viol
				if !post.has[k] || post.val[k] != v {
					vs = append(vs, viol{"ENSURES", "rqHdrHas[key] && rqHdrVal[key]==value", fmt.Sprintf("has=%v val=%q", post.has[k], post.val[k])})
				}
				for _, o := range s.keys {
					if o != k && (pre.has[o] != post.has[o] || (pre.has[o] && pre.val[o] != post.val[o])) {
						if specNew && hnorm(o) == n {
							continue // corrected contract: only spellings of OTHER names are kept
						}
						vs = append(vs, viol{"ENSURES", "other-keys-kept (rqHdrHas == old[h][key := true])", fmt.Sprintf("rqHdrHas/Val[%s] %v/%q -> %v/%q", o, pre.has[o], pre.val[o], post.has[o], post.val[o])})
					}
				}
				if specNew {
					vs = append(vs, setClauses(pre.line[n], post.line[n], v)...)
					vs = append(vs, rhOtherLinesKept(pre, post, n)...)
					vs = append(vs, rhFrame(pre, post, "rq,line")...)
				} else {
					vs = append(vs, rhFrame(pre, post, "rq")...)
				}
				return pre, post, vs
			}))
		}
		f.ops = append(f.ops, rhOp("RequestHeader.Del", "Del("+k+")", func(s *rhSys, abs func() rhG) (rhG, rhG, []viol) {
			pre := abs()
			s.h.Del(k)
			post := abs()
			if specNew && n == "User-Agent" {
				vs := uaRouted(pre, post, "", "ua,rq")
				if post.has[k] {
					vs = append(vs, viol{"ENSURES", "rqHdrHas[key]==false", ""})
				}
				return pre, post, vs
			}
			var vs []viol
			if len(post.line[n]) != 0 {
				vs = append(vs, viol{"ENSURES", "no-line-of-that-name", fmt.Sprintf("rhLine[%s] = %v", n, post.line[n])})
			}
			vs = append(vs, rhOtherLinesKept(pre, post, n)...)
			if post.has[k] {
				vs = append(vs, viol{"ENSURES", "rqHdrHas[key]==false", ""})
			}
			if specNew {
				for _, o := range s.keys {
					if hnorm(o) == n && post.has[o] {
						vs = append(vs, viol{"ENSURES", "every-spelling-gone", o})
					}
				}
			}
			for _, o := range s.keys {
				if o != k && pre.has[o] != post.has[o] {
					if specNew && hnorm(o) == n {
						continue
					}
					vs = append(vs, viol{"ENSURES", "other-keys-kept (rqHdrHas == old[h][key := false])", fmt.Sprintf("rqHdrHas[%s] %v -> %v", o, pre.has[o], post.has[o])})
				}
			}
			vs = append(vs, rhFrame(pre, post, "rq,line")...)
			return pre, post, vs
		}))
	}
	for _, v := range V {
		v := v
		f.ops = append(f.ops, rhOp("RequestHeader.SetUserAgent", "SetUserAgent("+v+")", func(s *rhSys, abs func() rhG) (rhG, rhG, []viol) {
			pre := abs()
			s.h.SetUserAgent(v)
			post := abs()
			var vs []viol
			if post.ua != v {
				vs = append(vs, viol{"ENSURES", "rhUA==value", post.ua})
			}
			return pre, post, append(vs, rhFrame(pre, post, "ua")...)
		}))
		f.ops = append(f.ops, rhOp("RequestHeader.SetReferer", "SetReferer("+v+")", func(s *rhSys, abs func() rhG) (rhG, rhG, []viol) {
			pre := abs()
			s.h.SetReferer(v)
			post := abs()
			var vs []viol
			if post.referer != v {
				vs = append(vs, viol{"ENSURES", "rhReferer==value", post.referer})
			}
			return pre, post, append(vs, rhFrame(pre, post, "referer")...)
		}))
	}
	if !withExtras {
		return f
	}
	for _, c := range []string{"c1", "c2"} {
		c := c
		for _, v := range V {
			v := v
			for _, variant := range []string{"SetCookie", "SetCookieBytesKV"} {
				variant := variant
				f.ops = append(f.ops, rhOp("RequestHeader."+variant, variant+"("+c+","+v+")", func(s *rhSys, abs func() rhG) (rhG, rhG, []viol) {
					pre := abs()
					if variant == "SetCookie" {
						s.h.SetCookie(c, v)
					} else {
						s.h.SetCookieBytesKV([]byte(c), []byte(v))
					}
					post := abs()
					return pre, post, append(jarCheckSet(pre, post, c, v), rhFrame(pre, post, "jar")...)
				}))
			}
		}
		f.ops = append(f.ops, rhOp("RequestHeader.DelCookie", "DelCookie("+c+")", func(s *rhSys, abs func() rhG) (rhG, rhG, []viol) {
			pre := abs()
			s.h.DelCookie(c)
			post := abs()
			var vs []viol
			if len(post.jar[c]) != 0 {
				vs = append(vs, viol{"ENSURES", "jarHas[key]==false", fmt.Sprint(post.jar[c])})
			}
			for n := range pre.jar {
				if n != c && !sameList(pre.jar[n], post.jar[n]) {
					vs = append(vs, viol{"ENSURES", "other-cookies-kept", n})
				}
			}
			return pre, post, append(vs, rhFrame(pre, post, "jar")...)
		}))
	}
	f.ops = append(f.ops, rhOp("RequestHeader.DelAllCookies", "DelAllCookies()", func(s *rhSys, abs func() rhG) (rhG, rhG, []viol) {
		pre := abs()
		s.h.DelAllCookies()
		post := abs()
		var vs []viol
		if len(post.jar) != 0 {
			vs = append(vs, viol{"ENSURES", "no-cookie-left", fmt.Sprint(post.jar)})
		}
		return pre, post, append(vs, rhFrame(pre, post, "jar")...)
	}))
	for _, ct := range []string{"text/plain", "multipart/form-data"} {
		ct := ct
		f.ops = append(f.ops, rhOp("RequestHeader.SetContentType", "SetContentType("+ct+")", func(s *rhSys, abs func() rhG) (rhG, rhG, []viol) {
			pre := abs()
			s.h.SetContentType(ct)
			post := abs()
			var vs []viol
			if post.ctype != ct {
				vs = append(vs, viol{"ENSURES", "rhCType==value", post.ctype})
			}
			if specNew {
				// corrected: the boundary is a function of the content type (ctBoundary, uninterpreted): rhBoundary may change
				return pre, post, append(vs, rhFrame(pre, post, "ctype,boundary")...)
			}
			return pre, post, append(vs, rhFrame(pre, post, "ctype")...)
		}))
	}
	for _, b := range []string{"B1", "B2"} {
		b := b
		f.ops = append(f.ops, rhOp("RequestHeader.SetMultipartFormBoundary", "SetMultipartFormBoundary("+b+")", func(s *rhSys, abs func() rhG) (rhG, rhG, []viol) {
			pre := abs()
			s.h.SetMultipartFormBoundary(b)
			post := abs()
			var vs []viol
			if post.boundary != b {
				vs = append(vs, viol{"ENSURES", "rhBoundary==value", post.boundary})
			}
			if specNew {
				if post.ctype != "multipart/form-data; boundary="+b {
					vs = append(vs, viol{"ENSURES", "rhCType==multipart/form-data; boundary=<b>", post.ctype})
				}
				return pre, post, append(vs, rhFrame(pre, post, "ctype,boundary")...)
			}
			return pre, post, append(vs, rhFrame(pre, post, "boundary")...)
		}))
	}
	return f
}

func TestConformanceRequestHeader(t *testing.T) {
	id := func(_, v string) string { return v }
	report(t, "RequestHeader", explore(t, rhFamily("RequestHeader generic names", []string{"X-A", "X-B"}, id, 4, true)))
}

// one name under two spellings: the header-side ghosts are indexed by hnorm(key), the server-side ones by the key as spelled
func TestConformanceRequestHeaderSpelling(t *testing.T) {
	id := func(_, v string) string { return v }
	report(t, "RequestHeader/spelling", explore(t, rhFamily("RequestHeader two spellings of one name", []string{"X-A", "x-a"}, id, 3, false)))
}

// the names fasthttp keeps in dedicated fields, and Referer (a ghost view of its own in mw_C18.spec, a generic line in fasthttp)
func TestConformanceRequestHeaderDedicatedNames(t *testing.T) {
	vals := func(k, v string) string {
		if k == "Cookie" {
			return "c1=" + v
		}
		return v
	}
	res := explore(t, rhFamily("RequestHeader dedicated names", []string{"User-Agent", "Cookie", "Referer", "Content-Type"}, vals, 3, false))
	report(t, "RequestHeader/dedicated", res)
}

// ------------------------------------------------------------------------------------------------
// fasthttp.Args    argHas[a][k][v]: the pair k=v is present (mw_C18.spec)
// ------------------------------------------------------------------------------------------------

type argSys struct{ a fasthttp.Args }

func (s *argSys) abs() (map[string][]string, string) {
	g := map[string][]string{}
	s.a.VisitAll(func(k, v []byte) { g[string(k)] = append(g[string(k)], string(v)) })
	// cross-check with the wire form
	w := map[string][]string{}
	if qs := string(s.a.QueryString()); qs != "" {
		for _, p := range strings.Split(qs, "&") {
			kv := strings.SplitN(p, "=", 2)
			if len(kv) == 1 {
				kv = append(kv, "")
			}
			w[kv[0]] = append(w[kv[0]], kv[1])
		}
	}
	mis := ""
	for k := range g {
		if !sameList(g[k], w[k]) {
			mis = fmt.Sprintf("VisitAll %v, query string %v", g, w)
		}
	}
	return g, mis
}

func argOthersKept(pre, post map[string][]string, k string) []viol {
	var vs []viol
	names := map[string]bool{}
	for x := range pre {
		names[x] = true
	}
	for x := range post {
		names[x] = true
	}
	for x := range names {
		if x != k && !sameSet(toSet(pre[x]), toSet(post[x])) {
			vs = append(vs, viol{"ENSURES", "other-keys-kept", fmt.Sprintf("argHas[%s] %v -> %v", x, pre[x], post[x])})
		}
	}
	return vs
}

func TestConformanceArgs(t *testing.T) {
	f := family{name: "Args", maxLen: 4, fresh: func() any { return &argSys{} }}
	mk := func(kind, name string, do func(a *fasthttp.Args), check func(pre, post map[string][]string) []viol) {
		f.ops = append(f.ops, op{kind: kind, name: name, run: func(sys any) []viol {
			s := sys.(*argSys)
			pre, m1 := s.abs()
			do(&s.a)
			post, m2 := s.abs()
			vs := check(pre, post)
			if m1+m2 != "" {
				vs = append(vs, viol{"OBS", "VisitAll-vs-QueryString", m1 + m2})
			}
			return vs
		}})
	}
	for _, k := range []string{"k1", "k2"} {
		k := k
		for _, v := range []string{"a", "b"} {
			v := v
			add := func(pre, post map[string][]string) []viol {
				want := toSet(pre[k])
				want[v] = true
				var vs []viol
				if !sameSet(want, toSet(post[k])) {
					vs = append(vs, viol{"ENSURES", "pair-added-nothing-replaced", fmt.Sprintf("%v -> %v", pre[k], post[k])})
				}
				return append(vs, argOthersKept(pre, post, k)...)
			}
			mk("Args.Add", "Add("+k+","+v+")", func(a *fasthttp.Args) { a.Add(k, v) }, add)
			mk("Args.AddBytesKV", "AddBytesKV("+k+","+v+")", func(a *fasthttp.Args) { a.AddBytesKV([]byte(k), []byte(v)) }, add)
			mk("Args.Set", "Set("+k+","+v+")", func(a *fasthttp.Args) { a.Set(k, v) }, func(pre, post map[string][]string) []viol {
				return append(setClauses(pre[k], post[k], v), argOthersKept(pre, post, k)...)
			})
		}
		mk("Args.Del", "Del("+k+")", func(a *fasthttp.Args) { a.Del(k) }, func(pre, post map[string][]string) []viol {
			var vs []viol
			if len(post[k]) != 0 {
				vs = append(vs, viol{"ENSURES", "no-pair-of-that-key", fmt.Sprint(post[k])})
			}
			return append(vs, argOthersKept(pre, post, k)...)
		})
	}
	mk("Args.Reset", "Reset()", func(a *fasthttp.Args) { a.Reset() }, func(pre, post map[string][]string) []viol {
		if len(post) != 0 {
			return []viol{{"ENSURES", "empty", fmt.Sprint(post)}}
		}
		return nil
	})
	report(t, "Args", explore(t, f))
}

// ------------------------------------------------------------------------------------------------
// fasthttp.Cookie objects and the cookie pool
//   ckKey, ckVal, jcPath, jcExp, ckAttr (domain, max-age, secure, http-only, same-site, partitioned), ckSrc (history)
// ------------------------------------------------------------------------------------------------

type ckG struct {
	key, val, path, domain string
	exp                    time.Time
	maxAge                 int
	secure, httpOnly, part bool
	sameSite               fasthttp.CookieSameSite
}

func ckAbs(c *fasthttp.Cookie) ckG {
	return ckG{key: string(c.Key()), val: string(c.Value()), path: string(c.Path()), domain: string(c.Domain()), exp: c.Expire(),
		maxAge: c.MaxAge(), secure: c.Secure(), httpOnly: c.HTTPOnly(), part: c.Partitioned(), sameSite: c.SameSite()}
}

func (g ckG) attr() string {
	return fmt.Sprintf("domain=%q maxAge=%d secure=%v httpOnly=%v sameSite=%d partitioned=%v", g.domain, g.maxAge, g.secure, g.httpOnly, g.sameSite, g.part)
}

type ckSys struct{ c [2]*fasthttp.Cookie }

// diffCk lists the ghost components in which two cookie states differ
func diffCk(a, b ckG) []string {
	var d []string
	if a.key != b.key {
		d = append(d, "ckKey")
	}
	if a.val != b.val {
		d = append(d, "ckVal")
	}
	if a.path != b.path {
		d = append(d, "jcPath")
	}
	if !a.exp.Equal(b.exp) {
		d = append(d, "jcExp")
	}
	if a.attr() != b.attr() {
		d = append(d, "ckAttr")
	}
	return d
}

func TestConformanceCookie(t *testing.T) {
	f := family{name: "Cookie", maxLen: 4, fresh: func() any {
		return &ckSys{c: [2]*fasthttp.Cookie{{}, {}}}
	}}
	// mk: operation on cookie i; mod = ghost components the contract lets change ON THAT COOKIE; the other cookie must not change at all
	mk := func(kind, name string, i int, mod string, do func(s *ckSys), ens func(pre, post [2]ckG) []viol) {
		f.ops = append(f.ops, op{kind: kind, name: name, run: func(sys any) []viol {
			s := sys.(*ckSys)
			pre := [2]ckG{ckAbs(s.c[0]), ckAbs(s.c[1])}
			do(s)
			post := [2]ckG{ckAbs(s.c[0]), ckAbs(s.c[1])}
			vs := ens(pre, post)
			for _, comp := range diffCk(pre[i], post[i]) {
				if !strings.Contains(","+mod+",", ","+comp+",") {
					vs = append(vs, viol{"FRAME", "frame:" + comp, fmt.Sprintf("cookie %d: %+v -> %+v", i, pre[i], post[i])})
				}
			}
			for _, comp := range diffCk(pre[1-i], post[1-i]) {
				vs = append(vs, viol{"FRAME", "frame:other-cookie:" + comp, fmt.Sprintf("cookie %d changed", 1-i)})
			}
			return vs
		}})
	}
	expT := time.Date(2031, 1, 2, 3, 4, 5, 0, time.UTC)
	for i := 0; i < 2; i++ {
		i := i
		ci := fmt.Sprintf("c%d", i)
		for _, k := range []string{"k1", "k2"} {
			k := k
			mk("Cookie.SetKey", ci+".SetKey("+k+")", i, "ckKey", func(s *ckSys) { s.c[i].SetKey(k) }, func(_, post [2]ckG) []viol {
				if post[i].key != k {
					return []viol{{"ENSURES", "ckKey==key", post[i].key}}
				}
				return nil
			})
		}
		for _, v := range []string{"a", "b"} {
			v := v
			mk("Cookie.SetValue", ci+".SetValue("+v+")", i, "ckVal", func(s *ckSys) { s.c[i].SetValue(v) }, func(_, post [2]ckG) []viol {
				if post[i].val != v {
					return []viol{{"ENSURES", "ckVal==value", post[i].val}}
				}
				return nil
			})
		}
		mk("Cookie.SetKeyBytes", ci+".SetKeyBytes(k1)", i, "ckKey", func(s *ckSys) { s.c[i].SetKeyBytes([]byte("k1")) }, func(_, post [2]ckG) []viol {
			if post[i].key != "k1" {
				return []viol{{"ENSURES", "ckKey==key", post[i].key}}
			}
			return nil
		})
		mk("Cookie.SetValueBytes", ci+".SetValueBytes(a)", i, "ckVal", func(s *ckSys) { s.c[i].SetValueBytes([]byte("a")) }, func(_, post [2]ckG) []viol {
			if post[i].val != "a" {
				return []viol{{"ENSURES", "ckVal==value", post[i].val}}
			}
			return nil
		})
		mk("Cookie.SetPath", ci+".SetPath(/p)", i, "jcPath", func(s *ckSys) { s.c[i].SetPath("/p") }, func(_, post [2]ckG) []viol {
			if post[i].path != "/p" {
				return []viol{{"ENSURES", "jcPath==path", post[i].path}}
			}
			return nil
		})
		mk("Cookie.SetExpire", ci+".SetExpire(T)", i, "jcExp", func(s *ckSys) { s.c[i].SetExpire(expT) }, func(_, post [2]ckG) []viol {
			if !post[i].exp.Equal(expT) {
				return []viol{{"ENSURES", "jcExp==expire", post[i].exp.String()}}
			}
			return nil
		})
		// attribute setters: own component set, the other components of the record kept
		attrSetter := func(kind, name string, do func(c *fasthttp.Cookie), want func(pre ckG) ckG) {
			mk(kind, ci+"."+name, i, "ckAttr", func(s *ckSys) { do(s.c[i]) }, func(pre, post [2]ckG) []viol {
				w := want(pre[i])
				if w.attr() != post[i].attr() {
					return []viol{{"ENSURES", "own-component-set-the-rest-kept", fmt.Sprintf("want %s, got %s", w.attr(), post[i].attr())}}
				}
				return nil
			})
		}
		attrSetter("Cookie.SetDomain", "SetDomain(d)", func(c *fasthttp.Cookie) { c.SetDomain("d") }, func(g ckG) ckG { g.domain = "d"; return g })
		attrSetter("Cookie.SetMaxAge", "SetMaxAge(5)", func(c *fasthttp.Cookie) { c.SetMaxAge(5) }, func(g ckG) ckG { g.maxAge = 5; return g })
		attrSetter("Cookie.SetSecure", "SetSecure(true)", func(c *fasthttp.Cookie) { c.SetSecure(true) }, func(g ckG) ckG { g.secure = true; return g })
		attrSetter("Cookie.SetHTTPOnly", "SetHTTPOnly(true)", func(c *fasthttp.Cookie) { c.SetHTTPOnly(true) }, func(g ckG) ckG { g.httpOnly = true; return g })
		if !specNew {
			attrSetter("Cookie.SetPartitioned", "SetPartitioned(true)", func(c *fasthttp.Cookie) { c.SetPartitioned(true) }, func(g ckG) ckG { g.part = true; return g })
		} else {
			// corrected: also Secure, and the path becomes "/"
			mk("Cookie.SetPartitioned", ci+".SetPartitioned(true)", i, "ckAttr,jcPath", func(s *ckSys) { s.c[i].SetPartitioned(true) }, func(pre, post [2]ckG) []viol {
				w := pre[i]
				w.part, w.secure = true, true
				if w.attr() != post[i].attr() || post[i].path != "/" {
					return []viol{{"ENSURES", "partitioned-secure-root-path-the-rest-kept", fmt.Sprintf("want %s path /, got %s path %s", w.attr(), post[i].attr(), post[i].path)}}
				}
				return nil
			})
		}
		attrSetter("Cookie.SetPartitioned", "SetPartitioned(false)", func(c *fasthttp.Cookie) { c.SetPartitioned(false) }, func(g ckG) ckG { g.part = false; return g })
		attrSetter("Cookie.SetSameSite", "SetSameSite(None)", func(c *fasthttp.Cookie) { c.SetSameSite(fasthttp.CookieSameSiteNoneMode) }, func(g ckG) ckG {
			g.sameSite = fasthttp.CookieSameSiteNoneMode
			g.secure = true // none-implies-secure
			return g
		})
		attrSetter("Cookie.SetSameSite", "SetSameSite(Lax)", func(c *fasthttp.Cookie) { c.SetSameSite(fasthttp.CookieSameSiteLaxMode) }, func(g ckG) ckG {
			g.sameSite = fasthttp.CookieSameSiteLaxMode
			return g
		})
		// c.CopyTo(src) copies src INTO c
		copyMod := "ckKey,ckVal,jcPath,jcExp"
		if specNew {
			copyMod += ",ckAttr"
		}
		mk("Cookie.CopyTo", fmt.Sprintf("c%d.CopyTo(c%d)", i, 1-i), i, copyMod, func(s *ckSys) { s.c[i].CopyTo(s.c[1-i]) }, func(pre, post [2]ckG) []viol {
			var vs []viol
			src := pre[1-i]
			if post[i].key != src.key || post[i].val != src.val || post[i].path != src.path || !post[i].exp.Equal(src.exp) {
				vs = append(vs, viol{"ENSURES", "key-value-path-expiry-of-src", fmt.Sprintf("%+v vs %+v", post[i], src)})
			}
			if specNew && post[i].attr() != src.attr() {
				vs = append(vs, viol{"ENSURES", "attributes-of-src", post[i].attr() + " vs " + src.attr()})
			}
			return vs
		})
		// ParseBytes: key, value, path, expiry (new: and the attribute record) are functions of the text alone
		for _, text := range []string{"k1=a; Path=/q; Secure; Domain=dd", "k2=b"} {
			text := text
			parseMod := "ckKey,ckVal,jcPath,jcExp"
			if specNew {
				parseMod += ",ckAttr"
			}
			mk("Cookie.ParseBytes", ci+".ParseBytes("+text+")", i, parseMod, func(s *ckSys) { _ = s.c[i].ParseBytes([]byte(text)) }, func(_, post [2]ckG) []viol {
				var ref fasthttp.Cookie
				_ = ref.ParseBytes([]byte(text))
				r := ckAbs(&ref)
				var vs []viol
				if post[i].key != r.key || post[i].val != r.val || post[i].path != r.path || !post[i].exp.Equal(r.exp) {
					vs = append(vs, viol{"ENSURES", "function-of-the-text", fmt.Sprintf("%+v vs %+v", post[i], r)})
				}
				if specNew && post[i].attr() != r.attr() {
					vs = append(vs, viol{"ENSURES", "attributes-function-of-the-text", post[i].attr() + " vs " + r.attr()})
				}
				return vs
			})
		}
		// the pool: ReleaseCookie resets the object; AcquireCookie hands out an object in the reset state
		mk("ReleaseCookie+AcquireCookie", ci+"=Release;Acquire", i, "ckKey,ckVal,jcPath,jcExp,ckAttr", func(s *ckSys) {
			fasthttp.ReleaseCookie(s.c[i])
			s.c[i] = fasthttp.AcquireCookie()
		}, func(_, post [2]ckG) []viol {
			var zero fasthttp.Cookie
			if d := diffCk(post[i], ckAbs(&zero)); len(d) > 0 {
				return []viol{{"ENSURES", "acquired-cookie-is-reset", strings.Join(d, ",")}}
			}
			if !post[i].exp.Equal(fasthttp.CookieExpireUnlimited) {
				return []viol{{"ENSURES", "tUnlimited(jcExp)", post[i].exp.String()}}
			}
			return nil
		})
	}
	report(t, "Cookie", explore(t, f))
}

// ------------------------------------------------------------------------------------------------
// fasthttp.ResponseHeader
//   hdrCnt[name], hdrVal[name][i]   list of values per name, name AS SPELLED     (mw_C17.spec: Add, Del)
//   outHdr/outHdrSet[name]          value last written by SetBytesV (history)   (mw_C14.spec)
//   jarHas/jarVal/jarAttr[h][name]  response cookies                            (mw_C20.spec, mw_C12.spec, mw_C15.spec)
//   Set is `assumed pure` (mw_C07.spec)
// ------------------------------------------------------------------------------------------------

type rsSys struct {
	h      fasthttp.ResponseHeader
	keys   []string
	ck     *fasthttp.Cookie  // a cookie object the caller owns (for Cookie(c))
	outSet map[string]bool   // history ghosts
	outVal map[string]string //
}

type rsG struct {
	list map[string][]string // by key spelling: PeekAll
	jar  map[string][]string // cookie name -> stored Set-Cookie lines
	ck   ckG
}

func (s *rsSys) abs() rsG {
	g := rsG{list: map[string][]string{}, jar: map[string][]string{}, ck: ckAbs(s.ck)}
	for _, k := range s.keys {
		g.list[k] = strs(s.h.PeekAll(k))
	}
	s.h.VisitAllCookie(func(k, v []byte) { g.jar[string(k)] = append(g.jar[string(k)], string(v)) })
	return g
}

func parseLine(line string) ckG {
	var c fasthttp.Cookie
	_ = c.ParseBytes([]byte(line))
	return ckAbs(&c)
}

func rsFrame(s *rsSys, pre, post rsG, mod string) []viol {
	var vs []viol
	m := func(c string) bool { return strings.Contains(","+mod+",", ","+c+",") }
	if !m("list") {
		for _, k := range s.keys {
			if !sameList(pre.list[k], post.list[k]) {
				vs = append(vs, viol{"FRAME", "frame:hdrList", fmt.Sprintf("hdrCnt/hdrVal[%s] %v -> %v", k, pre.list[k], post.list[k])})
			}
		}
	}
	if !m("jar") {
		names := map[string]bool{}
		for n := range pre.jar {
			names[n] = true
		}
		for n := range post.jar {
			names[n] = true
		}
		for n := range names {
			if !sameList(pre.jar[n], post.jar[n]) {
				vs = append(vs, viol{"FRAME", "frame:jar", fmt.Sprintf("cookie %s %v -> %v", n, pre.jar[n], post.jar[n])})
			}
		}
	}
	for _, comp := range diffCk(pre.ck, post.ck) {
		if !m(comp) {
			vs = append(vs, viol{"FRAME", "frame:" + comp, fmt.Sprintf("caller's cookie object: %+v -> %+v", pre.ck, post.ck)})
		}
	}
	if !m("out") {
		// representation invariant of the history ghost: outHdrSet[k] ==> the response carries k with that value
		// (an operation is blamed only if the invariant held before it)
		for k, set := range s.outSet {
			if set && len(pre.list[k]) > 0 && pre.list[k][0] == s.outVal[k] && string(s.h.Peek(k)) != s.outVal[k] {
				vs = append(vs, viol{"FRAME", "frame:outHdr", fmt.Sprintf("outHdrSet[%s] with value %q, but the response now has %v", k, s.outVal[k], post.list[k])})
			}
		}
	}
	return vs
}

func rsFamily(name string, keys []string, maxLen int, withCookies bool) family {
	f := family{name: name, maxLen: maxLen, fresh: func() any {
		c := &fasthttp.Cookie{}
		c.SetPath("/old")
		c.SetDomain("old.example")
		return &rsSys{keys: keys, ck: c, outSet: map[string]bool{}, outVal: map[string]string{}}
	}}
	mk := func(kind, name string, do func(s *rsSys) any, check func(s *rsSys, pre, post rsG, ret any) []viol) {
		f.ops = append(f.ops, op{kind: kind, name: name, run: func(sys any) []viol {
			s := sys.(*rsSys)
			pre := s.abs()
			ret := do(s)
			post := s.abs()
			vs := check(s, pre, post, ret)
			switch kind {
			case "ResponseHeader.Add", "ResponseHeader.Set", "ResponseHeader.SetBytesV", "ResponseHeader.Del":
				return domain(name, respDedicated, vs)
			}
			return vs
		}})
	}
	othersKept := func(s *rsSys, pre, post rsG, k string, bagOnly bool) []viol {
		var vs []viol
		for _, o := range s.keys {
			if o != k && !sameList(pre.list[o], post.list[o]) {
				if specNew && bagOnly && hnorm(o) != hnorm(k) && sameBag(pre.list[o], post.list[o]) {
					continue // corrected Del: the other names keep their values as a multiset, the order may change
				}
				vs = append(vs, viol{"ENSURES", "other-names-kept", fmt.Sprintf("hdrCnt/hdrVal[%s] %v -> %v", o, pre.list[o], post.list[o])})
			}
		}
		return vs
	}
	for _, k := range keys {
		k := k
		for _, v := range []string{"a", "b"} {
			v := v
			mk("ResponseHeader.Add", "Add("+k+","+v+")", func(s *rsSys) any { s.h.Add(k, v); return nil }, func(s *rsSys, pre, post rsG, _ any) []viol {
				var vs []viol
				if !sameList(append(append([]string{}, pre.list[k]...), v), post.list[k]) {
					vs = append(vs, viol{"ENSURES", "appended (hdrCnt+1, hdrVal[old count]==value)", fmt.Sprintf("%v -> %v", pre.list[k], post.list[k])})
				}
				vs = append(vs, othersKept(s, pre, post, k, false)...)
				return append(vs, rsFrame(s, pre, post, "list")...)
			})
			mk("ResponseHeader.Set", "Set("+k+","+v+")", func(s *rsSys) any { s.h.Set(k, v); return nil }, func(s *rsSys, pre, post rsG, _ any) []viol {
				return rsFrame(s, pre, post, "") // assumed pure
			})
			mk("ResponseHeader.SetBytesV", "SetBytesV("+k+","+v+")", func(s *rsSys) any {
				s.h.SetBytesV(k, []byte(v))
				s.outSet[k], s.outVal[k] = true, v
				return nil
			}, func(s *rsSys, pre, post rsG, _ any) []viol {
				var vs []viol
				if string(s.h.Peek(k)) != v {
					vs = append(vs, viol{"ENSURES", "outHdr[key]==cid(value) means: the response carries key with that value", fmt.Sprint(post.list[k])})
				}
				return append(vs, rsFrame(s, pre, post, "out")...)
			})
		}
		mk("ResponseHeader.Del", "Del("+k+")", func(s *rsSys) any { s.h.Del(k); return nil }, func(s *rsSys, pre, post rsG, _ any) []viol {
			var vs []viol
			if len(post.list[k]) != 0 {
				vs = append(vs, viol{"ENSURES", "hdrCnt[key]==0", fmt.Sprint(post.list[k])})
			}
			vs = append(vs, othersKept(s, pre, post, k, true)...)
			return append(vs, rsFrame(s, pre, post, "list")...)
		})
	}
	if !withCookies {
		return f
	}
	for _, c := range []string{"c1", "c2"} {
		c := c
		for _, v := range []string{"a", "b"} {
			v := v
			mk("ResponseHeader.SetCookie", "SetCookie("+c+"="+v+"; Path=/p; Secure)", func(s *rsSys) any {
				var ck fasthttp.Cookie
				ck.SetKey(c)
				ck.SetValue(v)
				ck.SetPath("/p")
				ck.SetSecure(true)
				s.h.SetCookie(&ck)
				return ckAbs(&ck)
			}, func(s *rsSys, pre, post rsG, ret any) []viol {
				var vs []viol
				want := ret.(ckG)
				if len(post.jar[c]) != 1 {
					vs = append(vs, viol{"ENSURES", "jar-single-valued", fmt.Sprint(post.jar[c])})
				}
				if len(post.jar[c]) == 0 {
					return append(vs, viol{"ENSURES", "jarHas[key]", ""})
				}
				got := parseLine(post.jar[c][0])
				if got.val != v {
					vs = append(vs, viol{"ENSURES", "jarVal[key]==ckVal[cookie]", got.val})
				}
				if got.attr() != want.attr() || got.path != want.path {
					vs = append(vs, viol{"ENSURES", "jarAttr[key]==ckAttr[cookie]", got.attr()})
				}
				for n := range pre.jar {
					if n != c && !sameList(pre.jar[n], post.jar[n]) {
						vs = append(vs, viol{"ENSURES", "other-cookies-kept", n})
					}
				}
				return append(vs, rsFrame(s, pre, post, "jar")...)
			})
		}
		mk("ResponseHeader.DelClientCookie", "DelClientCookie("+c+")", func(s *rsSys) any { s.h.DelClientCookie(c); return nil }, func(s *rsSys, pre, post rsG, _ any) []viol {
			var vs []viol
			if len(post.jar[c]) != 1 {
				return []viol{{"ENSURES", "jarHas[key] (once)", fmt.Sprint(post.jar[c])}}
			}
			got := parseLine(post.jar[c][0])
			if got.val != "" {
				vs = append(vs, viol{"ENSURES", "jarVal[key]==\"\"", got.val})
			}
			if !got.exp.Before(time.Now()) {
				vs = append(vs, viol{"ENSURES", "attrExpired(jarAttr[key])", got.exp.String()})
			}
			for n := range pre.jar {
				if n != c && !sameList(pre.jar[n], post.jar[n]) {
					vs = append(vs, viol{"ENSURES", "other-cookies-kept", n})
				}
			}
			return append(vs, rsFrame(s, pre, post, "jar")...)
		})
		mk("ResponseHeader.DelCookie", "DelCookie("+c+")", func(s *rsSys) any { s.h.DelCookie(c); return nil }, func(s *rsSys, pre, post rsG, _ any) []viol {
			var vs []viol
			if len(post.jar[c]) != 0 {
				vs = append(vs, viol{"ENSURES", "jarHas[key]==false", fmt.Sprint(post.jar[c])})
			}
			for n := range pre.jar {
				if n != c && !sameList(pre.jar[n], post.jar[n]) {
					vs = append(vs, viol{"ENSURES", "other-cookies-kept", n})
				}
			}
			return append(vs, rsFrame(s, pre, post, "jar")...)
		})
		// Cookie(ck): looks the response cookie named ckKey[ck] up and parses the stored line into ck
		mk("ResponseHeader.Cookie", "ck.SetKey("+c+"); Cookie(ck)", func(s *rsSys) any {
			s.ck.SetKey(c)
			return nil
		}, func(s *rsSys, _, _ rsG, _ any) []viol {
			pre := s.abs()
			ok := s.h.Cookie(s.ck)
			post := s.abs()
			var vs []viol
			if ok != (len(pre.jar[c]) > 0) {
				vs = append(vs, viol{"ENSURES", "result==jarHas[h][ckKey[cookie]]", fmt.Sprint(ok)})
			}
			if ok {
				want := parseLine(pre.jar[c][0])
				if post.ck.val != want.val || post.ck.attr() != want.attr() {
					vs = append(vs, viol{"ENSURES", "value-and-attributes-of-the-stored-cookie", fmt.Sprintf("%+v vs %+v", post.ck, want)})
				}
				if specNew && (post.ck.path != want.path || !post.ck.exp.Equal(want.exp)) {
					vs = append(vs, viol{"ENSURES", "path-and-expiry-of-the-stored-cookie", fmt.Sprintf("%+v vs %+v", post.ck, want)})
				}
			}
			mod := "ckVal,ckAttr"
			if specNew {
				mod = "ckVal,ckAttr,jcPath,jcExp"
				if !ok && len(diffCk(pre.ck, post.ck)) > 0 {
					vs = append(vs, viol{"ENSURES", "not-found-untouched", fmt.Sprintf("%+v -> %+v", pre.ck, post.ck)})
				}
			}
			return append(vs, rsFrame(s, pre, post, mod)...)
		})
	}
	return f
}

func TestConformanceResponseHeader(t *testing.T) {
	report(t, "ResponseHeader", explore(t, rsFamily("ResponseHeader generic names", []string{"X-A", "X-B"}, 4, true)))
}

func TestConformanceResponseHeaderSpelling(t *testing.T) {
	report(t, "ResponseHeader/spelling", explore(t, rsFamily("ResponseHeader two spellings of one name", []string{"X-A", "x-a"}, 3, false)))
}

func TestConformanceResponseHeaderDedicatedNames(t *testing.T) {
	report(t, "ResponseHeader/dedicated", explore(t, rsFamily("ResponseHeader dedicated names", []string{"Content-Type", "Server", "Set-Cookie"}, 3, false)))
}

var _ = bytes.Equal
