package main

// SMT layer: fixed prelude (string theory as uninterpreted sort with axioms, slice datatype),
// solver portfolio (z3-new, cvc5, z3) and result parsing.

import (
	"bytes"
	"context"
	"fmt"
	"os"
	"os/exec"
	"path/filepath"
	"strings"
	"sync"
	"time"
)

const prelude = `(set-logic ALL)
(declare-sort Str 0)
(declare-fun len (Str) Int)
(declare-fun at (Str Int) Int)
(declare-fun sub (Str Int Int) Str)
(declare-fun cat (Str Str) Str)
(declare-fun seq (Str Str) Bool)
(declare-fun lower (Str) Str)
(declare-fun lowerb (Int) Int)
(declare-const emptystr Str)
(assert (= (len emptystr) 0))
(assert (forall ((s Str)) (! (>= (len s) 0) :pattern ((len s)))))
(assert (forall ((s Str) (i Int)) (! (and (<= 0 (at s i)) (< (at s i) 256)) :pattern ((at s i)))))
(assert (forall ((s Str) (a Int) (b Int)) (! (=> (and (<= 0 a) (<= a b) (<= b (len s))) (= (len (sub s a b)) (- b a))) :pattern ((sub s a b)))))
(assert (forall ((s Str) (a Int) (b Int) (i Int)) (! (=> (and (<= 0 a) (<= a b) (<= b (len s)) (<= 0 i) (< i (- b a))) (= (at (sub s a b) i) (at s (+ a i)))) :pattern ((at (sub s a b) i)))))
(assert (forall ((s Str) (a Int) (b Int) (i Int)) (! (=> (and (<= 0 a) (<= a i) (< i b) (<= b (len s))) (= (at (sub s a b) (- i a)) (at s i))) :pattern ((sub s a b) (at s i)))))
(assert (forall ((x Str) (y Str)) (! (= (len (cat x y)) (+ (len x) (len y))) :pattern ((cat x y)))))
(assert (forall ((x Str) (y Str) (i Int)) (! (=> (and (<= 0 i) (< i (+ (len x) (len y)))) (= (at (cat x y) i) (ite (< i (len x)) (at x i) (at y (- i (len x)))))) :pattern ((at (cat x y) i)))))
(assert (forall ((x Str) (y Str)) (! (= (seq x y) (= x y)) :pattern ((seq x y)))))
(assert (forall ((x Str) (y Str)) (! (=> (and (= (len x) (len y)) (forall ((i Int)) (=> (and (<= 0 i) (< i (len x))) (= (at x i) (at y i))))) (= x y)) :pattern ((seq x y)))))
(assert (forall ((s Str)) (! (= (len (lower s)) (len s)) :pattern ((lower s)))))
(assert (forall ((s Str) (i Int)) (! (=> (and (<= 0 i) (< i (len s))) (= (at (lower s) i) (lowerb (at s i)))) :pattern ((at (lower s) i)))))
(assert (forall ((b Int)) (! (= (lowerb b) (ite (and (<= 65 b) (<= b 90)) (+ b 32) b)) :pattern ((lowerb b)))))
(declare-datatypes ((Slc 0)) (((mkslc (sarr Int) (soff Int) (slen Int) (scap Int)))))
(define-fun nilslc () Slc (mkslc 0 0 0 0))
(declare-fun idx (Slc Int) Int)
(assert (forall ((s Slc) (i Int)) (! (= (idx s i) (+ (soff s) i)) :pattern ((idx s i)))))
(declare-fun subtag (Int) Int)
(declare-fun rootof (Int) Int)
(declare-fun elemref (Int Int) Int)
(declare-fun er_arr (Int) Int)
(declare-fun er_idx (Int) Int)
(assert (forall ((a Int) (i Int)) (! (and (= (er_arr (elemref a i)) a) (= (er_idx (elemref a i)) i) (not (= (elemref a i) 0)) (= (subtag (elemref a i)) (- 1)) (= (rootof (elemref a i)) (rootof a))) :pattern ((elemref a i)))))
(declare-fun b2s ((Array Int Int) Int Int) Str)
(assert (forall ((m (Array Int Int)) (o Int) (n Int)) (! (=> (>= n 0) (= (len (b2s m o n)) n)) :pattern ((b2s m o n)))))
(assert (forall ((m (Array Int Int)) (o Int) (n Int) (i Int)) (! (=> (and (<= 0 i) (< i n) (<= 0 (select m (+ o i))) (< (select m (+ o i)) 256)) (= (at (b2s m o n) i) (select m (+ o i)))) :pattern ((at (b2s m o n) i)))))
(assert (forall ((m (Array Int Int)) (o Int) (n Int) (a Int) (b Int)) (! (=> (and (<= 0 a) (<= a b) (<= b n)) (= (sub (b2s m o n) a b) (b2s m (+ o a) (- b a)))) :pattern ((sub (b2s m o n) a b)))))
(declare-fun tagof (Int) Int)
(declare-fun unboxI (Int) Int)
(declare-fun unboxS (Int) Str)
(declare-fun boxI (Int Int) Int)
(declare-fun boxS (Int Str) Int)
(assert (forall ((t Int) (v Int)) (! (and (= (tagof (boxI t v)) t) (= (unboxI (boxI t v)) v) (not (= (boxI t v) 0))) :pattern ((boxI t v)))))
(assert (forall ((t Int) (v Str)) (! (and (= (tagof (boxS t v)) t) (= (unboxS (boxS t v)) v) (not (= (boxS t v) 0))) :pattern ((boxS t v)))))
`

type Result struct {
	Status  string // unsat | sat | unknown | timeout | error
	Solver  string
	Seconds float64
	Output  string
}

type solverSpec struct {
	name string
	argv func(file string, secs int) []string
}

// solverSeed is the base random seed (VERIF_SEED); an `unsat` under any seed is a proof, so a quick `unknown`
// is retried under other seeds before the obligation counts as not discharged (see solve).
var solverSeed = 0

func z3Seeded(seed int) solverSpec {
	name := "z3new"
	if seed != solverSeed {
		name = fmt.Sprintf("z3new-seed%d", seed)
	}
	return solverSpec{name, func(f string, s int) []string {
		a := []string{"z3-new", fmt.Sprintf("-T:%d", s)}
		if seed != 0 {
			a = append(a, fmt.Sprintf("smt.random_seed=%d", seed), fmt.Sprintf("sat.random_seed=%d", seed))
		}
		return append(a, f)
	}}
}

// z3 5.1.0 in the configuration Boogie/Dafny use (no auto-configuration, no model-based quantifier instantiation:
// E-matching on the generator's patterns only). Many obligations whose quantified assumptions all carry patterns are
// decided by it in milliseconds where the default configuration spends its budget in MBQI (getOffer$1: 0.08 s against
// a 90 s timeout). An `unsat` is a proof in either configuration.
var z3EM = solverSpec{"z3new-ematch", func(f string, s int) []string {
	a := []string{"z3-new", fmt.Sprintf("-T:%d", s), "auto_config=false", "smt.mbqi=false"}
	if solverSeed != 0 {
		a = append(a, fmt.Sprintf("smt.random_seed=%d", solverSeed), fmt.Sprintf("sat.random_seed=%d", solverSeed))
	}
	return append(a, f)
}}

var solvers = []solverSpec{
	{"z3new", func(f string, s int) []string { return z3Seeded(solverSeed).argv(f, s) }},
	{"cvc5", func(f string, s int) []string { return []string{"cvc5", fmt.Sprintf("--tlimit=%d", s*1000), f} }},
}

// z3 5.1.0 with smt.arith.solver=2 was tried as a third member and REMOVED: it answered `unsat` on a false
// obligation (unconstrained heaps, goal plainly not implied; default z3 5.1.0 and cvc5: unknown; the answer
// flipped when assertions were named) — the same instability signature as z3 4.8.12 below.
// z3 4.8.12 (/usr/bin/z3) is NOT part of the deciding portfolio: on the vacuity query of
// fiber.(*DefaultCtx).Host it answered `unsat` where z3 5.1.0 and cvc5 answer `unknown`, and the
// answer flipped when any unrelated prelude axiom (e.g. the boxS axiom, which has no ground
// instance in the query) was removed — an unstable and therefore untrustworthy `unsat`.

// runSolver retries when the solver process produced no verdict at all (killed, out of memory under load).
func runSolver(sp solverSpec, file string, secs int) Result {
	r := runSolverOnce(sp, file, secs)
	for i := 0; i < 2 && r.Status == "error" && !strings.Contains(r.Output, "(error"); i++ {
		time.Sleep(time.Duration(200*(i+1)) * time.Millisecond)
		r = runSolverOnce(sp, file, secs)
	}
	return r
}

// runSolverCtx is runSolver under a parent context (cancelled when another member of the race has proved the goal).
func runSolverCtx(parent context.Context, sp solverSpec, file string, secs int) Result {
	r := runSolverOnceCtx(parent, sp, file, secs)
	for i := 0; i < 2 && r.Status == "error" && parent.Err() == nil && !strings.Contains(r.Output, "(error"); i++ {
		time.Sleep(time.Duration(200*(i+1)) * time.Millisecond)
		r = runSolverOnceCtx(parent, sp, file, secs)
	}
	return r
}

func runSolverOnce(sp solverSpec, file string, secs int) Result {
	return runSolverOnceCtx(context.Background(), sp, file, secs)
}

func runSolverOnceCtx(parent context.Context, sp solverSpec, file string, secs int) Result {
	ctx, cancel := context.WithTimeout(parent, time.Duration(secs+2)*time.Second)
	defer cancel()
	argv := sp.argv(file, secs)
	t0 := time.Now()
	cmd := exec.CommandContext(ctx, argv[0], argv[1:]...)
	var out bytes.Buffer
	cmd.Stdout = &out
	cmd.Stderr = &out
	_ = cmd.Run()
	dt := time.Since(t0).Seconds()
	o := out.String()
	first := ""
	for _, ln := range strings.Split(o, "\n") {
		ln = strings.TrimSpace(ln)
		if ln == "" || strings.HasPrefix(ln, "WARNING:") {
			continue
		}
		first = ln
		break
	}
	st := "error"
	switch {
	case first == "unsat", first == "sat", first == "unknown":
		st = first
	case strings.Contains(o, "timeout"), ctx.Err() != nil, strings.Contains(o, "interrupted"):
		st = "timeout"
	}
	if len(o) > 4000 {
		o = o[:4000]
	}
	return Result{st, sp.name, dt, o}
}

// solve runs the portfolio: z3new first; if not definitive, cvc5 and old z3 in parallel.
// all=true runs all solvers and returns every result (thorough cross-check).
func solve(file string, secs int, all bool) (Result, []Result) {
	if all {
		// thorough: every member of the portfolio runs to its verdict (cross-check: how many of them prove the goal);
		// members that are still running 5 s after the first proof are stopped - their verdict would not change the result
		// (the same members as stage 2 of the quick tier, seeded ones included: a thorough run must never be weaker than a
		// quick run - rewrite.captureTokens/post:dollar-n-to-nth-capture is proved by a seeded member only)
		specs := []solverSpec{solvers[0], z3EM, z3Seeded(solverSeed + 1), z3Seeded(solverSeed + 2), z3Seeded(solverSeed + 3)}
		specs = append(specs, solvers[1:]...)
		var wg sync.WaitGroup
		rs := make([]Result, len(specs))
		ctx, cancel := context.WithCancel(context.Background())
		defer cancel()
		var once sync.Once
		for i, sp := range specs {
			wg.Add(1)
			go func() {
				defer wg.Done()
				rs[i] = runSolverCtx(ctx, sp, file, secs)
				if rs[i].Status == "unsat" {
					once.Do(func() { go func() { time.Sleep(5 * time.Second); cancel() }() })
				}
			}()
		}
		wg.Wait()
		best := rs[0]
		for _, r := range rs {
			if r.Status == "unsat" {
				best = r
				break
			}
		}
		if best.Status != "unsat" {
			for _, r := range rs {
				if r.Status == "sat" {
					best = r
					break
				}
			}
		}
		return best, rs
	}
	// stage 1: the base seed alone, short budget (most obligations are decided in well under a second)
	short := secs
	if short > 6 {
		short = 6
	}
	var r Result
	{
		ctx1, cancel1 := context.WithCancel(context.Background())
		ch1 := make(chan Result, 2)
		go func() { ch1 <- runSolverCtx(ctx1, solvers[0], file, short) }()
		go func() { ch1 <- runSolverCtx(ctx1, z3EM, file, short) }()
		var first []Result
		for i := 0; i < 2; i++ {
			x := <-ch1
			first = append(first, x)
			if x.Status == "unsat" || (x.Status == "sat" && x.Solver == solvers[0].name) {
				cancel1()
				return x, first
			}
		}
		cancel1()
		r = first[0]
		for _, x := range first {
			if x.Solver == solvers[0].name {
				r = x
			}
		}
	}
	// stage 2: an `unsat` under any seed or solver is a proof, and hard queries are sensitive to the search order:
	// race the base seed with the full budget, two other seeds and cvc5; the first `unsat` wins
	specs := []solverSpec{solvers[0], z3EM, z3Seeded(solverSeed + 1), z3Seeded(solverSeed + 2), z3Seeded(solverSeed + 3)}
	specs = append(specs, solvers[1:]...)
	ctx, cancel := context.WithCancel(context.Background())
	defer cancel()
	ch := make(chan Result, len(specs))
	for _, sp := range specs {
		go func() { ch <- runSolverCtx(ctx, sp, file, secs) }()
	}
	rs := []Result{r}
	best := r
	for range specs {
		x := <-ch
		rs = append(rs, x)
		if x.Status == "unsat" {
			best = x
			cancel()
			break
		}
		if x.Status == "sat" && best.Status != "sat" {
			best = x
		} else if best.Status == "unknown" && x.Status == "timeout" && x.Solver == solvers[0].name {
			best = x
		}
	}
	return best, rs
}

func writeQuery(dir, name, text string) string {
	f := filepath.Join(dir, name+".smt2")
	_ = os.WriteFile(f, []byte(text), 0o644)
	return f
}

func smtInt(n int64) string {
	if n < 0 {
		return fmt.Sprintf("(- %d)", -n)
	}
	return fmt.Sprint(n)
}

func and(xs ...string) string {
	var ys []string
	for _, x := range xs {
		if x == "true" || x == "" {
			continue
		}
		ys = append(ys, x)
	}
	switch len(ys) {
	case 0:
		return "true"
	case 1:
		return ys[0]
	}
	return "(and " + strings.Join(ys, " ") + ")"
}

func or(xs ...string) string {
	var ys []string
	for _, x := range xs {
		if x == "false" || x == "" {
			continue
		}
		if x == "true" {
			return "true"
		}
		ys = append(ys, x)
	}
	switch len(ys) {
	case 0:
		return "false"
	case 1:
		return ys[0]
	}
	return "(or " + strings.Join(ys, " ") + ")"
}

func not(x string) string {
	if x == "true" {
		return "false"
	}
	if x == "false" {
		return "true"
	}
	return "(not " + x + ")"
}

func imp(a, b string) string {
	if a == "true" {
		return b
	}
	if a == "false" || b == "true" {
		return "true"
	}
	if b == "false" {
		return not(a)
	}
	return "(=> " + a + " " + b + ")"
}
