package main

// Callback effects: a callee whose contract says `callsback` may invoke the closures passed to it
// any number of times; its effect on the caller's state is the closures' write set.

import (
	"go/types"
	"sort"
	"strings"

	"golang.org/x/tools/go/ssa"
)

type closureEffect struct {
	cells map[int]bool      // indices of free variables stored to directly
	heaps map[string]string // whole state variables written (name -> sort)
	wild  bool
	allocs bool
}

func (g *Gen) closureEffects(fn *ssa.Function, depth int) closureEffect {
	ce := closureEffect{cells: map[int]bool{}, heaps: map[string]string{}}
	if depth > 2 {
		ce.wild = true
		return ce
	}
	fvIdx := map[ssa.Value]int{}
	for i, fv := range fn.FreeVars {
		fvIdx[fv] = i
	}
	// an address inside an object the closure allocated itself is invisible to the caller's pre-state
	var ownAlloc func(a ssa.Value) bool
	ownAlloc = func(a ssa.Value) bool {
		switch x := a.(type) {
		case *ssa.Alloc:
			return true
		case *ssa.FieldAddr:
			return ownAlloc(x.X)
		case *ssa.IndexAddr:
			if _, isPtr := x.X.Type().Underlying().(*types.Pointer); isPtr {
				return ownAlloc(x.X)
			}
		}
		return false
	}
	addStructFields := func(t types.Type) bool {
		stt, isSt := structOf(t)
		if !isSt || !g.structTransparent(t) {
			return false
		}
		for i := 0; i < stt.NumFields(); i++ {
			hn, vs, ft := g.fieldHeap(t, i)
			if _, nested := structOf(ft); nested {
				return false
			}
			ce.heaps[hn] = "(Array Int " + vs + ")"
		}
		return true
	}
	addHeapForAddr := func(a ssa.Value) {
		if ownAlloc(a) {
			return
		}
		switch x := a.(type) {
		case *ssa.FreeVar:
			ce.cells[fvIdx[x]] = true
		case *ssa.FieldAddr:
			st := x.X.Type().Underlying().(*types.Pointer).Elem()
			hn, vs, ft := g.fieldHeap(st, x.Field)
			if _, isSt := structOf(ft); isSt {
				if !addStructFields(ft) {
					ce.wild = true
				}
				return
			}
			ce.heaps[hn] = "(Array Int " + vs + ")"
		case *ssa.IndexAddr:
			var et types.Type
			switch u := x.X.Type().Underlying().(type) {
			case *types.Slice:
				et = u.Elem()
			case *types.Pointer:
				et = u.Elem().Underlying().(*types.Array).Elem()
			}
			if et == nil {
				ce.wild = true
				return
			}
			if _, isSt := structOf(et); isSt {
				if !addStructFields(et) {
					ce.wild = true
				}
				return
			}
			h, s := g.elemHeap(et)
			ce.heaps[h] = "(Array Int (Array Int " + s + "))"
		case *ssa.Alloc:
			// local of the closure: invisible to the caller
		default:
			if pt, ok := a.Type().Underlying().(*types.Pointer); ok {
				if _, isSt := structOf(pt.Elem()); isSt {
					ce.wild = true
					return
				}
				h, s := g.cellHeap(pt.Elem())
				ce.heaps[h] = "(Array Int " + s + ")"
			} else {
				ce.wild = true
			}
		}
	}
	for _, b := range fn.Blocks {
		for _, ins := range b.Instrs {
			switch x := ins.(type) {
			case *ssa.Store:
				addHeapForAddr(x.Addr)
			case *ssa.MapUpdate:
				mt := x.Map.Type().Underlying().(*types.Map)
				md, mv, ks, vs := g.mapHeaps(mt)
				ce.heaps[md] = "(Array Int (Array " + ks + " Bool))"
				ce.heaps[mv] = "(Array Int (Array " + ks + " " + vs + "))"
			case *ssa.MakeClosure:
				// nested closure: its effects count when it is passed on to a callsback callee; conservative: merge them
				nfn := x.Fn.(*ssa.Function)
				ne := g.closureEffects(nfn, depth+1)
				if ne.wild {
					ce.wild = true
				}
				for h, srt := range ne.heaps {
					ce.heaps[h] = srt
				}
				if ne.allocs {
					ce.allocs = true
				}
				for i := range ne.cells {
					// a cell of the nested closure is bound to a value of this closure
					if i < len(x.Bindings) {
						switch b := x.Bindings[i].(type) {
						case *ssa.FreeVar:
							ce.cells[fvIdx[b]] = true
						case *ssa.Alloc:
							// local of this closure: invisible to the caller
						default:
							ce.wild = true
						}
					}
				}
			case *ssa.Go, *ssa.Defer, *ssa.Send:
				ce.wild = true
			case *ssa.Call:
				ci := g.resolveCallee(x.Common())
				if ci.kind == "builtin" {
					switch ci.key {
					case "append", "copy":
						// writes the element heap of the destination's element type (fresh or existing array)
						if st, ok := x.Common().Args[0].Type().Underlying().(*types.Slice); ok {
							if stt, isSt := structOf(st.Elem()); isSt {
								if !g.structTransparent(st.Elem()) {
									ce.wild = true
									continue
								}
								for i := 0; i < stt.NumFields(); i++ {
									hn, vs, ft := g.fieldHeap(st.Elem(), i)
									if _, nested := structOf(ft); !nested {
										ce.heaps[hn] = "(Array Int " + vs + ")"
									}
								}
							} else {
								h, s := g.elemHeap(st.Elem())
								ce.heaps[h] = "(Array Int (Array Int " + s + "))"
							}
							ce.allocs = true
						} else {
							ce.wild = true
						}
					case "delete", "clear":
						if mt, ok := x.Common().Args[0].Type().Underlying().(*types.Map); ok {
							md, mv, ks, vs := g.mapHeaps(mt)
							ce.heaps[md] = "(Array Int (Array " + ks + " Bool))"
							ce.heaps[mv] = "(Array Int (Array " + ks + " " + vs + "))"
						} else {
							ce.wild = true
						}
					}
					continue
				}
				if con := g.P.cs.Funcs[ci.key]; con != nil {
					if con.Pure || (con.Assumed && len(con.Modifies) == 0 && !con.CallsBack) {
						if con.Allocates {
							ce.allocs = true
						}
						continue
					}
					if con.CallsBack && len(con.Modifies) == 0 {
						continue // the closures it is given are accounted for at their MakeClosure
					}
					// modifies lists made only of ghost variables and elems(x) of statically typed arguments are translatable
					okAll := true
					for _, m := range con.Modifies {
						m = strings.TrimSpace(m)
						if srt, isGhost := g.P.cs.Ghosts[m]; isGhost {
							ce.heaps[m] = srt
							continue
						}
						if strings.HasPrefix(m, "elems(") && strings.HasSuffix(m, ")") {
							an := strings.TrimSuffix(strings.TrimPrefix(m, "elems("), ")")
							found := false
							names := ci.formals
							if len(con.Params) > 0 {
								names = con.Params
							}
							for ai, f := range names {
								if f == an && ai < len(x.Common().Args)+1 {
									var at types.Type
									if x.Common().IsInvoke() {
										if ai == 0 {
											continue
										}
										at = x.Common().Args[ai-1].Type()
									} else if ai < len(x.Common().Args) {
										at = x.Common().Args[ai].Type()
									}
									if st, ok := at.Underlying().(*types.Slice); ok {
										if _, isSt := structOf(st.Elem()); !isSt {
											h, es := g.elemHeap(st.Elem())
											ce.heaps[h] = "(Array Int (Array Int " + es + "))"
											found = true
										}
									}
								}
							}
							if found {
								continue
							}
						}
						okAll = false
					}
					if !okAll {
						ce.wild = true
					}
					continue
				}
				if ci.pkg != nil && !isModulePkg(ci.pkg) && purePkgs[ci.pkg.Name()] && ci.kind == "static" {
					continue
				}
				ce.wild = true
			}
		}
	}
	return ce
}

// callbackInvariants evaluates the `preserves` clauses of the closures passed to a callsback callee in the
// caller's current state (captured variable names bound through the MakeClosure cells).
func (g *Gen) callbackInvariants(c *ssa.CallCommon, ins ssa.Instruction, assert bool) {
	for _, a := range c.Args {
		mc, ok := a.(*ssa.MakeClosure)
		if !ok {
			continue
		}
		fn := mc.Fn.(*ssa.Function)
		con := g.P.cs.Funcs[canon(fn)]
		if con == nil || len(con.Preserves) == 0 {
			continue
		}
		save := g.cloBind
		g.cloBind = map[string]ssa.Value{}
		for i, fv := range fn.FreeVars {
			if i < len(mc.Bindings) {
				g.cloBind[fv.Name()] = mc.Bindings[i]
			}
		}
		for _, cl := range con.Preserves {
			env := g.calleeEnv(map[string]Term{}, ins)
			t, err := g.eval(cl.Expr, env)
			if err != nil {
				g.bindFail(cl, err)
				continue
			}
			if assert {
				props := cl.Props
				if len(props) == 0 {
					props = con.Props
				}
				g.oblige("cbinv", shortKey(canon(fn))+":"+cl.Label, t.S, cl.Where, cl.Text, props)
			} else {
				g.assume(t.S)
			}
		}
		g.cloBind = save
	}
}

func (g *Gen) applyCallbacks(c *ssa.CallCommon, ins ssa.Instruction) {
	for _, a := range c.Args {
		mc, ok := a.(*ssa.MakeClosure)
		if !ok {
			if _, isFn := a.Type().Underlying().(*types.Signature); isFn {
				g.note("callback argument is not a closure literal: everything havocked")
				g.havocAll(func(n string) bool { _, isGhost := g.P.cs.Ghosts[n]; return isGhost })
				g.havocSV("$epoch", "Int")
			}
			continue
		}
		fn := mc.Fn.(*ssa.Function)
		if con := g.P.cs.Funcs[canon(fn)]; con != nil && con.hasFrame() && len(con.Requires) == 0 {
			// the closure has its own frame contract (checked on its body unless `assumed`): havoc exactly that
			g.assumedUsedNote(con)
			save := g.cloBind
			g.cloBind = map[string]ssa.Value{}
			for i, fv := range fn.FreeVars {
				if i < len(mc.Bindings) {
					g.cloBind[fv.Name()] = mc.Bindings[i]
				}
			}
			pre := copyState(g.cur)
			envM := g.calleeEnv(map[string]Term{}, ins)
			envM.siblingScope = true
			envM.st = pre
			envM.old = pre
			if !con.Pure {
				g.bumpAlloc()
				for _, m := range con.Modifies {
					g.applyModifies(m, envM, calleeInfo{kind: "closure", key: canon(fn), fn: fn, sig: fn.Signature})
				}
			}
			// postconditions that do not mention the pre-state hold after the last run, if it ran at all
			ran := g.newConst("cbran", "Bool")
			for _, en := range con.Ensures {
				if strings.Contains(en.Text, "old(") {
					continue
				}
				env2 := g.calleeEnv(map[string]Term{}, ins)
				env2.siblingScope = true
				t, err := g.eval(en.Expr, env2)
				if err != nil {
					continue
				}
				g.assume(imp(ran, t.S))
			}
			g.cloBind = save
			continue
		}
		ce := g.closureEffects(fn, 0)
		if ce.wild {
			g.note("callback " + canon(fn) + " has effects outside its captured variables: everything havocked")
			g.havocAll(func(n string) bool { _, isGhost := g.P.cs.Ghosts[n]; return isGhost })
			g.havocSV("$epoch", "Int")
			continue
		}
		var cellIdx []int
		for i := range ce.cells {
			cellIdx = append(cellIdx, i)
		}
		sort.Ints(cellIdx)
		for _, i := range cellIdx {
			cell := mc.Bindings[i]
			ad := g.addrOf(cell)
			nv := g.newConst("cb", ad.Sort)
			g.store(ad, nv)
			if ad.T != nil {
				g.assume(g.typeInv(nv, ad.T))
			}
		}
		if ce.allocs {
			g.bumpAlloc()
		}
		var hs []string
		for h := range ce.heaps {
			hs = append(hs, h)
		}
		sort.Strings(hs)
		for _, h := range hs {
			g.havocSV(h, ce.heaps[h])
		}
	}
}
