package main

// Goal skolemisation: positive-polarity universal quantifiers of a goal are replaced by fresh
// constants before the goal is negated (z3 and cvc5 decide the skolemised form far more reliably
// than `(not (forall ...))`).

import (
	"fmt"
	"strings"
)

type sx struct {
	atom string
	kids []*sx
}

func parseSx(s string) *sx {
	pos := 0
	var parse func() *sx
	parse = func() *sx {
		for pos < len(s) && (s[pos] == ' ' || s[pos] == '\n' || s[pos] == '\t') {
			pos++
		}
		if pos >= len(s) {
			return nil
		}
		if s[pos] == '(' {
			pos++
			n := &sx{}
			for {
				for pos < len(s) && (s[pos] == ' ' || s[pos] == '\n' || s[pos] == '\t') {
					pos++
				}
				if pos >= len(s) {
					return n
				}
				if s[pos] == ')' {
					pos++
					return n
				}
				n.kids = append(n.kids, parse())
			}
		}
		st := pos
		if s[pos] == '|' {
			pos++
			for pos < len(s) && s[pos] != '|' {
				pos++
			}
			pos++
		} else {
			for pos < len(s) && s[pos] != ' ' && s[pos] != '(' && s[pos] != ')' && s[pos] != '\n' {
				pos++
			}
		}
		return &sx{atom: s[st:pos]}
	}
	return parse()
}

func (n *sx) String() string {
	if n == nil {
		return ""
	}
	if n.kids == nil && n.atom != "" {
		return n.atom
	}
	var b strings.Builder
	b.WriteByte('(')
	for i, k := range n.kids {
		if i > 0 {
			b.WriteByte(' ')
		}
		b.WriteString(k.String())
	}
	b.WriteByte(')')
	return b.String()
}

func (n *sx) head() string {
	if n != nil && len(n.kids) > 0 && n.kids[0].kids == nil {
		return n.kids[0].atom
	}
	return ""
}

func substSx(n *sx, m map[string]string) *sx {
	if n == nil {
		return nil
	}
	if n.kids == nil {
		if r, ok := m[n.atom]; ok {
			return &sx{atom: r}
		}
		return n
	}
	// respect shadowing by inner binders
	if h := n.head(); (h == "forall" || h == "exists") && len(n.kids) == 3 {
		m2 := map[string]string{}
		for k, v := range m {
			m2[k] = v
		}
		for _, b := range n.kids[1].kids {
			if len(b.kids) == 2 {
				delete(m2, b.kids[0].atom)
			}
		}
		return &sx{kids: []*sx{n.kids[0], n.kids[1], substSx(n.kids[2], m2)}}
	}
	out := &sx{kids: make([]*sx, len(n.kids))}
	for i, k := range n.kids {
		out.kids[i] = substSx(k, m)
	}
	return out
}

// skolemizeGoal returns the goal with positive-polarity foralls instantiated by fresh constants.
func (g *Gen) skolemizeGoal(goal string) string {
	if !strings.Contains(goal, "(forall ") {
		return goal
	}
	t := parseSx(goal)
	var walk func(n *sx, pos bool) *sx
	walk = func(n *sx, pos bool) *sx {
		if n == nil || n.kids == nil {
			return n
		}
		switch n.head() {
		case "forall":
			if pos && len(n.kids) == 3 {
				m := map[string]string{}
				for _, b := range n.kids[1].kids {
					if len(b.kids) == 2 {
						m[b.kids[0].atom] = g.newConst("sk!"+sanitize(b.kids[0].atom), b.kids[1].String())
					}
				}
				return walk(stripBang(substSx(n.kids[2], m)), true)
			}
			return n
		case "exists":
			if !pos && len(n.kids) == 3 {
				m := map[string]string{}
				for _, b := range n.kids[1].kids {
					if len(b.kids) == 2 {
						m[b.kids[0].atom] = g.newConst("sk!"+sanitize(b.kids[0].atom), b.kids[1].String())
					}
				}
				return walk(stripBang(substSx(n.kids[2], m)), false)
			}
			return n
		case "and", "or":
			out := &sx{kids: []*sx{n.kids[0]}}
			for _, k := range n.kids[1:] {
				out.kids = append(out.kids, walk(k, pos))
			}
			return out
		case "not":
			if len(n.kids) == 2 {
				return &sx{kids: []*sx{n.kids[0], walk(n.kids[1], !pos)}}
			}
		case "=>":
			if len(n.kids) >= 3 {
				out := &sx{kids: []*sx{n.kids[0]}}
				for i, k := range n.kids[1:] {
					if i == len(n.kids)-2 {
						out.kids = append(out.kids, walk(k, pos))
					} else {
						out.kids = append(out.kids, walk(k, !pos))
					}
				}
				return out
			}
		case "!":
			if len(n.kids) >= 2 {
				out := &sx{kids: append([]*sx{n.kids[0], walk(n.kids[1], pos)}, n.kids[2:]...)}
				return out
			}
		}
		return n
	}
	r := walk(t, true)
	if r == nil {
		return goal
	}
	_ = fmt.Sprint
	return r.String()
}

// stripBang drops a pattern annotation `(! body :pattern ...)` that is no longer under a quantifier.
func stripBang(n *sx) *sx {
	if n != nil && n.head() == "!" && len(n.kids) >= 2 {
		return n.kids[1]
	}
	return n
}
