package main

import (
	"fmt"
	"os"

	"golang.org/x/tools/go/ssa"
)

var extraCmds = map[string]func([]string) int{}

func main() {
	if len(os.Args) < 2 {
		fmt.Println("usage: fvc vc|check|dump ...")
		os.Exit(2)
	}
	if sd := 0; true {
		fmt.Sscan(os.Getenv("FVC_SOLVER_SEED"), &sd)
		if sd < 0 {
			sd = -sd
		}
		solverSeed = sd % 1000000
	}
	switch os.Args[1] {
	case "vc":
		os.Exit(cmdVC(os.Args[2:]))
	case "check":
		os.Exit(cmdCheck(os.Args[2:]))
	case "dump":
		os.Exit(cmdDump(os.Args[2:]))
	}
	if f, ok := extraCmds[os.Args[1]]; ok {
		os.Exit(f(os.Args[2:]))
	}
	fmt.Println("unknown command", os.Args[1])
	os.Exit(2)
}

func cmdDump(args []string) int {
	p := args[0]
	if p == "." || p == "fiber" {
		p = modPath
	} else if len(p) < 10 || p[:10] != "github.com" {
		p = modPath + "/" + p
	}
	P, err := loadProg(envOr("FVC_REPO", "/repo"), envOr("FVC_VERIF", "/verif"), []string{p})
	if err != nil {
		fmt.Println(err)
		return 2
	}
	for _, name := range args[1:] {
		found := false
		for k, fn := range P.funcs {
			if k == name || shortKey(k) == name {
				fn.WriteTo(os.Stdout)
				found = true
			}
		}
		if !found {
			fmt.Println("no function", name)
		}
	}
	_ = ssa.NaiveForm
	return 0
}


func init() {
	extraCmds["ovtest"] = func(args []string) int {
		// fvc ovtest <pkgrel> <testfile> <TestName>
		cfg := RunConfig{Repo: envOr("FVC_REPO", "/repo"), Verif: envOr("FVC_VERIF", "/verif")}
		ok, out := runOverlayTest(cfg, args[0], args[1], args[2], 120)
		fmt.Print(out)
		if ok {
			return 0
		}
		return 1
	}
}
