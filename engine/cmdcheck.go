package main

// `fvc check <property> <tier>`: the command registered in MANIFEST.json.

import (
	"encoding/json"
	"fmt"
	"os"
	"os/exec"
	"path/filepath"
	"sort"
	"strings"
	"time"
)

type propMeta struct {
	Level       string   `json:"level"`
	Bounded     []string `json:"bounded"` // bounded stand-in test names (pkgrel:file:Test)
	Note        string   `json:"note"`
}

func propPackages(repo, prop string) ([]string, error) {
	var out []string
	for _, f := range contractFiles(repo) {
		cs := newContractSet()
		if err := cs.loadFile(f); err != nil {
			return nil, err
		}
		hit := false
		for _, c := range cs.Funcs {
			if !c.Assumed && contractMentions(c, prop) {
				hit = true
			}
		}
		for _, l := range cs.Lemmas {
			if hasProp(l.Props, prop) {
				hit = true
			}
		}
		if hit {
			pp := pkgPathOfFile(repo, f)
			dup := false
			for _, o := range out {
				if o == pp {
					dup = true
				}
			}
			if !dup {
				out = append(out, pp)
			}
		}
	}
	return out, nil
}

func baseName(obl string) string {
	if i := strings.LastIndex(obl, "#"); i > 0 {
		return obl[:i]
	}
	return obl
}

func cmdCheck(args []string) int {
	if len(args) < 1 {
		fmt.Println("usage: fvc check <property> [quick|thorough]")
		return 2
	}
	prop := args[0]
	tier := "quick"
	if len(args) > 1 {
		tier = args[1]
	}
	if t := os.Getenv("VERIF_TIER"); t == "quick" || t == "thorough" {
		tier = t
	}
	seed := 0
	fmt.Sscan(os.Getenv("VERIF_SEED"), &seed)
	if seed < 0 {
		seed = -seed
	}
	// The solver portfolio is deterministic: fixed z3 seeds (0, 1, 2, 3), the E-matching configuration and cvc5.
	// VERIF_SEED does not change which proofs are found (an obligation discharged under one VERIF_SEED is discharged
	// under every other); it only seeds the random tail of bounded stand-ins. FVC_SOLVER_SEED shifts the z3 seeds for
	// robustness sweeps.
	_ = seed
	cfg := RunConfig{Repo: envOr("FVC_REPO", "/repo"), Verif: envOr("FVC_VERIF", "/verif"), Prop: prop, Tier: tier, Timeout: 30, Workers: 16, KeepQueries: os.Getenv("FVC_KEEP") != ""}
	if tier == "thorough" {
		cfg.Timeout = 120
		cfg.AllSolvers = true
	}
	t0 := time.Now()
	pkgs, err := propPackages(cfg.Repo, prop)
	if err != nil {
		fmt.Println("ENGINE-ERROR:", err)
		return 2
	}
	if len(pkgs) == 0 {
		fmt.Printf("ENGINE-ERROR: no contract mentions property %s\n", prop)
		return 2
	}
	out, err := run(cfg, pkgs)
	if err != nil {
		fmt.Println("ENGINE-ERROR:", err)
		return 2
	}
	fmt.Printf("[load] %d packages, SSA + VC generation %.1fs\n", len(pkgs), out.LoadSecs)
	findings := loadFindings(cfg.Verif)
	qdir, _ := os.MkdirTemp("", "fvcx")
	defer os.RemoveAll(qdir)

	discharged, knownN, failed := 0, 0, 0
	perSolver := map[string]int{}
	var solverTime float64
	type slow struct {
		Name string  `json:"obligation"`
		Secs float64 `json:"seconds"`
	}
	var slowest []slow
	var violations []string
	knownPrinted := map[string]bool{}
	var knownList []string
	var samples []any
	single := 0
	for _, r := range out.Results {
		for _, a := range r.All {
			solverTime += a.Seconds
		}
		slowest = append(slowest, slow{r.Obl.Name, r.Res.Seconds})
		if os.Getenv("FVC_VERBOSE") != "" {
			fmt.Printf("%-8s %-14s %6.2fs  %s\n", r.Res.Status, r.Res.Solver, r.Res.Seconds, r.Obl.Name)
		}
		if r.Res.Status == "unsat" {
			discharged++
			perSolver[r.Res.Solver]++
			if cfg.AllSolvers {
				n := 0
				for _, a := range r.All {
					if a.Status == "unsat" {
						n++
					}
				}
				if n < 2 {
					single++
				}
			}
			if len(samples) < 3 {
				samples = append(samples, map[string]string{"obligation": r.Obl.Name, "clause": r.Obl.Text, "where": r.Obl.Where, "goal_smt": truncate(r.Obl.Goal, 400), "path_condition": r.Obl.Hyp, "result": "unsat (" + r.Res.Solver + ")"})
			}
			continue
		}
		// not discharged: known finding?
		var kf *Finding
		for _, f := range findings.Findings {
			if (f.Property == prop || r.Obl.Support) && f.Status == "known" && (f.Obligation == r.Obl.Name || f.Obligation == baseName(r.Obl.Name)) {
				kf = f
			}
		}
		if kf != nil {
			ok := true
			if kf.Except != "" {
				hyp, err := exceptHyp(r.Gen, kf.Except)
				if err != nil {
					ok = false
				} else {
					f := writeQuery(qdir, "x"+oblHash(r.Obl.Name), r.Gen.query(r.Obl, not(hyp), false))
					rr, _ := solve(f, cfg.Timeout, false)
					ok = rr.Status == "unsat"
				}
			}
			if ok {
				knownN++
				if !knownPrinted[kf.Obligation] {
					knownPrinted[kf.Obligation] = true
					replayed := "not replayed"
					if kf.Replay != "" {
						if confirmed, _ := runKnownReplay(cfg, kf.Replay); confirmed {
							replayed = "replayed on the real code: still fails"
						} else {
							replayed = "STALE: recorded input no longer fails"
							ok = false
						}
					}
					if ok {
						line := fmt.Sprintf("KNOWN-FINDING: property=%s %s — %s (%s)", kf.Property, kf.Obligation, kf.What, replayed)
						if kf.Property != prop {
							line += fmt.Sprintf(" [supporting obligation in a function checked for %s]", prop)
						}
						fmt.Println(line)
						knownList = append(knownList, line)
					}
				}
				if ok {
					continue
				}
				knownN--
			}
		}
		failed++
		path, confirmed := writeReplay(cfg, prop, r)
		line := fmt.Sprintf("VIOLATION property=%s replay=%s obligation=%s solver=%s", prop, path, r.Obl.Name, r.Res.Status)
		if r.Obl.Support {
			line += " supporting-obligation(assumed-by-" + prop + "-obligations-of-the-function)"
		}
		if confirmed {
			line += " replayed-on-real-code"
		} else {
			line += " no-failing-input-found"
		}
		violations = append(violations, line)
	}
	sort.Slice(slowest, func(i, j int) bool { return slowest[i].Secs > slowest[j].Secs })
	if len(slowest) > 5 {
		slowest = slowest[:5]
	}
	// recorded defects that no obligation expresses (found by replay only, e.g. by a seed-writing agent): the recorded
	// input is re-run on the real code; while it still fails the finding is reported, once it passes it is stale
	for _, kf := range findings.Findings {
		if kf.Property != prop || kf.Status != "known" || !strings.HasPrefix(kf.Obligation, "replay-only:") || kf.Replay == "" {
			continue
		}
		if confirmed, _ := runKnownReplay(cfg, kf.Replay); confirmed {
			line := fmt.Sprintf("KNOWN-FINDING: property=%s %s — %s (replayed on the real code: still fails)", kf.Property, kf.Obligation, kf.What)
			fmt.Println(line)
			knownList = append(knownList, line)
		}
	}
	// repaired defects that no obligation expresses (status fixed, obligation `replay-only:`): the replay is run on every
	// run; if the recorded input fails again on the real code the defect has returned - a violation (a test that cannot
	// be built or times out is reported as undecided, not as a violation)
	for _, kf := range findings.Findings {
		if kf.Property != prop || kf.Status != "fixed" || !strings.HasPrefix(kf.Obligation, "replay-only:") || kf.Replay == "" {
			continue
		}
		confirmed, out := runKnownReplay(cfg, kf.Replay)
		if !confirmed {
			continue
		}
		if !strings.Contains(out, "--- FAIL") {
			fmt.Printf("UNDECIDED: replay of the repaired finding %s could not be run: %s\n", kf.Obligation, truncate(out, 300))
			continue
		}
		dir := filepath.Join(cfg.Verif, "replays")
		_ = os.MkdirAll(dir, 0o755)
		path := filepath.Join(dir, fmt.Sprintf("%s-%s.json", prop, oblHash(kf.Obligation)))
		d, _ := json.MarshalIndent(map[string]any{"property": prop, "obligation": kf.Obligation, "what": kf.What, "replay": kf.Replay, "output": truncate(out, 8000), "replayed_on_real_code": true}, "", " ")
		_ = os.WriteFile(path, d, 0o644)
		violations = append(violations, fmt.Sprintf("VIOLATION property=%s replay=%s obligation=%s (a repaired defect has returned) replayed-on-real-code", prop, path, kf.Obligation))
	}
	// bounded stand-ins registered for this property
	var bounded []map[string]any
	bviol := runBounded(cfg, prop, tier, &bounded)
	for _, v := range bviol {
		violations = append(violations, v)
	}
	// thorough: contract conformance of the proved functions on the real code (bounded, not counted as proved): every
	// function whose inputs are plain values is run against its contract compiled to Go over the replay input space.
	// A violation here contradicts the proof (engine or dependency-contract unsoundness, or a clause the generator
	// does not check) and is reported as a violation with the failing input.
	var conformance []map[string]any
	if tier == "thorough" {
		seenFn := map[string]bool{}
		var todo []*OblResult
		for _, r := range out.Results {
			if r.Gen == nil || seenFn[r.Obl.Fn] || replayCache[r.Obl.Fn] != nil {
				continue
			}
			seenFn[r.Obl.Fn] = true
			todo = append(todo, r)
		}
		type cres struct {
			r  *OblResult
			rr ReplayResult
		}
		ch := make(chan cres, len(todo))
		sem := make(chan struct{}, 4)
		for _, r := range todo {
			sem <- struct{}{}
			go func() { defer func() { <-sem }(); ch <- cres{r, concreteReplay(cfg, r, "")} }()
		}
		for range todo {
			x := <-ch
			if !x.rr.Tried {
				continue
			}
			conformance = append(conformance, map[string]any{"function": x.r.Obl.Fn, "cases_ran_exhaustive": x.rr.Cases, "violated": x.rr.Confirmed, "note": x.rr.Why, "label": "bounded (contract compiled to Go, run on the real function; not counted as proved)"})
			if x.rr.Confirmed {
				dir := filepath.Join(cfg.Verif, "replays")
				_ = os.MkdirAll(dir, 0o755)
				path := filepath.Join(dir, fmt.Sprintf("%s-conformance-%s.json", prop, oblHash(x.r.Obl.Fn)))
				d, _ := json.MarshalIndent(map[string]any{"property": prop, "function": x.r.Obl.Fn, "failing_input": x.rr.Input, "violated_on_real_code": x.rr.Violated, "replay_test": x.rr.Test, "replayed_on_real_code": true,
					"note": "the real function violates a clause of its contract on this input although every obligation of the function was discharged: the proof rests on something false (assumed dependency contract, engine model) or the clause is not covered by an obligation"}, "", " ")
				_ = os.WriteFile(path, d, 0o644)
				failed++
				violations = append(violations, fmt.Sprintf("VIOLATION property=%s replay=%s conformance=%s violated=%s replayed-on-real-code", prop, path, x.r.Obl.Fn, x.rr.Violated))
			}
		}
		sort.Slice(conformance, func(i, j int) bool { return conformance[i]["function"].(string) < conformance[j]["function"].(string) })
	}
	// A function whose own obligation failed is not reported as vacuous: every obligation is assumed once asserted, so a
	// failed (false) clause makes the assumptions at the exits contradictory - a consequence of the violation, not an
	// engine problem. Vacuity of a function all of whose obligations were discharged stays an engine error.
	if len(out.Vacuous) > 0 {
		failedFn := map[string]bool{}
		for _, r := range out.Results {
			if r.Res.Status != "unsat" {
				failedFn[r.Obl.Fn] = true
			}
		}
		var keep []string
		for _, v := range out.Vacuous {
			if failedFn[v] {
				fmt.Printf("note: the exits of %s are unreachable under its asserted clauses (one of them failed, see above)\n", v)
				continue
			}
			keep = append(keep, v)
		}
		out.Vacuous = keep
	}
	for _, v := range out.Vacuous {
		fmt.Printf("ENGINE-ERROR: vacuous assumptions in %s (a planted assert-false at its exits is provable)\n", v)
	}
	total := len(out.Results) - knownN
	fmt.Printf("[%s] functions %d, obligations %d, assumed %d, binding failures %d\n", prop, len(out.Functions), len(out.Results), len(out.Assumed), len(out.BindErrs))
	fmt.Printf("[%s] discharged %d  known-finding %d  failed %d   solver %.1fs (z3new %d, z3new-ematch %d, cvc5 %d)\n", prop, discharged, knownN, failed, solverTime, perSolver["z3new"], perSolver["z3new-ematch"], perSolver["cvc5"])
	for _, e := range out.BindErrs {
		fmt.Println("UNDECIDED:", e)
	}
	for _, v := range violations {
		fmt.Println(v)
	}
	// evidence
	var assumptions []string
	for k := range out.Assumed {
		assumptions = append(assumptions, k)
	}
	for k := range out.Notes {
		assumptions = append(assumptions, k)
	}
	var nocon []string
	for k := range out.NoContract {
		nocon = append(nocon, k)
	}
	sort.Strings(nocon)
	if len(nocon) > 0 {
		assumptions = append(assumptions, "callees without a contract (result havocked, frame rule of DESIGN §4): "+strings.Join(nocon, ", "))
	}
	sort.Strings(assumptions)
	level := "proof"
	if lv := manifestLevel(cfg.Verif, prop); lv != "" {
		level = lv
	}
	cov := map[string]any{
		"obligations":              total,
		"discharged":               discharged,
		"checker_cmd":              fmt.Sprintf("bin/fvc check %s %s  (VC generation over go/ssa of /repo's working tree with -tags verif; z3 5.1.0 (default and E-matching-only configuration) + cvc5 1.0.3 portfolio, %ds per query)", prop, tier, cfg.Timeout),
		"trusted_base":             []string{"go/packages + go/ssa (x/tools v0.29.0) source-to-SSA translation", "fvc SSA-to-SMT encoder (/verif/engine; semantic model and dropped features in DESIGN §4)", "SMT solvers z3 5.1.0 and cvc5 1.0.3 (z3 4.8.12 and z3 5.1.0 with arith.solver=2 are excluded: unstable unsat answers)", "assumed contracts and frame assumptions listed under assumptions"},
		"functions_under_contract": out.Functions,
		"per_solver":               perSolver,
		"solver_time_s":            solverTime,
		"slowest":                  slowest,
		"known_findings":           knownList,
		"obligations_known_finding": knownN,
		"binding_failures":         out.BindErrs,
		"bounded_standins":         bounded,
		"contract_conformance_runs": conformance,
		"samples":                  samples,
		"packages":                 pkgs,
		"vacuity_guard":            fmt.Sprintf("planted assert-false at the exits of each of the %d functions must not be provable: %d vacuous", len(out.Functions), len(out.Vacuous)),
	}
	if cfg.AllSolvers {
		cov["single_solver_only"] = single
	}
	if level != "proof" {
		cov["explanation"] = manifestText(cfg.Verif, prop)
		ev, dn := 0, 0
		for _, b := range bounded {
			if n, ok := b["cases"].(int); ok {
				ev += n
			}
			if n, ok := b["distinct_nontrivial"].(int); ok {
				dn += n
			}
		}
		if ev > 0 {
			cov["evaluations"] = ev
			cov["distinct_nontrivial"] = dn
			cov["rule"] = "bounded stand-ins: exhaustive enumeration up to the bound stated per stand-in; a case is non-trivial when the pattern/route/operation sequence exercises the contract's antecedent"
		}
	}
	ev := map[string]any{
		"property_id": prop, "tier": tier, "seed": seed, "level": level,
		"coverage": cov, "assumptions": assumptions,
		"wall_s": time.Since(t0).Seconds(), "violations": len(violations),
	}
	_ = os.MkdirAll(filepath.Join(cfg.Verif, "evidence"), 0o755)
	data, _ := json.MarshalIndent(ev, "", " ")
	_ = os.WriteFile(filepath.Join(cfg.Verif, "evidence", prop+".json"), data, 0o644)
	fmt.Printf("[%s] evidence/%s.json written; wall %.1fs\n", prop, prop, time.Since(t0).Seconds())
	if len(out.Vacuous) > 0 {
		return 2
	}
	if len(violations) > 0 {
		return 1
	}
	return 0
}

func manifestLevel(verif, prop string) string {
	m := readManifest(verif)
	for _, c := range m.Checks {
		if c.PropertyID == prop {
			return c.Level.Category
		}
	}
	return ""
}

func manifestText(verif, prop string) string {
	m := readManifest(verif)
	for _, c := range m.Checks {
		if c.PropertyID == prop {
			return c.Level.Text
		}
	}
	return ""
}

type manifest struct {
	Checks []struct {
		PropertyID string `json:"property_id"`
		Level      struct {
			Category string `json:"category"`
			Text     string `json:"text"`
		} `json:"level_claimed"`
	} `json:"checks"`
}

func readManifest(verif string) manifest {
	var m manifest
	data, err := os.ReadFile(filepath.Join(verif, "MANIFEST.json"))
	if err == nil {
		_ = json.Unmarshal(data, &m)
	}
	return m
}

var replayCache = map[string]*ReplayResult{}

func writeReplay(cfg RunConfig, prop string, r *OblResult) (string, bool) {
	dir := filepath.Join(cfg.Verif, "replays")
	_ = os.MkdirAll(dir, 0o755)
	path := filepath.Join(dir, fmt.Sprintf("%s-%s.json", prop, oblHash(r.Obl.Name)))
	// try to obtain a model
	model := ""
	qd, _ := os.MkdirTemp("", "fvcm")
	defer os.RemoveAll(qd)
	f := writeQuery(qd, "m", r.Gen.query(r.Obl, "", true))
	mr := runSolver(solvers[0], f, 10)
	if mr.Status == "sat" || mr.Status == "unknown" {
		model = mr.Output
	}
	var outs []map[string]any
	for _, a := range r.All {
		outs = append(outs, map[string]any{"solver": a.Solver, "status": a.Status, "seconds": a.Seconds, "output": truncate(a.Output, 600)})
	}
	rep := map[string]any{
		"property": prop, "obligation": r.Obl.Name, "kind": r.Obl.Kind, "function": r.Obl.Fn,
		"clause": r.Obl.Text, "clause_at": r.Obl.Where, "goal_smt": r.Obl.Goal, "path_condition": r.Obl.Hyp,
		"solver_results": outs, "model": truncate(model, 6000),
		"replayed_on_real_code": false,
		"note": "the obligation is generated from the current /repo source and is not discharged; no concrete failing input was constructed (no-failing-input-found)",
	}
	// concretising replay: run the real function against its contract compiled to Go (once per function)
	cr, ok := replayCache[r.Obl.Fn]
	if !ok {
		x := concreteReplay(cfg, r, model)
		cr = &x
		replayCache[r.Obl.Fn] = cr
	}
	confirmed := false
	if cr.Confirmed {
		confirmed = true
		rep["replayed_on_real_code"] = true
		rep["failing_input"] = cr.Input
		rep["violated_on_real_code"] = cr.Violated
		rep["replay_search"] = "contract of " + r.Obl.Fn + " compiled to Go and run on the real function through go test -overlay; inputs from the literals of the contract, the constants of the body and the integers of the solver's candidate model"
		rep["replay_test"] = cr.Test
		rep["replay_output"] = cr.Output
		rep["note"] = "the obligation is generated from the current /repo source and is not discharged; the real function violates its contract on the input given under failing_input"
	} else {
		rep["replay_attempt"] = map[string]any{"tried": cr.Tried, "why_no_input": cr.Why, "output": truncate(cr.Output, 1200)}
	}
	data, _ := json.MarshalIndent(rep, "", " ")
	_ = os.WriteFile(path, data, 0o644)
	return path, confirmed
}

// runKnownReplay runs a recorded failing input against the real code.
// spec = "<pkg dir relative to repo>:<file under /verif/replay/known>:<TestName>".
// The test asserts the property, so it FAILS while the defect is present. Returns confirmed=true when it fails.
func runKnownReplay(cfg RunConfig, spec string) (bool, string) {
	parts := strings.Split(spec, ":")
	if len(parts) != 3 {
		return false, "bad replay spec"
	}
	ok, out := runOverlayTest(cfg, parts[0], filepath.Join(cfg.Verif, "replay", "known", parts[1]), parts[2], 120)
	return !ok, out
}

// runOverlayTest injects testFile into package pkgRel of the repository through `go test -overlay`
// (nothing is written under /repo). The package's own _test.go files are overlaid with empty ones to keep
// the build small. Returns ok=true when the test passes.
func runOverlayTest(cfg RunConfig, pkgRel, testFile, testName string, timeoutS int) (bool, string) {
	dir := filepath.Join(cfg.Repo, pkgRel)
	tmp, err := os.MkdirTemp("", "fvcov")
	if err != nil {
		return false, err.Error()
	}
	defer os.RemoveAll(tmp)
	ents, _ := os.ReadDir(dir)
	pkgClause := ""
	repl := map[string]string{}
	for _, e := range ents {
		n := e.Name()
		if strings.HasSuffix(n, "_test.go") {
			data, _ := os.ReadFile(filepath.Join(dir, n))
			pc := ""
			for _, ln := range strings.Split(string(data), "\n") {
				if strings.HasPrefix(ln, "package ") {
					pc = strings.Fields(ln)[1]
					break
				}
			}
			if strings.HasSuffix(pc, "_test") {
				// external test package: drop by overlaying with an empty in-package file
				pc = strings.TrimSuffix(pc, "_test")
			}
			if pkgClause == "" {
				pkgClause = pc
			}
			empty := filepath.Join(tmp, "empty_"+n)
			_ = os.WriteFile(empty, []byte("package "+pc+"\n"), 0o644)
			repl[filepath.Join(dir, n)] = empty
		}
	}
	repl[filepath.Join(dir, "zz_fvc_replay_test.go")] = testFile
	ov, _ := json.Marshal(map[string]any{"Replace": repl})
	ovf := filepath.Join(tmp, "overlay.json")
	_ = os.WriteFile(ovf, ov, 0o644)
	cmd := exec.Command("go", "test", "-v", "-overlay", ovf, "-vet=off", "-count=1", "-timeout", fmt.Sprintf("%ds", timeoutS), "-run", "^"+testName+"$", ".")
	cmd.Dir = dir
	cmd.Env = append(os.Environ(), "GOFLAGS=-mod=mod", "GOPROXY=off", "GOSUMDB=off", "GOTOOLCHAIN=local")
	outb, err := cmd.CombinedOutput()
	return err == nil, string(outb)
}

// runBounded runs the bounded stand-ins registered for the property in /verif/bounded/index.json.
func runBounded(cfg RunConfig, prop, tier string, rep *[]map[string]any) []string {
	type entry struct {
		Property string `json:"property"`
		Pkg      string `json:"pkg"`
		File     string `json:"file"`
		Test     string `json:"test"`
		Contract string `json:"contract"`
		Bound    string `json:"bound"`
		Known    []string `json:"known"`
	}
	var idx struct {
		Standins []entry `json:"standins"`
	}
	data, err := os.ReadFile(filepath.Join(cfg.Verif, "bounded", "index.json"))
	if err != nil {
		return nil
	}
	if err := json.Unmarshal(data, &idx); err != nil {
		fmt.Println("ENGINE-ERROR: bounded/index.json:", err)
		return nil
	}
	var viol []string
	for _, e := range idx.Standins {
		if e.Property != prop {
			continue
		}
		t0 := time.Now()
		os.Setenv("FVC_TIER", tier)
		ok, out := runOverlayTest(cfg, e.Pkg, filepath.Join(cfg.Verif, "bounded", e.File), e.Test, 900)
		cases, nontriv := 0, 0
		var fails []string
		for _, ln := range strings.Split(out, "\n") {
			ln = strings.TrimSpace(ln)
			if i := strings.Index(ln, "FVC-CASES "); i >= 0 {
				fmt.Sscanf(ln[i:], "FVC-CASES %d %d", &cases, &nontriv)
			}
			if i := strings.Index(ln, "FVC-FAIL "); i >= 0 {
				fails = append(fails, ln[i+9:])
			}
			if i := strings.Index(ln, "KNOWN-FINDING:"); i >= 0 {
				fmt.Println(ln[i:])
			}
		}
		r := map[string]any{"contract": e.Contract, "test": e.Test, "bound": e.Bound, "cases": cases, "distinct_nontrivial": nontriv, "exhaustive": true, "passed": ok, "seconds": time.Since(t0).Seconds(), "label": "bounded (not counted as proved)"}
		*rep = append(*rep, r)
		if !ok {
			dir := filepath.Join(cfg.Verif, "replays")
			_ = os.MkdirAll(dir, 0o755)
			path := filepath.Join(dir, fmt.Sprintf("%s-bounded-%s.json", prop, e.Test))
			d, _ := json.MarshalIndent(map[string]any{"property": prop, "standin": e, "failing_cases": fails, "output": truncate(out, 8000), "replayed_on_real_code": true}, "", " ")
			_ = os.WriteFile(path, d, 0o644)
			viol = append(viol, fmt.Sprintf("VIOLATION property=%s replay=%s bounded-standin=%s", prop, path, e.Test))
		}
	}
	return viol
}
