package main

// Check driver: generate and discharge the obligations of one property (or one package for
// development), triage against known findings, write evidence and replay files.

import (
	"crypto/sha1"
	"encoding/json"
	"fmt"
	"os"
	"path/filepath"
	"regexp"
	"sort"
	"strings"
	"sync"
	"time"
)

type OblResult struct {
	Obl     *Obl
	Gen     *Gen
	Res     Result
	All     []Result
	Known   *Finding
	Excepted bool
}

type Finding struct {
	Property   string          `json:"property"`
	Status     string          `json:"status"` // known | fixed
	Obligation string          `json:"obligation"`
	Except     string          `json:"except,omitempty"`
	Input      json.RawMessage `json:"input,omitempty"`
	What       string          `json:"what"`
	Commit     string          `json:"commit,omitempty"`
	Replay     string          `json:"replay,omitempty"` // test name in /verif/replay/known
}

type Findings struct {
	Findings []*Finding `json:"findings"`
}

func loadFindings(verif string) *Findings {
	var f Findings
	data, err := os.ReadFile(filepath.Join(verif, "known-findings.json"))
	if err == nil {
		_ = json.Unmarshal(data, &f)
	}
	return &f
}

func hasProp(props []string, p string) bool {
	if p == "" {
		return true
	}
	for _, x := range props {
		if x == p {
			return true
		}
	}
	return false
}

// contractMentions: does this function contract contribute obligations to property p?
func contractMentions(c *FuncContract, p string) bool {
	if p == "" || hasProp(c.Props, p) {
		return true
	}
	var all []*Clause
	all = append(all, c.Requires...)
	all = append(all, c.Ensures...)
	all = append(all, c.AtCalls...)
	for _, l := range c.Loops {
		all = append(all, l.Invs...)
	}
	for _, cl := range all {
		if hasProp(cl.Props, p) {
			return true
		}
	}
	return false
}

type RunConfig struct {
	Repo, Verif string
	Prop        string
	NoSupport   bool // vc --prop: only the tagged obligations
	Tier        string
	Timeout     int
	FuncFilter  *regexp.Regexp
	Verbose     bool
	KeepQueries bool
	AllSolvers  bool
	Workers     int
}

type RunOutput struct {
	Results    []*OblResult
	Functions  []string
	BindErrs   []string
	Notes      map[string]bool
	Assumed    map[string]bool
	NoContract map[string]bool
	MissingFn  []string
	LoadSecs   float64
	SolveSecs  float64
	Vacuous    []string
	Pkgs       []string
}

func run(cfg RunConfig, pkgPaths []string) (*RunOutput, error) {
	t0 := time.Now()
	P, err := loadProg(cfg.Repo, cfg.Verif, pkgPaths)
	if err != nil {
		return nil, err
	}
	out := &RunOutput{Notes: map[string]bool{}, Assumed: map[string]bool{}, NoContract: map[string]bool{}, Pkgs: pkgPaths}
	type job struct {
		g *Gen
		o *Obl
	}
	var jobs []job
	for _, pp := range pkgPaths {
		cs, err := P.loadContracts(pp)
		if err != nil {
			return nil, err
		}
		out.BindErrs = append(out.BindErrs, cs.Dups...)
		P.cs = cs
		var names []string
		for n := range cs.Funcs {
			names = append(names, n)
		}
		sort.Strings(names)
		pkgName := ""
		if sp := P.spkgs[pp]; sp != nil {
			pkgName = sp.Pkg.Name()
		}
		for _, n := range names {
			con := cs.Funcs[n]
			if con.Assumed || con.Pkg != pkgName || !isContractFile(filepath.Base(con.File)) {
				continue
			}
			if filepath.Dir(con.File) != filepath.Join(cfg.Repo, strings.TrimPrefix(strings.TrimPrefix(pp, modPath), "/")) {
				continue
			}
			if !contractMentions(con, cfg.Prop) {
				continue
			}
			if cfg.FuncFilter != nil && !cfg.FuncFilter.MatchString(n) {
				continue
			}
			fn := P.funcs[n]
			if fn == nil || len(fn.Blocks) == 0 {
				out.MissingFn = append(out.MissingFn, n)
				out.BindErrs = append(out.BindErrs, fmt.Sprintf("binding failure: contract %s (%s) names no function in the current tree", n, con.Where))
				continue
			}
			g := P.genFunction(fn, con)
			out.Functions = append(out.Functions, n)
			out.BindErrs = append(out.BindErrs, g.errs...)
			for k := range g.notes {
				out.Notes[k] = true
			}
			for k := range g.assumedUsed {
				out.Assumed[k] = true
			}
			for k := range g.noContract {
				out.NoContract[k] = true
			}
			for _, ac := range con.AtCalls {
				if !g.atcallSeen[ac] {
					out.BindErrs = append(out.BindErrs, fmt.Sprintf("binding failure: atcall %s in %s (%s) matches no call site", ac.Callee, n, ac.Where))
				}
			}
			// every obligation is assumed once asserted, so an obligation counted for the property rests on all
			// obligations generated before it in the same function: those are checked with it ("supporting")
			lastTagged := -1
			for i, o := range g.obls {
				if hasProp(o.Props, cfg.Prop) {
					lastTagged = i
				}
			}
			for i, o := range g.obls {
				if hasProp(o.Props, cfg.Prop) {
					jobs = append(jobs, job{g, o})
				} else if i < lastTagged && cfg.Prop != "" && !cfg.NoSupport {
					o.Support = true
					jobs = append(jobs, job{g, o})
				}
			}
			// vacuity guard: a planted `assert false` at the function's exits must not be provable
			if len(g.retBlocks) > 0 {
				v := &Obl{Name: g.name + "/vacuity:exit-reachable", Kind: "vacuity", Hyp: or(g.retBlocks...), Goal: "false", SkGoal: "false", NDefs: len(g.defs), Fn: g.name, Vacuity: true, Props: con.Props}
				jobs = append(jobs, job{g, v})
			}
		}
	}
	out.LoadSecs = time.Since(t0).Seconds()
	// discharge
	qdir, err := os.MkdirTemp("", "fvcq")
	if err != nil {
		return nil, err
	}
	if !cfg.KeepQueries {
		defer os.RemoveAll(qdir)
	} else {
		fmt.Println("queries in", qdir)
	}
	t1 := time.Now()
	res := make([]*OblResult, len(jobs))
	var wg sync.WaitGroup
	sem := make(chan struct{}, cfg.Workers)
	files := make([]string, len(jobs))
	for i, j := range jobs {
		wg.Add(1)
		sem <- struct{}{}
		go func() {
			defer wg.Done()
			defer func() { <-sem }()
			f := writeQuery(qdir, fmt.Sprintf("q%04d", i), j.g.query(j.o, "", false))
			files[i] = f
			secs := cfg.Timeout
			if j.o.Vacuity {
				secs = 3
				if cfg.Tier == "thorough" {
					secs = 15
				}
			}
			var r Result
			var all []Result
			if j.o.Vacuity {
				r = runSolver(solvers[0], f, secs) // a planted assert-false: one short attempt, no race
				all = []Result{r}
			} else {
				r, all = solve(f, secs, cfg.AllSolvers)
			}
			res[i] = &OblResult{Obl: j.o, Gen: j.g, Res: r, All: all}
		}()
	}
	wg.Wait()
	// A `timeout` is not a verdict: under machine load an obligation that needs a few seconds alone can run out of its
	// budget while 16 workers race several solvers each. Such obligations (at most 12) are tried again when the machine is
	// quiet - three at a time, four times the budget. Only an `unsat` (a proof) changes anything; this can never hide a failure.
	{
		var again []int
		for i, r := range res {
			if r != nil && !r.Obl.Vacuity && r.Res.Status == "timeout" && len(again) < 12 {
				again = append(again, i)
			}
		}
		sem2 := make(chan struct{}, 3)
		var wg2 sync.WaitGroup
		for _, i := range again {
			wg2.Add(1)
			sem2 <- struct{}{}
			go func() {
				defer wg2.Done()
				defer func() { <-sem2 }()
				r, all := solve(files[i], 4*cfg.Timeout, cfg.AllSolvers)
				if r.Status == "unsat" {
					res[i].Res = r
					res[i].All = append(res[i].All, all...)
				}
			}()
		}
		wg2.Wait()
	}
	out.SolveSecs = time.Since(t1).Seconds()
	for _, r := range res {
		if r.Obl.Vacuity {
			if r.Res.Status == "unsat" {
				out.Vacuous = append(out.Vacuous, r.Obl.Fn)
			}
			continue
		}
		out.Results = append(out.Results, r)
	}
	return out, nil
}

func oblHash(name string) string {
	h := sha1.Sum([]byte(name))
	return fmt.Sprintf("%x", h[:6])
}

// exceptHyp evaluates a known finding's `except` predicate at function entry.
func exceptHyp(g *Gen, except string) (string, error) {
	n, err := parseExpr(except)
	if err != nil {
		return "", err
	}
	env := g.fnEnv(nil)
	env.st = g.entryState
	env.old = g.entryState
	nd := len(g.defs)
	t, err := g.evalBool(n, env)
	if err != nil {
		return "", err
	}
	// definitions created while evaluating (string literals) are made visible to every query
	extra := g.defs[nd:]
	g.defs = g.defs[:nd]
	g.preDefs = append(g.preDefs, extra...)
	return t, nil
}

func cmdVC(args []string) int {
	cfg := RunConfig{Repo: envOr("FVC_REPO", "/repo"), Verif: envOr("FVC_VERIF", "/verif"), Timeout: 10, Workers: 16}
	var pkgs []string
	for i := 0; i < len(args); i++ {
		switch args[i] {
		case "--func":
			i++
			cfg.FuncFilter = regexp.MustCompile(args[i])
		case "--prop":
			i++
			cfg.Prop = args[i]
		case "--timeout":
			i++
			fmt.Sscan(args[i], &cfg.Timeout)
		case "-v":
			cfg.Verbose = true
		case "--keep":
			cfg.KeepQueries = true
		case "--all":
			cfg.AllSolvers = true
		default:
			p := args[i]
			if !strings.HasPrefix(p, "github.com") {
				if p == "." || p == "fiber" {
					p = modPath
				} else {
					p = modPath + "/" + p
				}
			}
			pkgs = append(pkgs, p)
		}
	}
	out, err := run(cfg, pkgs)
	if err != nil {
		fmt.Println("ENGINE-ERROR:", err)
		return 2
	}
	fail := 0
	for _, r := range out.Results {
		if r.Res.Status != "unsat" || cfg.Verbose {
			fmt.Printf("%-8s %-6s %5.2fs  %s   [%s] @%s\n", r.Res.Status, r.Res.Solver, r.Res.Seconds, r.Obl.Name, r.Obl.Where, r.Obl.Code)
		}
		if r.Res.Status != "unsat" {
			fail++
		}
	}
	for _, e := range out.BindErrs {
		fmt.Println("BIND:", e)
	}
	for _, v := range out.Vacuous {
		fmt.Println("VACUOUS:", v)
	}
	if cfg.Verbose {
		for n := range out.Notes {
			fmt.Println("NOTE:", n)
		}
		for n := range out.NoContract {
			fmt.Println("NOCONTRACT:", n)
		}
	}
	fmt.Printf("functions %d, obligations %d, failed %d, load %.1fs solve %.1fs\n", len(out.Functions), len(out.Results), fail, out.LoadSecs, out.SolveSecs)
	if fail > 0 {
		return 1
	}
	return 0
}

func envOr(k, d string) string {
	if v := os.Getenv(k); v != "" {
		return v
	}
	return d
}
