package main

// Query pruning: a query carries the fixed prelude, every spec function / ghost declaration / axiom of every loaded
// contract file and every dependency spec. Most of them do not occur in a given obligation, yet they take part in the
// solvers' quantifier instantiation and preprocessing: adding an unrelated declaration to a dependency spec flipped
// hard obligations between `unsat` and `unknown`. pruneQuery keeps, of the global part, only what is connected to the
// local part (the function's path assumptions, the hypothesis and the goal) through shared symbols. Dropping
// assumptions and unused declarations is sound; the result depends only on what the obligation mentions.

import (
	"strings"
)

type smtForm struct {
	text string
	head string
	name string
	syms []string
}

func isSymChar(c byte) bool {
	return !(c == ' ' || c == '\n' || c == '\t' || c == '(' || c == ')' || c == '"' || c == ';')
}

// splitForms splits SMT-LIB text into top-level forms (comments between forms are dropped).
func splitForms(s string) []smtForm {
	var out []smtForm
	i := 0
	for i < len(s) {
		c := s[i]
		if c == ';' {
			for i < len(s) && s[i] != '\n' {
				i++
			}
			continue
		}
		if c != '(' {
			i++
			continue
		}
		st := i
		depth := 0
		var toks []string
		for i < len(s) {
			c = s[i]
			switch {
			case c == '(':
				depth++
				i++
			case c == ')':
				depth--
				i++
			case c == '"':
				i++
				for i < len(s) && s[i] != '"' {
					i++
				}
				i++
			case c == '|':
				j := i + 1
				for j < len(s) && s[j] != '|' {
					j++
				}
				toks = append(toks, s[i:j+1])
				i = j + 1
			case c == ';':
				for i < len(s) && s[i] != '\n' {
					i++
				}
			case isSymChar(c):
				j := i
				for j < len(s) && isSymChar(s[j]) && s[j] != '|' {
					j++
				}
				toks = append(toks, s[i:j])
				i = j
			default:
				i++
			}
			if depth == 0 {
				break
			}
		}
		f := smtForm{text: s[st:i]}
		if len(toks) > 0 {
			f.head = toks[0]
		}
		if len(toks) > 1 {
			f.name = toks[1]
		}
		f.syms = toks
		out = append(out, f)
	}
	return out
}

// pruneQuery returns the global part reduced to what the local part can reach.
func pruneQuery(core, global, local string) string {
	coreForms := splitForms(core)
	coreSym := map[string]bool{}
	for _, f := range coreForms {
		switch f.head {
		case "declare-fun", "declare-const", "define-fun", "define-fun-rec", "declare-sort":
			coreSym[f.name] = true
		}
	}
	forms := splitForms(global)
	declared := map[string]bool{}
	for _, f := range forms {
		switch f.head {
		case "declare-fun", "declare-const", "define-fun", "define-fun-rec":
			declared[f.name] = true
		}
	}
	relevant := map[string]bool{}
	for _, f := range splitForms(local) {
		for _, t := range f.syms {
			if declared[t] {
				relevant[t] = true
			}
		}
	}
	keep := make([]bool, len(forms))
	addSyms := func(f smtForm) {
		for _, t := range f.syms {
			if declared[t] {
				relevant[t] = true
			}
		}
	}
	for changed := true; changed; {
		changed = false
		for i, f := range forms {
			if keep[i] {
				continue
			}
			switch f.head {
			case "define-fun", "define-fun-rec":
				if relevant[f.name] {
					keep[i] = true
					addSyms(f)
					changed = true
				}
			case "assert":
				own, hit := false, false
				for _, t := range f.syms {
					if declared[t] && !coreSym[t] {
						own = true
						if relevant[t] {
							hit = true
						}
					}
				}
				if !own || hit {
					keep[i] = true
					addSyms(f)
					changed = true
				}
			case "declare-fun", "declare-const":
				// decided at the end
			default:
				keep[i] = true // datatypes, sorts, options
			}
		}
	}
	var b strings.Builder
	for i, f := range forms {
		switch f.head {
		case "declare-fun", "declare-const":
			if !relevant[f.name] {
				continue
			}
		default:
			if !keep[i] {
				continue
			}
		}
		b.WriteString(f.text)
		b.WriteString("\n")
	}
	return b.String()
}
