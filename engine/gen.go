package main

// VC generator core: per-function passive program over go/ssa, versioned mutable state
// (per-field heaps, element heaps, cell heaps, ghost variables), loop cutting at invariants.

import (
	"fmt"
	"regexp"
	"sync"
	"go/constant"
	"go/token"
	"go/types"
	"sort"
	"strings"

	"golang.org/x/tools/go/ssa"
)

type Term struct {
	S     string
	Sort  string
	T     types.Type
	Tuple []Term
}

type Addr struct {
	Heap string // state variable name
	Base string // ref term
	Idx  string // index term ("" for field/cell heaps)
	Sort string // sort of the stored value
	T    types.Type
}

type State map[string]string

type opaqueLoad struct {
	st   State
	base string
	t    types.Type
}

type Obl struct {
	Name   string
	Kind   string
	Label  string
	Props  []string
	Hyp    string
	Goal   string
	SkGoal string
	Code   string
	NDefs  int
	Block  int
	Where  string
	Text   string
	Fn     string
	Vacuity bool // planted assert-false: must NOT be unsat
	Support bool // not tagged with the property under check, but assumed by an obligation that is
}

type Gen struct {
	P     *Prog
	fn    *ssa.Function
	name  string
	con   *FuncContract
	vals  map[ssa.Value]Term
	addrs map[ssa.Value]Addr
	decl  map[string]string
	dord  []string
	dtypes []string // datatype declarations in order
	dtSeen map[string]bool
	defs  []string
	obls  []*Obl
	cur   State
	svSort map[string]string
	exit  map[*ssa.BasicBlock]State
	reach map[*ssa.BasicBlock]string
	curReach string
	curBlock *ssa.BasicBlock
	fresh int
	notes map[string]bool // outside-subset / dropped notes
	assumedUsed map[string]bool
	// loops
	heads    map[*ssa.BasicBlock]int
	loopBody map[*ssa.BasicBlock]map[*ssa.BasicBlock]bool
	blockWrites map[*ssa.BasicBlock]map[string]bool // from pass 1
	pass1    *Gen
	decr     map[*ssa.BasicBlock]string
	headState map[*ssa.BasicBlock]State
	// defers
	defers []*deferRec
	strlits map[string]string
	closures map[ssa.Value]*ssa.MakeClosure
	callNo map[string]int
	errs []string
	entryState State
	debug      map[string][]dbgRec
	allocBound *Clause
	iterKey    map[*ssa.Range]string
	retBlocks  []string
	usedFns    map[string]bool
	lastType   map[string]types.Type
	specMode   bool
	atcallSeen map[*Clause]bool
	noContract map[string]bool
	heapModule map[string]bool
	specText   string
	recording  bool
	preDefs    []string
	stableFV   map[*ssa.FreeVar]bool
	cloBind    map[string]ssa.Value
	stableLoc  map[*ssa.Alloc]bool
	curStore   *storeRec
	// opaqueSrc: for an opaque (non-transparent) struct value obtained by a whole-struct load, where it was loaded from
	// (state snapshot + object ref), so that a later whole-struct store of the same SSA value copies field by field
	opaqueSrc map[ssa.Value]*opaqueLoad
	curOpaque *opaqueLoad
	zeroing   bool // storeValue is writing the zero value of a fresh allocation
	curCode    string
	preAlloc   string
	wfSeen     map[string]bool
	defBlk     []int // block index in which each def was emitted (-1: before the first block)
	ancCache   map[int]map[int]bool
	ancMu      sync.Mutex
	storeRecs  map[*ssa.BasicBlock]map[string][]storeRec // precise single-location stores per block and heap
	imprecise  map[*ssa.BasicBlock]map[string]bool
	defTag     map[int][]string // assumptions that stem from a clause restricted to some properties ([C01] label: ...)
}

type storeRec struct {
	base    string
	baseVal ssa.Value
	whole   bool // a whole-struct store (several field heaps, nested bases): only usable for loop-local reasoning
}

type deferRec struct {
	call *ssa.Defer
	flag string // state var name (Bool)
}

func (g *Gen) note(s string) { g.notes[s] = true }

func (g *Gen) declare(name, srt string) string {
	if _, ok := g.decl[name]; !ok {
		g.decl[name] = srt
		g.dord = append(g.dord, name)
	}
	return name
}

func (g *Gen) newConst(pfx, srt string) string {
	g.fresh++
	return g.declare(fmt.Sprintf("%s!%d", pfx, g.fresh), srt)
}

func (g *Gen) assumeRaw(s string) { g.defs = append(g.defs, "(assert "+s+")") }

// syncDefBlk tags the defs emitted since the last call with the current block.
func (g *Gen) syncDefBlk() {
	tag := -1
	if g.curBlock != nil {
		tag = g.curBlock.Index
	}
	for len(g.defBlk) < len(g.defs) {
		g.defBlk = append(g.defBlk, tag)
	}
}

// ancestors: blocks from which b is reachable along forward edges (back edges are cut), including b.
func (g *Gen) ancestors(b int) map[int]bool {
	g.ancMu.Lock()
	defer g.ancMu.Unlock()
	if g.ancCache == nil {
		g.ancCache = map[int]map[int]bool{}
	}
	if a, ok := g.ancCache[b]; ok {
		return a
	}
	a := map[int]bool{b: true}
	var stack []*ssa.BasicBlock
	for _, bb := range g.fn.Blocks {
		if bb.Index == b {
			stack = append(stack, bb)
		}
	}
	for len(stack) > 0 {
		x := stack[len(stack)-1]
		stack = stack[:len(stack)-1]
		for _, p := range x.Preds {
			if x.Dominates(p) { // back edge
				continue
			}
			if !a[p.Index] {
				a[p.Index] = true
				stack = append(stack, p)
			}
		}
	}
	g.ancCache[b] = a
	return a
}
func (g *Gen) assume(s string) {
	if s == "true" {
		return
	}
	g.assumeRaw(imp(g.curReach, s))
}

// assumeTagged: an assumption that stems from a clause restricted to some properties. Obligations tagged with other
// properties only do not get it (fewer assumptions: sound); it keeps the clauses one property adds to a shared function
// from slowing down - or silently supporting - the obligations of another.
func (g *Gen) assumeTagged(s string, props []string) {
	if s == "true" {
		return
	}
	if len(props) > 0 {
		if g.defTag == nil {
			g.defTag = map[int][]string{}
		}
		g.defTag[len(g.defs)] = props
	}
	g.assume(s)
}

// ---- sorts -------------------------------------------------------------------------------

func sanitize(s string) string {
	var b strings.Builder
	for _, r := range s {
		switch {
		case r >= 'a' && r <= 'z', r >= 'A' && r <= 'Z', r >= '0' && r <= '9', r == '_':
			b.WriteRune(r)
		case r == '*':
			b.WriteString("p_")
		case r == '[':
			b.WriteString("L")
		case r == ']':
			b.WriteString("J")
		default:
			b.WriteRune('_')
		}
	}
	return b.String()
}

var reByte = regexp.MustCompile(`\bbyte\b`)
var reRune = regexp.MustCompile(`\brune\b`)

// typeKey names the heap of a type; the aliases byte/rune are normalised to uint8/int32 so that
// []byte and []uint8 share one element heap.
func typeKey(t types.Type) string {
	s := types.TypeString(t, func(p *types.Package) string { return p.Name() })
	s = reByte.ReplaceAllString(s, "uint8")
	s = reRune.ReplaceAllString(s, "int32")
	return sanitize(s)
}

var reHeapByte = regexp.MustCompile(`(^|[_LJ])byte($|[_J])`)

// normHeapName maps heap names written with the old alias spelling (E_byte, C_LJbyte) to the normalised ones.
func normHeapName(n string) string {
	for reHeapByte.MatchString(n) {
		n = reHeapByte.ReplaceAllString(n, "${1}uint8${2}")
	}
	return n
}

func isModulePkg(p *types.Package) bool {
	return p != nil && strings.HasPrefix(p.Path(), "github.com/gofiber/fiber/v3")
}

// structInfo returns the named struct (if any) and the underlying struct type.
func structOf(t types.Type) (*types.Struct, bool) {
	s, ok := t.Underlying().(*types.Struct)
	return s, ok
}

func (g *Gen) sortOf(t types.Type) string {
	switch u := t.Underlying().(type) {
	case *types.Basic:
		switch {
		case u.Info()&types.IsBoolean != 0:
			return "Bool"
		case u.Info()&types.IsString != 0:
			return "Str"
		case u.Info()&types.IsFloat != 0:
			return "Real"
		}
		return "Int"
	case *types.Slice:
		return "Slc"
	case *types.Struct:
		return g.structSort(t)
	}
	return "Int"
}

func (g *Gen) structTransparent(t types.Type) bool {
	st, ok := structOf(t)
	if !ok || st.NumFields() == 0 || st.NumFields() > 24 {
		return false
	}
	if n, ok := t.(*types.Named); ok {
		return isModulePkg(n.Obj().Pkg())
	}
	return true
}

func (g *Gen) structSort(t types.Type) string {
	if !g.structTransparent(t) {
		return "Int"
	}
	st, _ := structOf(t)
	name := "S_" + typeKey(t)
	if len(name) > 60 {
		name = fmt.Sprintf("S_anon%d", len(g.dtSeen))
	}
	if g.dtSeen[name] {
		return name
	}
	g.dtSeen[name] = true
	var fs []string
	for i := 0; i < st.NumFields(); i++ {
		fs = append(fs, fmt.Sprintf("(%s!%s %s)", name, fieldName(st, i), g.sortOf(st.Field(i).Type())))
	}
	g.dtypes = append(g.dtypes, fmt.Sprintf("(declare-datatypes ((%s 0)) (((mk!%s %s))))", name, name, strings.Join(fs, " ")))
	return name
}

func fieldName(st *types.Struct, i int) string {
	n := st.Field(i).Name()
	if n == "_" {
		return fmt.Sprintf("blank%d", i)
	}
	return n
}

func intRange(t types.Type) (lo, hi string, ok bool) {
	b, isB := t.Underlying().(*types.Basic)
	if !isB {
		return
	}
	switch b.Kind() {
	case types.Int, types.Int64:
		return "(- 9223372036854775808)", "9223372036854775807", true
	case types.Int32:
		return "(- 2147483648)", "2147483647", true
	case types.Int16:
		return "(- 32768)", "32767", true
	case types.Int8:
		return "(- 128)", "127", true
	case types.Uint, types.Uint64, types.Uintptr:
		return "0", "18446744073709551615", true
	case types.Uint32:
		return "0", "4294967295", true
	case types.Uint16:
		return "0", "65535", true
	case types.Uint8:
		return "0", "255", true
	}
	return
}

func uintWidth(t types.Type) (string, bool) {
	b, isB := t.Underlying().(*types.Basic)
	if !isB || b.Info()&types.IsUnsigned == 0 {
		return "", false
	}
	switch b.Kind() {
	case types.Uint, types.Uint64, types.Uintptr:
		return "18446744073709551616", true
	case types.Uint32:
		return "4294967296", true
	case types.Uint16:
		return "65536", true
	case types.Uint8:
		return "256", true
	}
	return "", false
}

// typeInv returns the range / well-formedness assumption for a term of Go type t.
func (g *Gen) typeInv(s string, t types.Type) string {
	if lo, hi, ok := intRange(t); ok {
		return fmt.Sprintf("(and (<= %s %s) (<= %s %s))", lo, s, s, hi)
	}
	if _, ok := t.Underlying().(*types.Slice); ok {
		return fmt.Sprintf("(and (<= 0 (soff %s)) (<= 0 (slen %s)) (<= (slen %s) (scap %s)) (=> (= (sarr %s) 0) (= (scap %s) 0)))", s, s, s, s, s, s)
	}
	return "true"
}

// ---- state -------------------------------------------------------------------------------

func (g *Gen) sv(name, srt string) string {
	if s, ok := g.svSort[name]; !ok {
		g.svSort[name] = srt
		g.declare(name+"!0", srt)
		if strings.HasPrefix(name, "$called_") {
			g.preDefs = append(g.preDefs, "(assert (not "+name+"!0))")
		}
		if name == "E_uint8" {
			g.preDefs = append(g.preDefs, "(assert "+byteHeapRange(name+"!0")+")")
		}
	} else if s != srt && srt != "" {
		g.errs = append(g.errs, fmt.Sprintf("state var %s used at sorts %s and %s", name, s, srt))
	}
	if s, ok := g.cur[name]; ok {
		return s
	}
	return name + "!0"
}

func (g *Gen) svIn(st State, name, srt string) string {
	if _, ok := g.svSort[name]; !ok {
		g.svSort[name] = srt
		g.declare(name+"!0", srt)
		if strings.HasPrefix(name, "$called_") {
			g.preDefs = append(g.preDefs, "(assert (not "+name+"!0))")
		}
		if name == "E_uint8" {
			g.preDefs = append(g.preDefs, "(assert "+byteHeapRange(name+"!0")+")")
		}
	}
	if s, ok := st[name]; ok {
		return s
	}
	return name + "!0"
}

func (g *Gen) noteWrite(name string) {
	if g.curBlock == nil {
		return
	}
	if g.curStore != nil && g.curStore.base != "" {
		if g.storeRecs[g.curBlock] == nil {
			g.storeRecs[g.curBlock] = map[string][]storeRec{}
		}
		g.storeRecs[g.curBlock][name] = append(g.storeRecs[g.curBlock][name], *g.curStore)
		return
	}
	if g.imprecise[g.curBlock] == nil {
		g.imprecise[g.curBlock] = map[string]bool{}
	}
	g.imprecise[g.curBlock][name] = true
}

func (g *Gen) setSV(name, srt, term string) {
	g.noteWrite(name)
	g.sv(name, srt)
	nv := g.newConst(name, g.svSort[name])
	g.assumeRaw(fmt.Sprintf("(= %s %s)", nv, term))
	g.cur[name] = nv
}

func (g *Gen) havocSV(name, srt string) string {
	g.noteWrite(name)
	g.sv(name, srt)
	nv := g.newConst(name, g.svSort[name])
	g.cur[name] = nv
	if name == "E_uint8" {
		g.assumeRaw(byteHeapRange(nv))
	}
	return nv
}

// byteHeapRange: every cell of a byte array holds a byte. Stated for the initial and for every havocked incarnation of
// the byte element heap (incarnations defined by stores inherit it: stored values are bytes); the b2s axiom of the
// prelude reads a cell as a character only when it is in range.
func byteRowRange(row string) string {
	return fmt.Sprintf("(forall ((i Int)) (! (and (<= 0 (select %s i)) (< (select %s i) 256)) :pattern ((select %s i))))", row, row, row)
}

func byteHeapRange(h string) string {
	return fmt.Sprintf("(forall ((r Int) (i Int)) (! (and (<= 0 (select (select %s r) i)) (< (select (select %s r) i) 256)) :pattern ((select (select %s r) i))))", h, h, h)
}

func copyState(s State) State {
	n := State{}
	for k, v := range s {
		n[k] = v
	}
	return n
}

// havocAll havocs every state variable known so far (and known from pass 1) except lock/alloc ghosts.
func (g *Gen) havocAll(except func(string) bool) {
	before := copyState(g.cur)
	defer g.restoreStable(before)
	names := map[string]string{}
	for n, s := range g.svSort {
		names[n] = s
	}
	if g.pass1 != nil {
		for n, s := range g.pass1.svSort {
			names[n] = s
		}
	}
	var ns []string
	for n := range names {
		ns = append(ns, n)
	}
	sort.Strings(ns)
	for _, n := range ns {
		if strings.HasPrefix(n, "$") || (except != nil && except(n)) {
			continue
		}
		g.havocSV(n, names[n])
	}
	g.havocSV("$wild", "Bool")
}

// ---- heap names --------------------------------------------------------------------------

func (g *Gen) fieldHeap(structT types.Type, idx int) (name, valSort string, ft types.Type) {
	st, _ := structOf(structT)
	f := st.Field(idx)
	name = "H_" + typeKey(structT) + "_" + fieldName(st, idx)
	if n, ok := structT.(*types.Named); ok {
		g.heapModule[name] = isModulePkg(n.Obj().Pkg())
	} else {
		g.heapModule[name] = true
	}
	return name, g.sortOf(f.Type()), f.Type()
}

func (g *Gen) elemHeap(elemT types.Type) (string, string) {
	return "E_" + typeKey(elemT), g.sortOf(elemT)
}

func (g *Gen) cellHeap(t types.Type) (string, string) {
	return "C_" + typeKey(t), g.sortOf(t)
}

func (g *Gen) load(a Addr) string {
	return g.loadIn(g.cur, a)
}

func (g *Gen) loadIn(st State, a Addr) string {
	if a.Idx == "" {
		h := g.svIn(st, a.Heap, "(Array Int "+a.Sort+")")
		return fmt.Sprintf("(select %s %s)", h, a.Base)
	}
	h := g.svIn(st, a.Heap, "(Array Int (Array Int "+a.Sort+"))")
	return fmt.Sprintf("(select (select %s %s) %s)", h, a.Base, a.Idx)
}

func (g *Gen) store(a Addr, val string) {
	if a.Idx == "" {
		srt := "(Array Int " + a.Sort + ")"
		h := g.sv(a.Heap, srt)
		g.setSV(a.Heap, srt, fmt.Sprintf("(store %s %s %s)", h, a.Base, val))
		return
	}
	srt := "(Array Int (Array Int " + a.Sort + "))"
	h := g.sv(a.Heap, srt)
	g.setSV(a.Heap, srt, fmt.Sprintf("(store %s %s (store (select %s %s) %s %s))", h, a.Base, h, a.Base, a.Idx, val))
	if a.Heap == "E_uint8" {
		// the byte range invariant carries over to the incarnation defined by this store when the stored value is a
		// byte (the previous incarnation has the invariant: a consequence of array semantics, stated so that the
		// solver need not re-derive it cell by cell)
		g.assumeRaw(fmt.Sprintf("(=> (and (<= 0 %s) (< %s 256)) %s)", val, val, byteHeapRange(g.cur[a.Heap])))
	}
}

// subref: reference of a by-value struct/array field embedded in the object at base.
func (g *Gen) subref(structT types.Type, idx int, base string) string {
	st, _ := structOf(structT)
	fn := "sub!" + typeKey(structT) + "!" + fieldName(st, idx)
	if _, ok := g.decl[fn]; !ok {
		g.decl[fn] = "fun:(Int) Int"
		g.dord = append(g.dord, fn)
		g.preDefs = append(g.preDefs, fmt.Sprintf("(assert (forall ((r Int)) (! (=> (not (= r 0)) (not (= (%s r) 0))) :pattern ((%s r)))))", fn, fn))
		// embedded objects are distinct from each other, from allocated objects and from slice elements
		inv := "subinv" + strings.TrimPrefix(fn, "sub")
		g.decl[inv] = "fun:(Int) Int"
		g.dord = append(g.dord, inv)
		g.preDefs = append(g.preDefs, fmt.Sprintf("(assert (forall ((r Int)) (! (and (= (%s (%s r)) r) (= (subtag (%s r)) %d) (= (rootof (%s r)) (rootof r))) :pattern ((%s r)))))", inv, fn, fn, g.P.typeID2("subref:"+fn), fn, fn))
	}
	return fmt.Sprintf("(%s %s)", fn, base)
}

// addrOf gives the address descriptor for a pointer-typed SSA value.
func (g *Gen) addrOf(v ssa.Value) Addr {
	if a, ok := g.addrs[v]; ok {
		return a
	}
	pt, ok := v.Type().Underlying().(*types.Pointer)
	if !ok {
		return Addr{Heap: "C_bad", Base: g.term(v).S, Sort: "Int"}
	}
	et := pt.Elem()
	h, s := g.cellHeap(et)
	return Addr{Heap: h, Base: g.term(v).S, Sort: s, T: et}
}

// loadValue loads a value of type t stored at address a (struct values field-wise).
func (g *Gen) loadValueIn(st State, a Addr, t types.Type, depth int) string {
	if stt, ok := structOf(t); ok {
		if !g.structTransparent(t) || depth > 3 {
			if a.Base != "" {
				return g.loadIn(st, Addr{Heap: "O_" + typeKey(t), Base: a.Base, Sort: "Int"})
			}
			return ""
		}
		srt := g.structSort(t)
		var fs []string
		for i := 0; i < stt.NumFields(); i++ {
			hn, vs, ft := g.fieldHeap(t, i)
			if _, isSt := structOf(ft); isSt {
				sub := g.loadValueIn(st, Addr{Base: g.subref(t, i, a.Base)}, ft, depth+1)
				if sub == "" {
					sub = g.newConst("opaque", g.sortOf(ft))
				}
				fs = append(fs, sub)
				continue
			}
			fs = append(fs, g.loadIn(st, Addr{Heap: hn, Base: a.Base, Sort: vs}))
		}
		return fmt.Sprintf("(mk!%s %s)", srt, strings.Join(fs, " "))
	}
	return g.loadIn(st, a)
}

func (g *Gen) storeValue(a Addr, t types.Type, val string, depth int) {
	if stt, ok := structOf(t); ok {
		if !g.structTransparent(t) || depth > 3 {
			// opaque (foreign) struct value: one token per object, 0 = the zero value
			// the Int value of an opaque struct IS its token (0 = the zero value)
			g.store(Addr{Heap: "O_" + typeKey(t), Base: a.Base, Sort: "Int"}, val)
			// the fields of the destination are overwritten as well: their per-field heaps (read by x.f) must not keep
			// the values from before the copy. The copied value is opaque, so they become unknown (sound; found by a
			// contract-writing agent: `*dst = src` of a fiber.Config left dst.TrustProxy at its old value).
			if src := g.curOpaque; src != nil && depth == 0 && src.base != "" && a.Base != "" && types.Identical(src.t, t) {
				// the value is the one loaded from src.base in state src.st: copy field by field (what the Go assignment does)
				g.copyFields(a.Base, src.base, src.st, t, 0)
				return
			}
			if g.zeroing {
				// the zero value of a freshly allocated object: the nested object's fields are zero as well
				g.zeroFields(a.Base, t, depth)
				return
			}
			g.havocFields(a.Base, t, depth)
			return
		}
		srt := g.structSort(t)
		for i := 0; i < stt.NumFields(); i++ {
			hn, vs, ft := g.fieldHeap(t, i)
			acc := fmt.Sprintf("(%s!%s %s)", srt, fieldName(stt, i), val)
			if _, isSt := structOf(ft); isSt {
				g.storeValue(Addr{Base: g.subref(t, i, a.Base)}, ft, acc, depth+1)
				continue
			}
			g.store(Addr{Heap: hn, Base: a.Base, Sort: vs}, acc)
		}
		return
	}
	g.store(a, val)
}

// havocFields makes every field of the struct object at base unknown (nested struct fields included).
func (g *Gen) havocFields(base string, t types.Type, depth int) {
	stt, ok := structOf(t)
	if !ok || base == "" || depth > 5 || stt.NumFields() > 300 {
		return
	}
	for i := 0; i < stt.NumFields(); i++ {
		hn, vs, ft := g.fieldHeap(t, i)
		if _, isSt := structOf(ft); isSt {
			sub := g.subref(t, i, base)
			g.store(Addr{Heap: "O_" + typeKey(ft), Base: sub, Sort: "Int"}, g.newConst("hv", "Int"))
			g.havocFields(sub, ft, depth+1)
			continue
		}
		g.store(Addr{Heap: hn, Base: base, Sort: vs}, g.newConst("hv", vs))
	}
}

// zeroFields: every scalar field of the freshly allocated struct object at base holds its zero value (nested structs of
// this module included; array-typed fields and foreign nested structs are left unknown).
func (g *Gen) zeroFields(base string, t types.Type, depth int) {
	stt, ok := structOf(t)
	if !ok || base == "" || depth > 5 || stt.NumFields() > 300 {
		return
	}
	for i := 0; i < stt.NumFields(); i++ {
		hn, vs, ft := g.fieldHeap(t, i)
		switch fu := ft.Underlying().(type) {
		case *types.Array:
			continue
		case *types.Struct:
			if n, ok := ft.(*types.Named); ok && !isModulePkg(n.Obj().Pkg()) {
				continue
			}
			_ = fu
			g.zeroFields(g.subref(t, i, base), ft, depth+1)
			continue
		}
		g.store(Addr{Heap: hn, Base: base, Sort: vs}, g.zero(ft))
	}
}

// copyFields: the struct object at dst receives, field by field, the values the object at src held in state st
// (whole-struct copy `*dst = *src` of a struct that is too large for a datatype value).
func (g *Gen) copyFields(dst, src string, st State, t types.Type, depth int) {
	stt, ok := structOf(t)
	if !ok || depth > 5 || stt.NumFields() > 300 {
		g.havocFields(dst, t, depth)
		return
	}
	// all source values are read first (dst and src may be the same object)
	type wr struct {
		a Addr
		v string
	}
	var ws []wr
	var rec func(dst, src string, t types.Type, depth int)
	rec = func(dst, src string, t types.Type, depth int) {
		stt, _ := structOf(t)
		for i := 0; i < stt.NumFields(); i++ {
			hn, vs, ft := g.fieldHeap(t, i)
			if sst, isSt := structOf(ft); isSt {
				ds, ss := g.subref(t, i, dst), g.subref(t, i, src)
				oh := "O_" + typeKey(ft)
				ws = append(ws, wr{Addr{Heap: oh, Base: ds, Sort: "Int"}, g.loadIn(st, Addr{Heap: oh, Base: ss, Sort: "Int"})})
				if depth < 5 && sst.NumFields() <= 300 {
					rec(ds, ss, ft, depth+1)
				} else {
					g.havocFields(ds, ft, depth+1)
				}
				continue
			}
			ws = append(ws, wr{Addr{Heap: hn, Base: dst, Sort: vs}, g.loadIn(st, Addr{Heap: hn, Base: src, Sort: vs})})
		}
	}
	rec(dst, src, t, depth)
	for _, w := range ws {
		g.store(w.a, w.v)
	}
}

// structBase: for a pointer-to-struct address, the object's ref.
func structBase(a Addr) string { return a.Base }

// ---- values ------------------------------------------------------------------------------

func (g *Gen) strLit(s string) string {
	if n, ok := g.strlits[s]; ok {
		return n
	}
	if s == "" {
		g.strlits[s] = "emptystr"
		return "emptystr"
	}
	n := g.declare(fmt.Sprintf("lit!%d!%s", len(g.strlits), sanitize(truncate(s, 16))), "Str")
	g.strlits[s] = n
	g.preDefs = append(g.preDefs, fmt.Sprintf("(assert (= (len %s) %d))", n, len(s)))
	if len(s) <= 64 {
		var cs []string
		for i := 0; i < len(s); i++ {
			cs = append(cs, fmt.Sprintf("(= (at %s %d) %d)", n, i, s[i]))
		}
		g.preDefs = append(g.preDefs, "(assert "+and(cs...)+")")
	}
	return n
}

func truncate(s string, n int) string {
	if len(s) > n {
		return s[:n]
	}
	return s
}

func (g *Gen) zero(t types.Type) string {
	switch g.sortOf(t) {
	case "Bool":
		return "false"
	case "Str":
		return "emptystr"
	case "Real":
		return "0.0"
	case "Slc":
		return "nilslc"
	case "Int":
		return "0"
	}
	if st, ok := structOf(t); ok && g.structTransparent(t) {
		var fs []string
		for i := 0; i < st.NumFields(); i++ {
			fs = append(fs, g.zero(st.Field(i).Type()))
		}
		return fmt.Sprintf("(mk!%s %s)", g.structSort(t), strings.Join(fs, " "))
	}
	return "0"
}

func (g *Gen) constTerm(c *ssa.Const) Term {
	t := c.Type()
	srt := g.sortOf(t)
	if c.Value == nil {
		return Term{S: g.zero(t), Sort: srt, T: t}
	}
	switch c.Value.Kind() {
	case constant.Bool:
		return Term{S: fmt.Sprint(constant.BoolVal(c.Value)), Sort: "Bool", T: t}
	case constant.String:
		return Term{S: g.strLit(constant.StringVal(c.Value)), Sort: "Str", T: t}
	case constant.Int:
		if srt == "Real" {
			return Term{S: smtReal(c.Value), Sort: "Real", T: t}
		}
		s := c.Value.ExactString()
		if strings.HasPrefix(s, "-") {
			s = "(- " + s[1:] + ")"
		}
		return Term{S: s, Sort: "Int", T: t}
	case constant.Float:
		if srt == "Int" {
			i, _ := constant.Int64Val(constant.ToInt(c.Value))
			return Term{S: smtInt(i), Sort: "Int", T: t}
		}
		return Term{S: smtReal(c.Value), Sort: "Real", T: t}
	}
	return Term{S: g.newConst("const", srt), Sort: srt, T: t}
}

func smtReal(v constant.Value) string {
	f := constant.ToFloat(v)
	num, den := constant.Num(f), constant.Denom(f)
	if num.Kind() == constant.Unknown {
		return "0.0"
	}
	ns, ds := num.ExactString(), den.ExactString()
	neg := strings.HasPrefix(ns, "-")
	if neg {
		ns = ns[1:]
	}
	s := fmt.Sprintf("(/ %s.0 %s.0)", ns, ds)
	if neg {
		s = "(- " + s + ")"
	}
	return s
}

func (g *Gen) term(v ssa.Value) Term {
	if t, ok := g.vals[v]; ok {
		return t
	}
	switch x := v.(type) {
	case *ssa.Const:
		return g.constTerm(x)
	case *ssa.Global:
		n := g.declare("glob!"+sanitize(x.Pkg.Pkg.Name()+"_"+x.Name()), "Int")
		t := Term{S: n, Sort: "Int", T: x.Type()}
		g.vals[v] = t
		g.assumeRaw(fmt.Sprintf("(not (= %s 0))", n))
		return t
	case *ssa.Function:
		n := g.declare("func!"+sanitize(canon(x)), "Int")
		t := Term{S: n, Sort: "Int", T: x.Type()}
		g.vals[v] = t
		g.assumeRaw(fmt.Sprintf("(not (= %s 0))", n))
		return t
	case *ssa.Builtin:
		return Term{S: "0", Sort: "Int", T: x.Type()}
	}
	// not yet defined (should not happen in RPO): havoc
	return g.define(v, "")
}

// define declares the SMT constant(s) for an SSA value and (optionally) equates it with rhs.
func (g *Gen) define(v ssa.Value, rhs string) Term {
	name := "v!" + sanitize(v.Name())
	if tup, ok := v.Type().(*types.Tuple); ok {
		t := Term{T: tup}
		for i := 0; i < tup.Len(); i++ {
			et := tup.At(i).Type()
			n := g.declare(fmt.Sprintf("%s!%d", name, i), g.sortOf(et))
			t.Tuple = append(t.Tuple, Term{S: n, Sort: g.sortOf(et), T: et})
			g.assume(g.typeInv(n, et))
		}
		g.vals[v] = t
		return t
	}
	srt := g.sortOf(v.Type())
	n := g.declare(name, srt)
	t := Term{S: n, Sort: srt, T: v.Type()}
	g.vals[v] = t
	if rhs != "" {
		g.assumeRaw(fmt.Sprintf("(= %s %s)", n, rhs))
	} else {
		g.assumeRaw(g.typeInv(n, v.Type()))
	}
	return t
}

// ---- CFG helpers -------------------------------------------------------------------------

func rpo(fn *ssa.Function) []*ssa.BasicBlock {
	seen := map[*ssa.BasicBlock]bool{}
	var post []*ssa.BasicBlock
	var dfs func(b *ssa.BasicBlock)
	dfs = func(b *ssa.BasicBlock) {
		seen[b] = true
		for _, s := range b.Succs {
			if !seen[s] && !s.Dominates(b) {
				dfs(s)
			}
		}
		post = append(post, b)
	}
	dfs(fn.Blocks[0])
	for i, j := 0, len(post)-1; i < j; i, j = i+1, j-1 {
		post[i], post[j] = post[j], post[i]
	}
	return post
}

func (g *Gen) edge(p, b *ssa.BasicBlock) string {
	r := g.reach[p]
	if iff, ok := p.Instrs[len(p.Instrs)-1].(*ssa.If); ok {
		c := g.term(iff.Cond).S
		if p.Succs[0] == b && p.Succs[1] != b {
			return and(r, c)
		}
		if p.Succs[1] == b && p.Succs[0] != b {
			return and(r, not(c))
		}
	}
	return r
}

func (g *Gen) findLoops() {
	g.heads = map[*ssa.BasicBlock]int{}
	g.loopBody = map[*ssa.BasicBlock]map[*ssa.BasicBlock]bool{}
	for _, b := range g.fn.Blocks {
		for _, p := range b.Preds {
			if b.Dominates(p) {
				if _, ok := g.heads[b]; !ok {
					g.heads[b] = len(g.heads) + 1
					g.loopBody[b] = map[*ssa.BasicBlock]bool{b: true}
				}
				// natural loop of back edge p->b
				var stack []*ssa.BasicBlock
				if !g.loopBody[b][p] {
					g.loopBody[b][p] = true
					stack = append(stack, p)
				}
				for len(stack) > 0 {
					x := stack[len(stack)-1]
					stack = stack[:len(stack)-1]
					for _, q := range x.Preds {
						if !g.loopBody[b][q] {
							g.loopBody[b][q] = true
							stack = append(stack, q)
						}
					}
				}
			}
		}
	}
}

// ---- positions ---------------------------------------------------------------------------

func (g *Gen) pos(p token.Pos) string {
	if !p.IsValid() {
		return ""
	}
	ps := g.P.fset.Position(p)
	return fmt.Sprintf("%s:%d", shortFile(ps.Filename), ps.Line)
}

func shortFile(f string) string {
	if i := strings.Index(f, "/repo/"); i >= 0 {
		return f[i+6:]
	}
	parts := strings.Split(f, "/")
	if len(parts) > 2 {
		return strings.Join(parts[len(parts)-2:], "/")
	}
	return f
}

// ---- obligations -------------------------------------------------------------------------

func (g *Gen) oblige(kind, label, goal, where, text string, props []string) {
	if goal == "true" {
		return
	}
	name := g.name + "/" + kind
	if label != "" {
		name += ":" + label
	}
	// make names unique but stable: count duplicates
	g.callNo["obl:"+name]++
	if n := g.callNo["obl:"+name]; n > 1 {
		name = fmt.Sprintf("%s#%d", name, n)
	}
	explicit := props
	if len(props) == 0 && g.con != nil {
		props = g.con.Props
	}
	g.syncDefBlk()
	blk := -1
	if g.curBlock != nil {
		blk = g.curBlock.Index
	}
	g.obls = append(g.obls, &Obl{Block: blk, Name: name, Kind: kind, Label: label, Props: props, Hyp: g.curReach, Goal: goal, SkGoal: g.skolemizeGoal(goal), NDefs: len(g.defs), Where: where, Text: text, Fn: g.name, Code: g.curCode})
	g.assumeTagged(goal, explicit)
}

func (g *Gen) safety(class, label, goal string, p token.Pos) {
	if g.con != nil && g.con.NoSafety[class] {
		return
	}
	if class == "nil" && (g.con == nil || !g.con.Safety["nil"]) {
		return
	}
	if g.con != nil && len(g.con.NoSafety) > 0 {
		// `nosafety bounds:strslice#6`: one named safety obligation is switched off (not asserted, not assumed); the
		// ordinal is still consumed so that the names of the others do not move
		name := g.name + "/safety:" + class + ":" + label
		key := class + ":" + label
		if n := g.callNo["obl:"+name] + 1; n > 1 {
			key = fmt.Sprintf("%s#%d", key, n)
		}
		if g.con.NoSafety[key] {
			g.callNo["obl:"+name]++
			g.assumedUsed["safety obligation switched off by the contract of "+g.name+": "+key+" ("+g.pos(p)+")"] = true
			return
		}
	}
	g.oblige("safety", class+":"+label, goal, g.pos(p), "", nil)
}
