package main

// Contract expression -> SMT term, evaluated in an environment (names, state, old state).

import (
	"fmt"
	"go/constant"
	"go/types"
	"sort"
	"strconv"
	"strings"

	"golang.org/x/tools/go/ssa"
)

type Env struct {
	names       map[string]Term
	st          State
	old         State
	at          ssa.Instruction
	noLocals    bool
	paramsFirst bool
	calleeMode  bool
	siblingScope bool // callee is a closure of the same lexical scope (called through a variable): captured variables are shared
	pos         bool // positive position of a clause that is being asserted: unbound disjuncts count as false
	negated     bool // directly under a `!`: an exists here is a universal statement, boundary witnesses would only add work
	sk          *skCtx // loop-invariant clause under evaluation: existentials in positive position get explicit Skolem functions
	skPos       bool   // still in positive position of that clause (&&, ||, RHS of ==>, forall bodies, macro bodies)
	skBound     []Term // universally bound variables in scope (arguments of the Skolem function)
	pkg         *types.Package
}

// skCtx: explicit skolemisation of the existentials of a loop invariant. At the loop head (assuming) `exists k. P(k)` in
// positive position is assumed as P(sk(j...)) for a Skolem function sk named after the clause (sound: skolemisation of an
// assumption); at the back edge and at the entering edges (goal) the very same term sk(j...) is added to the existential
// as one more ground witness (an equivalent formula). This hands the solver the old witness when it has to re-establish
// a forall-exists invariant ("every configured entry is listed") after an append - such obligations were decided by
// model-based instantiation only and flipped to `unknown` with unrelated changes.
type skCtx struct {
	id       string
	assuming bool
	n        int
}

func (g *Gen) fnEnv(extra map[string]Term) *Env {
	e := &Env{names: map[string]Term{}, st: g.cur, old: g.entryState, paramsFirst: true}
	if g.fn != nil && g.fn.Pkg != nil {
		e.pkg = g.fn.Pkg.Pkg
	} else if g.fn != nil && g.fn.Parent() != nil {
		p := g.fn
		for p.Parent() != nil {
			p = p.Parent()
		}
		if p.Pkg != nil {
			e.pkg = p.Pkg.Pkg
		}
	}
	for k, v := range extra {
		e.names[k] = v
	}
	return e
}

func (e *Env) clone() *Env {
	n := *e
	n.names = map[string]Term{}
	for k, v := range e.names {
		n.names[k] = v
	}
	return &n
}

func arraySorts(s string) (string, string, bool) {
	if !strings.HasPrefix(s, "(Array ") {
		return "", "", false
	}
	body := s[len("(Array ") : len(s)-1]
	d := 0
	for i := 0; i < len(body); i++ {
		switch body[i] {
		case '(':
			d++
		case ')':
			d--
		case ' ':
			if d == 0 {
				return body[:i], body[i+1:], true
			}
		}
	}
	return "", "", false
}

func (g *Gen) evalBool(n *Node, env *Env) (string, error) {
	t, err := g.eval(n, env)
	if err != nil {
		return "", err
	}
	if t.Sort != "Bool" {
		return "", fmt.Errorf("expected Bool, got %s for %s", t.Sort, n)
	}
	return t.S, nil
}

func (g *Gen) lookupLocal(name string, at ssa.Instruction, st State) (Term, bool) {
	if at == nil {
		return Term{}, false
	}
	ab := at.Block()
	aidx := -1
	for i, ins := range ab.Instrs {
		if ins == at {
			aidx = i
		}
	}
	var best *dbgRec
	for i := range g.debug[name] {
		r := &g.debug[name][i]
		if r.block == ab {
			if r.idx >= aidx {
				continue
			}
		} else if !r.block.Dominates(ab) {
			continue
		}
		if best == nil {
			best = r
			continue
		}
		if r.block == best.block {
			if r.idx > best.idx {
				best = r
			}
		} else if best.block.Dominates(r.block) {
			best = r
		}
	}
	// phis named `name` in dominating blocks (merge points) may be closer
	for b := ab; b != nil; b = b.Idom() {
		for _, ins := range b.Instrs {
			phi, ok := ins.(*ssa.Phi)
			if !ok {
				break
			}
			if phi.Comment == name {
				if _, def := g.vals[phi]; !def {
					continue
				}
				if best == nil || (best.block != b && best.block.Dominates(b)) {
					return g.term(phi), true
				}
			}
		}
		if best != nil && best.block == b {
			break
		}
	}
	if best == nil {
		return Term{}, false
	}
	if best.isAddr {
		a := g.addrOf(best.val)
		v := g.loadValueIn(st, a, a.T, 0)
		if v == "" {
			return Term{}, false
		}
		return Term{S: v, Sort: g.sortOf(a.T), T: a.T}, true
	}
	return g.term(best.val), true
}

func (g *Gen) lookupIdent(name string, env *Env) (Term, error) {
	if t, ok := env.names[name]; ok {
		return t, nil
	}
	switch name {
	case "true", "false":
		return Term{S: name, Sort: "Bool"}, nil
	case "nil":
		return Term{S: "0", Sort: "Int"}, nil
	case "emptystr":
		return Term{S: "emptystr", Sort: "Str"}, nil
	case "epoch": // the state epoch at function entry / before the call (what a pure function's value depends on)
		return Term{S: g.svIn(env.old, "$epoch", "Int"), Sort: "Int"}, nil
	case "epochNow":
		return Term{S: g.svIn(env.st, "$epoch", "Int"), Sort: "Int"}, nil
	}
	param := func() (Term, bool) {
		if g.fn == nil || env.calleeMode { // a callee clause never sees the caller's parameters
			return Term{}, false
		}
		for _, p := range g.fn.Params {
			if p.Name() == name {
				return g.term(p), true
			}
		}
		return Term{}, false
	}
	if env.paramsFirst {
		if t, ok := param(); ok {
			return t, nil
		}
	}
	isFV := false
	if g.fn != nil {
		for _, fv := range g.fn.FreeVars {
			if fv.Name() == name {
				isFV = true // captured variables always denote the cell's value in the state of the clause
			}
		}
	}
	if !env.noLocals && !env.paramsFirst && !isFV {
		if t, ok := g.lookupLocal(name, env.at, env.st); ok {
			return t, nil
		}
	}
	if t, ok := param(); ok {
		return t, nil
	}
	if !env.noLocals && env.paramsFirst && !isFV {
		if t, ok := g.lookupLocal(name, env.at, env.st); ok {
			return t, nil
		}
	}
	if g.fn != nil && (!env.calleeMode || env.siblingScope) {
		for _, fv := range g.fn.FreeVars {
			if fv.Name() == name {
				et := fv.Type().Underlying().(*types.Pointer).Elem()
				if g.finalFreeVar(fv) {
					n := "fv!" + sanitize(fv.Name())
					if _, ok := g.decl[n]; !ok {
						g.declare(n, g.sortOf(et))
						g.preDefs = append(g.preDefs, "(assert "+g.typeInv(n, et)+")")
						if isRefType(et) {
							g.preDefs = append(g.preDefs, fmt.Sprintf("(assert (or (= %s 0) (select $alloc!0 %s)))", n, n))
						}
					}
					if _, isSt := structOf(et); isSt {
						// captured struct variable: the cell itself is the struct object
						return Term{S: g.term(fv).S, Sort: "Int", T: fv.Type()}, nil
					}
					return Term{S: n, Sort: g.sortOf(et), T: et}, nil
				}
				if _, isSt := structOf(et); isSt {
					return Term{S: g.term(fv).S, Sort: "Int", T: fv.Type()}, nil
				}
				a := g.addrOf(fv)
				return Term{S: g.loadIn(env.st, a), Sort: g.sortOf(et), T: et}, nil
			}
		}
	}
	if srt, ok := g.P.cs.Ghosts[name]; ok {
		return Term{S: g.svIn(env.st, name, srt), Sort: srt}, nil
	}
	if c, ok := g.P.cs.Consts[name]; ok {
		n, err := parseExpr(c)
		if err != nil {
			return Term{}, err
		}
		return g.eval(n, env)
	}
	if env.pkg != nil {
		if obj := env.pkg.Scope().Lookup(name); obj != nil {
			return g.objTerm(obj, env)
		}
	}
	return Term{}, fmt.Errorf("unbound name %q", name)
}

func (g *Gen) objTerm(obj types.Object, env *Env) (Term, error) {
	switch o := obj.(type) {
	case *types.Const:
		v := o.Val()
		switch v.Kind() {
		case constant.Int:
			s := v.ExactString()
			if strings.HasPrefix(s, "-") {
				s = "(- " + s[1:] + ")"
			}
			return Term{S: s, Sort: "Int", T: o.Type()}, nil
		case constant.String:
			return Term{S: g.strLit(constant.StringVal(v)), Sort: "Str", T: o.Type()}, nil
		case constant.Bool:
			return Term{S: fmt.Sprint(constant.BoolVal(v)), Sort: "Bool", T: o.Type()}, nil
		}
	case *types.Func:
		// a function value: the same constant that a use of the function in code denotes
		if fn := g.P.prog.FuncValue(o); fn != nil {
			return g.term(fn), nil
		}
	case *types.Var:
		// package-level variable: cell (or struct object) at the global's reference
		n := g.declare("glob!"+sanitize(o.Pkg().Name()+"_"+o.Name()), "Int")
		if _, isSt := structOf(o.Type()); isSt {
			return Term{S: n, Sort: "Int", T: types.NewPointer(o.Type())}, nil
		}
		h, s := g.cellHeap(o.Type())
		return Term{S: g.loadIn(env.st, Addr{Heap: h, Base: n, Sort: s}), Sort: s, T: o.Type()}, nil
	}
	return Term{}, fmt.Errorf("cannot use %s in a contract", obj.Name())
}

func derefT(t types.Type) (types.Type, bool) {
	if t == nil {
		return nil, false
	}
	p, ok := t.Underlying().(*types.Pointer)
	if !ok {
		return t, false
	}
	return p.Elem(), true
}

func (g *Gen) selectField(x Term, name string, env *Env) (Term, error) {
	if len(x.Tuple) > 0 {
		i, err := strconv.Atoi(name)
		if err != nil || i >= len(x.Tuple) {
			return Term{}, fmt.Errorf("bad tuple selector .%s", name)
		}
		return x.Tuple[i], nil
	}
	if x.T == nil {
		return Term{}, fmt.Errorf("selector .%s on untyped term %s", name, x.S)
	}
	st, isPtr := derefT(x.T)
	stt, ok := structOf(st)
	if !ok {
		return Term{}, fmt.Errorf("selector .%s on non-struct %s", name, x.T)
	}
	idx := -1
	for i := 0; i < stt.NumFields(); i++ {
		if stt.Field(i).Name() == name {
			idx = i
		}
	}
	if idx < 0 {
		// promoted field through embedded structs (one level)
		for i := 0; i < stt.NumFields(); i++ {
			if stt.Field(i).Embedded() {
				inner, err := g.selectField(x, stt.Field(i).Name(), env)
				if err == nil {
					if r, err2 := g.selectField(inner, name, env); err2 == nil {
						return r, nil
					}
				}
			}
		}
		return Term{}, fmt.Errorf("no field %s in %s", name, st)
	}
	ft := stt.Field(idx).Type()
	if !isPtr {
		// struct value (datatype)
		if x.Sort == "Int" {
			return Term{}, fmt.Errorf("field %s of opaque struct value", name)
		}
		return Term{S: fmt.Sprintf("(%s!%s %s)", x.Sort, fieldName(stt, idx), x.S), Sort: g.sortOf(ft), T: ft}, nil
	}
	switch ft.Underlying().(type) {
	case *types.Struct, *types.Array:
		return Term{S: g.subref(st, idx, x.S), Sort: "Int", T: types.NewPointer(ft)}, nil
	}
	hn, vs, _ := g.fieldHeap(st, idx)
	val := g.loadIn(env.st, Addr{Heap: hn, Base: x.S, Sort: vs})
	g.assumeValueWF(val, ft)
	return Term{S: val, Sort: vs, T: ft}, nil
}

// assumeValueWF: every value stored in the heap satisfies its type's invariant (slice header well-formedness,
// integer range); stated for heap reads made by contract expressions, as instruction loads do.
func (g *Gen) assumeValueWF(val string, t types.Type) {
	if strings.Contains(val, "q!") || g.specMode { // mentions a bound variable: cannot be asserted globally
		return
	}
	if inv := g.typeInv(val, t); inv != "true" && !g.wfSeen[val] {
		g.wfSeen[val] = true
		g.assumeRaw(inv)
	}
}

func (g *Gen) indexTerm(x, i Term, env *Env) (Term, error) {
	if x.Sort == "Str" {
		return Term{S: fmt.Sprintf("(at %s %s)", x.S, i.S), Sort: "Int", T: types.Typ[types.Uint8]}, nil
	}
	if k, v, ok := arraySorts(x.Sort); ok {
		_ = k
		return Term{S: fmt.Sprintf("(select %s %s)", x.S, i.S), Sort: v}, nil
	}
	if x.T == nil {
		return Term{}, fmt.Errorf("index on untyped term")
	}
	var arr, idx string
	var et types.Type
	switch u := x.T.Underlying().(type) {
	case *types.Slice:
		arr, idx, et = fmt.Sprintf("(sarr %s)", x.S), fmt.Sprintf("(idx %s %s)", x.S, i.S), u.Elem()
	case *types.Pointer:
		at, ok := u.Elem().Underlying().(*types.Array)
		if !ok {
			return Term{}, fmt.Errorf("index on %s", x.T)
		}
		arr, idx, et = x.S, i.S, at.Elem()
	case *types.Map:
		_, mv, ks, vs := g.mapHeaps(u)
		return Term{S: fmt.Sprintf("(select (select %s %s) %s)", g.svIn(env.st, mv, "(Array Int (Array "+ks+" "+vs+"))"), x.S, i.S), Sort: vs, T: u.Elem()}, nil
	default:
		return Term{}, fmt.Errorf("index on %s", x.T)
	}
	switch et.Underlying().(type) {
	case *types.Struct, *types.Array:
		return Term{S: fmt.Sprintf("(elemref %s %s)", arr, idx), Sort: "Int", T: types.NewPointer(et)}, nil
	}
	h, s := g.elemHeap(et)
	val := g.loadIn(env.st, Addr{Heap: h, Base: arr, Idx: idx, Sort: s})
	g.assumeValueWF(val, et)
	return Term{S: val, Sort: s, T: et}, nil
}

func nodePath(n *Node) string {
	switch n.Kind {
	case "id":
		return n.Val
	case "str":
		return n.Val
	case "sel":
		return nodePath(n.Args[0]) + "." + n.Val
	case "un":
		if n.Val == "*" {
			return "(*" + nodePath(n.Args[0]) + ")"
		}
	}
	return n.String()
}

func (g *Gen) calleeKeyFromNode(n *Node, env *Env) string {
	p := nodePath(n)
	if strings.HasPrefix(p, "@") {
		return p[1:]
	}
	pkg := ""
	if g.con != nil {
		pkg = g.con.Pkg
	} else if env.pkg != nil {
		pkg = env.pkg.Name()
	}
	return pkg + "." + p
}

func coerceNum(a, b Term) (Term, Term) {
	if a.Sort == "Real" && b.Sort == "Int" {
		b = Term{S: "(to_real " + b.S + ")", Sort: "Real"}
	} else if a.Sort == "Int" && b.Sort == "Real" {
		a = Term{S: "(to_real " + a.S + ")", Sort: "Real"}
	}
	return a, b
}

func (g *Gen) eval(n *Node, env *Env) (Term, error) {
	switch n.Kind {
	case "id":
		return g.lookupIdent(n.Val, env)
	case "int":
		v, err := strconv.ParseInt(n.Val, 0, 64)
		if err != nil {
			u, err2 := strconv.ParseUint(n.Val, 0, 64)
			if err2 != nil {
				return Term{}, err
			}
			return Term{S: fmt.Sprint(u), Sort: "Int", T: types.Typ[types.Int]}, nil
		}
		return Term{S: smtInt(v), Sort: "Int", T: types.Typ[types.Int]}, nil
	case "str":
		return Term{S: g.strLit(n.Val), Sort: "Str", T: types.Typ[types.String]}, nil
	case "chr":
		return Term{S: fmt.Sprint(int(n.Val[0])), Sort: "Int", T: types.Typ[types.Uint8]}, nil
	case "un":
		if env.pos {
			env = env.clone()
			env.pos = false
		}
		if env.skPos {
			env = env.clone()
			env.skPos = false
		}
		if n.Val == "!" && n.Args[0].Kind == "call" && n.Args[0].Val == "exists" {
			env = env.clone()
			env.negated = true
		}
		x, err := g.eval(n.Args[0], env)
		if err != nil {
			return Term{}, err
		}
		switch n.Val {
		case "!":
			if a := n.Args[0]; a.Kind == "call" && a.Val == "forall" && len(a.Args) == 5 && a.Args[1].Kind == "id" && a.Args[4].Kind == "un" && a.Args[4].Val == "!" {
				// !forall(j, lo, hi, !Q) is exists(j, lo, hi, Q) written with an explicit trigger: add the same ground
				// witnesses an `exists` gets
				lo, e1 := g.eval(a.Args[2], env)
				hi, e2 := g.eval(a.Args[3], env)
				if e1 == nil && e2 == nil {
					q := freshBound(env, a.Args[1].Val)
					eb := env.clone()
					eb.names[a.Args[1].Val] = Term{S: q, Sort: "Int", T: types.Typ[types.Int]}
					if pq, err := g.evalBool(a.Args[4].Args[0], eb); err == nil {
						if ws := g.existsWitnesses(a.Args[1].Val, q, lo.S, hi.S, pq, a.Args[4].Args[0], env); len(ws) > 0 {
							return Term{S: "(or " + not(x.S) + " " + strings.Join(ws, " ") + ")", Sort: "Bool"}, nil
						}
					}
				}
			}
			return Term{S: not(x.S), Sort: "Bool"}, nil
		case "-":
			return Term{S: "(- " + x.S + ")", Sort: x.Sort, T: x.T}, nil
		case "*":
			et, ok := derefT(x.T)
			if !ok {
				return Term{}, fmt.Errorf("deref of non-pointer %s", n.Args[0])
			}
			if _, isSt := structOf(et); isSt {
				return x, nil // struct objects are denoted by their reference
			}
			h, s := g.cellHeap(et)
			return Term{S: g.loadIn(env.st, Addr{Heap: h, Base: x.S, Sort: s}), Sort: s, T: et}, nil
		case "&":
			return x, nil
		}
	case "bin":
		return g.evalBin(n, env)
	case "sel":
		// package-qualified constant?
		if n.Args[0].Kind == "id" {
			if _, err := g.lookupIdent(n.Args[0].Val, env); err != nil && env.pkg != nil {
				for _, imp := range env.pkg.Imports() {
					if imp.Name() == n.Args[0].Val {
						if obj := imp.Scope().Lookup(n.Val); obj != nil {
							return g.objTerm(obj, env)
						}
					}
				}
			}
		}
		x, err := g.eval(n.Args[0], env)
		if err != nil {
			return Term{}, err
		}
		return g.selectField(x, n.Val, env)
	case "idx":
		x, err := g.eval(n.Args[0], env)
		if err != nil {
			return Term{}, err
		}
		i, err := g.eval(n.Args[1], env)
		if err != nil {
			return Term{}, err
		}
		return g.indexTerm(x, i, env)
	case "upd":
		x, err := g.eval(n.Args[0], env)
		if err != nil {
			return Term{}, err
		}
		k, err := g.eval(n.Args[1], env)
		if err != nil {
			return Term{}, err
		}
		v, err := g.eval(n.Args[2], env)
		if err != nil {
			return Term{}, err
		}
		return Term{S: fmt.Sprintf("(store %s %s %s)", x.S, k.S, v.S), Sort: x.Sort}, nil
	case "slice":
		x, err := g.eval(n.Args[0], env)
		if err != nil {
			return Term{}, err
		}
		lo := Term{S: "0", Sort: "Int"}
		if n.Args[1] != nil {
			if lo, err = g.eval(n.Args[1], env); err != nil {
				return Term{}, err
			}
		}
		if x.Sort == "Str" {
			hi := Term{S: "(len " + x.S + ")", Sort: "Int"}
			if n.Args[2] != nil {
				if hi, err = g.eval(n.Args[2], env); err != nil {
					return Term{}, err
				}
			}
			return Term{S: fmt.Sprintf("(sub %s %s %s)", x.S, lo.S, hi.S), Sort: "Str", T: x.T}, nil
		}
		if x.Sort == "Slc" {
			hi := Term{S: "(slen " + x.S + ")", Sort: "Int"}
			if n.Args[2] != nil {
				if hi, err = g.eval(n.Args[2], env); err != nil {
					return Term{}, err
				}
			}
			return Term{S: fmt.Sprintf("(mkslc (sarr %s) (+ (soff %s) %s) (- %s %s) (- (scap %s) %s))", x.S, x.S, lo.S, hi.S, lo.S, x.S, lo.S), Sort: "Slc", T: x.T}, nil
		}
		return Term{}, fmt.Errorf("slice of %s", x.Sort)
	case "call":
		return g.evalCall(n, env)
	}
	return Term{}, fmt.Errorf("cannot evaluate %s", n)
}

func (g *Gen) evalBin(n *Node, env *Env) (Term, error) {
	if env.skPos {
		switch n.Val {
		case "||", "&&":
		case "==>":
			l := env.clone()
			l.skPos = false
			a, err := g.eval(n.Args[0], l)
			if err != nil {
				return Term{}, err
			}
			b, err := g.eval(n.Args[1], env)
			if err != nil {
				return Term{}, err
			}
			return Term{S: imp(a.S, b.S), Sort: "Bool"}, nil
		default:
			env = env.clone()
			env.skPos = false
		}
	}
	envL, envR := env, env
	if env.pos {
		switch n.Val {
		case "||", "&&":
		case "==>":
			envL = env.clone()
			envL.pos = false
		default:
			envL = env.clone()
			envL.pos = false
			envR = envL
		}
	}
	a, err := g.eval(n.Args[0], envL)
	if err != nil {
		if env.pos && n.Val == "||" && isUnbound(err) {
			// a disjunct that cannot be stated at this program point counts as false (positive position only)
			return g.eval(n.Args[1], envR)
		}
		return Term{}, err
	}
	b, err := g.eval(n.Args[1], envR)
	if err != nil {
		if env.pos && isUnbound(err) {
			switch n.Val {
			case "||":
				return a, nil
			case "==>":
				return Term{S: not(a.S), Sort: "Bool"}, nil
			}
		}
		return Term{}, err
	}
	isNil := func(m *Node) bool { return m.Kind == "id" && m.Val == "nil" }
	switch n.Val {
	case "&&":
		return Term{S: and(a.S, b.S), Sort: "Bool"}, nil
	case "||":
		return Term{S: or(a.S, b.S), Sort: "Bool"}, nil
	case "==>":
		return Term{S: imp(a.S, b.S), Sort: "Bool"}, nil
	case "<==>":
		if strings.Contains(a.S, "(forall ") || strings.Contains(a.S, "(exists ") || strings.Contains(b.S, "(forall ") || strings.Contains(b.S, "(exists ") {
			// keep quantifier polarity visible to goal skolemisation
			return Term{S: and(imp(a.S, b.S), imp(b.S, a.S)), Sort: "Bool"}, nil
		}
		return Term{S: fmt.Sprintf("(= %s %s)", a.S, b.S), Sort: "Bool"}, nil
	case "==", "!=":
		var e string
		switch {
		case a.Sort == "Slc" && isNil(n.Args[1]):
			e = fmt.Sprintf("(= (sarr %s) 0)", a.S)
		case b.Sort == "Slc" && isNil(n.Args[0]):
			e = fmt.Sprintf("(= (sarr %s) 0)", b.S)
		case a.Sort == "Str" && b.Sort == "Str":
			e = fmt.Sprintf("(seq %s %s)", a.S, b.S)
		default:
			a, b = coerceNum(a, b)
			if a.Sort != b.Sort {
				return Term{}, fmt.Errorf("sort mismatch in %s: %s vs %s", n, a.Sort, b.Sort)
			}
			e = fmt.Sprintf("(= %s %s)", a.S, b.S)
		}
		if n.Val == "!=" {
			e = not(e)
		}
		return Term{S: e, Sort: "Bool"}, nil
	case "<", "<=", ">", ">=":
		a, b = coerceNum(a, b)
		return Term{S: fmt.Sprintf("(%s %s %s)", n.Val, a.S, b.S), Sort: "Bool"}, nil
	case "+":
		if a.Sort == "Str" {
			return Term{S: fmt.Sprintf("(cat %s %s)", a.S, b.S), Sort: "Str", T: a.T}, nil
		}
		a, b = coerceNum(a, b)
		return Term{S: fmt.Sprintf("(+ %s %s)", a.S, b.S), Sort: a.Sort, T: a.T}, nil
	case "-", "*":
		a, b = coerceNum(a, b)
		if n.Val == "*" && a.Sort == "Real" && n.Args[0].Kind != "int" && n.Args[1].Kind != "int" {
			return Term{S: g.realMul(nil, nil, a.S, b.S), Sort: "Real"}, nil
		}
		return Term{S: fmt.Sprintf("(%s %s %s)", n.Val, a.S, b.S), Sort: a.Sort, T: a.T}, nil
	case "/":
		if a.Sort == "Real" || b.Sort == "Real" {
			a, b = coerceNum(a, b)
			if n.Args[1].Kind != "int" {
				return Term{S: g.realDiv(nil, a.S, b.S), Sort: "Real"}, nil
			}
			return Term{S: fmt.Sprintf("(/ %s %s)", a.S, b.S), Sort: "Real"}, nil
		}
		return Term{S: goDiv(a.S, b.S), Sort: "Int", T: a.T}, nil
	case "%":
		return Term{S: fmt.Sprintf("(- %s (* %s %s))", a.S, b.S, goDiv(a.S, b.S)), Sort: "Int", T: a.T}, nil
	}
	return Term{}, fmt.Errorf("operator %s", n.Val)
}

func (g *Gen) evalCall(n *Node, env *Env) (Term, error) {
	if env.pos {
		env = env.clone()
		env.pos = false
	}
	args := n.Args[1:]
	name := n.Val
	if env.skPos {
		_, isMacro := g.P.cs.Macros[name]
		switch {
		case isMacro, name == "forall", name == "exists", name == "forallI", name == "forallS", name == "forallB":
		default:
			env = env.clone()
			env.skPos = false
		}
	}
	arg := func(i int) (Term, error) {
		if i >= len(args) {
			return Term{}, fmt.Errorf("%s: missing argument %d", name, i)
		}
		return g.eval(args[i], env)
	}
	switch name {
	case "old":
		e2 := env.clone()
		e2.st = env.old
		// inside old(), a parameter name denotes its entry value even where a loop variable shadows it
		if g.fn != nil && !env.calleeMode {
			for _, p := range g.fn.Params {
				delete(e2.names, p.Name())
			}
			e2.paramsFirst = true
		}
		return g.eval(args[0], e2)
	case "len", "cap":
		x, err := arg(0)
		if err != nil {
			return Term{}, err
		}
		switch {
		case x.Sort == "Str":
			return Term{S: "(len " + x.S + ")", Sort: "Int", T: types.Typ[types.Int]}, nil
		case x.Sort == "Slc" && name == "len":
			return Term{S: "(slen " + x.S + ")", Sort: "Int", T: types.Typ[types.Int]}, nil
		case x.Sort == "Slc":
			return Term{S: "(scap " + x.S + ")", Sort: "Int", T: types.Typ[types.Int]}, nil
		}
		if x.T != nil {
			if p, ok := x.T.Underlying().(*types.Pointer); ok {
				if at, ok := p.Elem().Underlying().(*types.Array); ok {
					return Term{S: fmt.Sprint(at.Len()), Sort: "Int"}, nil
				}
			}
			if _, ok := x.T.Underlying().(*types.Map); ok {
				g.declFun("maplen", "(Int) Int")
				return Term{S: "(maplen " + x.S + ")", Sort: "Int"}, nil
			}
		}
		return Term{}, fmt.Errorf("len of %s", x.Sort)
	case "forall", "exists":
		if len(args) != 4 || args[0].Kind != "id" {
			return Term{}, fmt.Errorf("%s(i, lo, hi, P)", name)
		}
		lo, err := arg(1)
		if err != nil {
			return Term{}, err
		}
		hi, err := arg(2)
		if err != nil {
			return Term{}, err
		}
		q := freshBound(env, args[0].Val)
		e2 := env.clone()
		e2.names[args[0].Val] = Term{S: q, Sort: "Int", T: types.Typ[types.Int]}
		if env.skPos && env.sk != nil {
			if name == "forall" {
				e2.skBound = append(append([]Term{}, env.skBound...), Term{S: q, Sort: "Int"})
			} else if !env.negated {
				// exists in positive position of a loop invariant: explicit Skolem function
				env.sk.n++
				fname := fmt.Sprintf("sk!%s!%d", env.sk.id, env.sk.n)
				var sorts, as []string
				for _, b := range env.skBound {
					sorts = append(sorts, b.Sort)
					as = append(as, b.S)
				}
				g.declFun(fname, "("+strings.Join(sorts, " ")+") Int")
				app := fname
				if len(as) > 0 {
					app = "(" + fname + " " + strings.Join(as, " ") + ")"
				}
				e3 := env.clone()
				e3.skPos = false
				e3.names[args[0].Val] = Term{S: app, Sort: "Int", T: types.Typ[types.Int]}
				if pw, err := g.evalBool(args[3], e3); err == nil {
					inst := fmt.Sprintf("(and (<= %s %s) (< %s %s) %s)", lo.S, app, app, hi.S, pw)
					if env.sk.assuming {
						return Term{S: inst, Sort: "Bool"}, nil
					}
					e2.skPos = false
					pq, err := g.evalBool(args[3], e2)
					if err != nil {
						return Term{}, err
					}
					ex := fmt.Sprintf("(exists ((%s Int)) (and (and (<= %s %s) (< %s %s)) %s))", q, lo.S, q, q, hi.S, pq)
					ws := g.existsWitnesses(args[0].Val, q, lo.S, hi.S, pq, args[3], e3)
					return Term{S: "(or " + ex + " " + inst + " " + strings.Join(ws, " ") + ")", Sort: "Bool"}, nil
				}
			}
			e2.skPos = name == "forall"
		}
		p, err := g.evalBool(args[3], e2)
		if err != nil {
			return Term{}, err
		}
		rng := fmt.Sprintf("(and (<= %s %s) (< %s %s))", lo.S, q, q, hi.S)
		if name == "forall" && strings.HasPrefix(hi.S, "(+ ") && strings.HasSuffix(hi.S, " 1)") && !strings.Contains(hi.S, "q!") {
			// forall over [lo, E+1): split off the last instance P[E] as a ground conjunct (equivalent; spares the
			// solver from guessing the witness at loop-preservation obligations)
			last := strings.TrimSuffix(strings.TrimPrefix(hi.S, "(+ "), " 1)")
			if !strings.ContainsAny(last, "()") || strings.Count(last, "(") == strings.Count(last, ")") {
				e3 := env.clone()
				e3.names[args[0].Val] = Term{S: last, Sort: "Int", T: types.Typ[types.Int]}
				if pl, err := g.evalBool(args[3], e3); err == nil {
					rng2 := fmt.Sprintf("(and (<= %s %s) (< %s %s))", lo.S, q, q, last)
					body := fmt.Sprintf("(=> %s %s)", rng2, p)
					fa := fmt.Sprintf("(forall ((%s Int)) %s)", q, body)
					if pats := triggersFor(body, q); pats != "" {
						fa = fmt.Sprintf("(forall ((%s Int)) (! %s %s))", q, body, pats)
					}
					return Term{S: fmt.Sprintf("(and %s (=> (<= %s %s) %s))", fa, lo.S, last, pl), Sort: "Bool"}, nil
				}
			}
		}
		if name == "forall" {
			body := fmt.Sprintf("(=> %s %s)", rng, p)
			if pats := triggersFor(body, q); pats != "" {
				return Term{S: fmt.Sprintf("(forall ((%s Int)) (! %s %s))", q, body, pats), Sort: "Bool"}, nil
			}
			return Term{S: fmt.Sprintf("(forall ((%s Int)) %s)", q, body), Sort: "Bool"}, nil
		}
		ex := fmt.Sprintf("(exists ((%s Int)) (and %s %s))", q, rng, p)
		if !env.negated {
			if ws := g.existsWitnesses(args[0].Val, q, lo.S, hi.S, p, args[3], env); len(ws) > 0 {
				ex = "(or " + ex + " " + strings.Join(ws, " ") + ")"
			}
		}
		return Term{S: ex, Sort: "Bool"}, nil
	case "forallI", "forallS", "forallB", "existsI", "existsS":
		if len(args) != 2 || args[0].Kind != "id" {
			return Term{}, fmt.Errorf("%s(x, P)", name)
		}
		srt := map[byte]string{'I': "Int", 'S': "Str", 'B': "Bool"}[name[len(name)-1]]
		q := freshBound(env, args[0].Val)
		e2 := env.clone()
		e2.names[args[0].Val] = Term{S: q, Sort: srt}
		if env.skPos && env.sk != nil {
			if strings.HasPrefix(name, "forall") {
				e2.skBound = append(append([]Term{}, env.skBound...), Term{S: q, Sort: srt})
			} else {
				e2.skPos = false
			}
		}
		p, err := g.evalBool(args[1], e2)
		if err != nil {
			return Term{}, err
		}
		kw := "forall"
		if strings.HasPrefix(name, "exists") {
			kw = "exists"
		}
		if kw == "forall" {
			if pats := triggersFor(p, q); pats != "" {
				return Term{S: fmt.Sprintf("(forall ((%s %s)) (! %s %s))", q, srt, p, pats), Sort: "Bool"}, nil
			}
		}
		return Term{S: fmt.Sprintf("(%s ((%s %s)) %s)", kw, q, srt, p), Sort: "Bool"}, nil
	case "ite":
		c, err := g.evalBool(args[0], env)
		if err != nil {
			return Term{}, err
		}
		a, err := arg(1)
		if err != nil {
			return Term{}, err
		}
		b, err := arg(2)
		if err != nil {
			return Term{}, err
		}
		a, b = coerceNum(a, b)
		return Term{S: fmt.Sprintf("(ite %s %s %s)", c, a.S, b.S), Sort: a.Sort, T: a.T}, nil
	case "held":
		l, err := arg(0)
		if err != nil {
			return Term{}, err
		}
		return Term{S: fmt.Sprintf("(select %s %s)", g.svIn(env.st, "$held", "(Array Int Bool)"), l.S), Sort: "Bool"}, nil
	case "last", "called":
		if env.calleeMode {
			// a callee's clause is about the callee's activation; the caller's call history must not be read
			return Term{}, fmt.Errorf("unbound name %s() in a callee clause evaluated at a call site", name)
		}
		key := g.calleeKeyFromNode(args[0], env)
		vn := "$" + name + "_" + sanitize(key)
		srt, ok := g.svSort[vn]
		if !ok && g.pass1 != nil {
			srt, ok = g.pass1.svSort[vn]
		}
		if !ok {
			if name == "called" {
				srt = "Bool"
			} else {
				return Term{}, fmt.Errorf("last(%s): no call to %s seen", key, key)
			}
		}
		t := Term{S: g.svIn(env.st, vn, srt), Sort: srt}
		if name == "last" {
			t.T = g.lastType[vn]
		}
		return t, nil
	case "int", "uint64", "uint32", "int64", "uint8", "byte", "uint":
		x, err := arg(0)
		if err != nil {
			return Term{}, err
		}
		if x.Sort == "Real" {
			return Term{S: fmt.Sprintf("(ite (>= %s 0.0) (to_int %s) (- (to_int (- %s))))", x.S, x.S, x.S), Sort: "Int"}, nil
		}
		return Term{S: x.S, Sort: "Int", T: types.Typ[types.Int]}, nil
	case "real":
		x, err := arg(0)
		if err != nil {
			return Term{}, err
		}
		if x.Sort == "Int" {
			return Term{S: "(to_real " + x.S + ")", Sort: "Real"}, nil
		}
		return x, nil
	case "str":
		x, err := arg(0)
		if err != nil {
			return Term{}, err
		}
		if x.Sort == "Str" {
			return x, nil
		}
		if x.Sort != "Slc" {
			return Term{}, fmt.Errorf("str of %s", x.Sort)
		}
		h := g.svIn(env.st, "E_uint8", "(Array Int (Array Int Int))")
		return Term{S: fmt.Sprintf("(b2s (select %s (sarr %s)) (soff %s) (slen %s))", h, x.S, x.S, x.S), Sort: "Str", T: types.Typ[types.String]}, nil
	case "wasAllocated": // x (evaluated now) was already allocated in the old state (entry / before the call)
		x, err := arg(0)
		if err != nil {
			return Term{}, err
		}
		return Term{S: fmt.Sprintf("(select %s %s)", g.svIn(env.old, "$alloc", "(Array Int Bool)"), x.S), Sort: "Bool"}, nil
	case "bitor", "bitand", "bitxor":
		a, err := arg(0)
		if err != nil {
			return Term{}, err
		}
		b, err := arg(1)
		if err != nil {
			return Term{}, err
		}
		g.declFun(name, "(Int Int) Int")
		return Term{S: fmt.Sprintf("(%s %s %s)", name, a.S, b.S), Sort: "Int", T: types.Typ[types.Int]}, nil
	case "allocated":
		x, err := arg(0)
		if err != nil {
			return Term{}, err
		}
		return Term{S: fmt.Sprintf("(select %s %s)", g.svIn(env.st, "$alloc", "(Array Int Bool)"), x.S), Sort: "Bool"}, nil
	case "arr", "off":
		x, err := arg(0)
		if err != nil {
			return Term{}, err
		}
		f := map[string]string{"arr": "sarr", "off": "soff"}[name]
		return Term{S: fmt.Sprintf("(%s %s)", f, x.S), Sort: "Int"}, nil
	case "sub", "at", "cat", "lower", "seq", "elemref", "tagof", "lowerb":
		var as []string
		for i := range args {
			x, err := arg(i)
			if err != nil {
				return Term{}, err
			}
			as = append(as, x.S)
		}
		srt := map[string]string{"sub": "Str", "at": "Int", "cat": "Str", "lower": "Str", "seq": "Bool", "elemref": "Int", "tagof": "Int", "lowerb": "Int"}[name]
		t := Term{S: "(" + name + " " + strings.Join(as, " ") + ")", Sort: srt}
		if srt == "Str" {
			t.T = types.Typ[types.String]
		}
		return t, nil
	case "typeis":
		x, err := arg(0)
		if err != nil {
			return Term{}, err
		}
		tn := nodePath(args[1])
		id, ok := g.P.typeIDByName(tn, env.pkg)
		if !ok {
			return Term{}, fmt.Errorf("typeis: unknown type %s", tn)
		}
		return Term{S: fmt.Sprintf("(and (not (= %s 0)) (= (tagof %s) %d))", x.S, x.S, id), Sort: "Bool"}, nil
	case "iszero":
		// iszero(x.f): the foreign struct value stored at x.f is its zero value (as far as the engine saw stores)
		x, err := arg(0)
		if err != nil {
			return Term{}, err
		}
		et, ok := derefT(x.T)
		if !ok {
			return Term{}, fmt.Errorf("iszero: not an addressable struct")
		}
		h := "O_" + typeKey(et)
		return Term{S: fmt.Sprintf("(= (select %s %s) 0)", g.svIn(env.st, h, "(Array Int Int)"), x.S), Sort: "Bool"}, nil
	case "unbox", "as":
		// unbox(x, T): the concrete payload of interface value x, typed as T (combine with typeis(x, T))
		x, err := arg(0)
		if err != nil {
			return Term{}, err
		}
		tn := nodePath(args[1])
		tt, ok := g.P.typeByName(tn, env.pkg)
		if !ok {
			return Term{}, fmt.Errorf("unbox: unknown type %s", tn)
		}
		if g.sortOf(tt) == "Str" {
			return Term{S: fmt.Sprintf("(unboxS %s)", x.S), Sort: "Str", T: tt}, nil
		}
		if ss := g.sortOf(tt); strings.HasPrefix(ss, "S_") {
			g.declBox(ss)
			return Term{S: fmt.Sprintf("(unbox!%s %s)", ss, x.S), Sort: ss, T: tt}, nil
		}
		return Term{S: fmt.Sprintf("(unboxI %s)", x.S), Sort: g.sortOf(tt), T: tt}, nil
	case "rangepos":
		// position (byte offset of the next rune to be read) of the string range iterator in scope
		for _, src := range []map[string]string{g.svSort, func() map[string]string {
			if g.pass1 != nil {
				return g.pass1.svSort
			}
			return nil
		}()} {
			for n, srt := range src {
				if strings.HasPrefix(n, "$it_") && srt == "Int" {
					return Term{S: g.svIn(env.st, n, "Int"), Sort: "Int", T: types.Typ[types.Int]}, nil
				}
			}
		}
		return Term{}, fmt.Errorf("rangepos: no string range iterator in scope")
	case "seen":
		// seen(k): key k already visited by the map range iterator in scope; seen(k, n): by the n-th map range
		// iterator of the function (1-based, in the order the range statements appear in the SSA value numbering) -
		// required when the function ranges over more than one map
		k, err := arg(0)
		if err != nil {
			return Term{}, err
		}
		its := map[string]string{}
		for n, s := range g.svSort {
			if strings.HasPrefix(n, "$it_") && strings.HasPrefix(s, "(Array") {
				its[n] = s
			}
		}
		if g.pass1 != nil {
			for n, s := range g.pass1.svSort {
				if strings.HasPrefix(n, "$it_") && strings.HasPrefix(s, "(Array") {
					its[n] = s
				}
			}
		}
		var names []string
		for n := range its {
			names = append(names, n)
		}
		sort.Slice(names, func(i, j int) bool {
			if len(names[i]) != len(names[j]) {
				return len(names[i]) < len(names[j])
			}
			return names[i] < names[j]
		})
		if len(names) == 0 {
			return Term{}, fmt.Errorf("seen: no map iterator in scope")
		}
		pick := 0
		if len(args) > 1 {
			nv, err2 := strconv.Atoi(strings.TrimSpace(args[1].Val))
			if err2 != nil || nv < 1 || nv > len(names) {
				return Term{}, fmt.Errorf("seen(k, n): n must be a literal in 1..%d", len(names))
			}
			pick = nv - 1
		} else if len(names) > 1 {
			return Term{}, fmt.Errorf("seen(k): %d map range iterators in this function, write seen(k, n)", len(names))
		}
		n := names[pick]
		return Term{S: fmt.Sprintf("(select %s %s)", g.svIn(env.st, n, its[n]), k.S), Sort: "Bool"}, nil
	case "indom":
		// indom(m, k): key k present in Go map m
		m, err := arg(0)
		if err != nil {
			return Term{}, err
		}
		k, err := arg(1)
		if err != nil {
			return Term{}, err
		}
		mt, ok := m.T.Underlying().(*types.Map)
		if !ok {
			return Term{}, fmt.Errorf("indom on %s", m.T)
		}
		md, _, ks, _ := g.mapHeaps(mt)
		return Term{S: fmt.Sprintf("(and (not (= %s 0)) (select (select %s %s) %s))", m.S, g.svIn(env.st, md, "(Array Int (Array "+ks+" Bool))"), m.S, k.S), Sort: "Bool"}, nil
	}
	if m, ok := g.P.cs.Macros[name]; ok {
		if len(m.Params) != len(args) {
			return Term{}, fmt.Errorf("macro %s: %d args expected", name, len(m.Params))
		}
		e2 := env.clone()
		for i, p := range m.Params {
			x, err := arg(i)
			if err != nil {
				return Term{}, err
			}
			e2.names[p] = x
		}
		return g.eval(m.Body, e2)
	}
	if f, ok := g.P.cs.Fns[name]; ok && f.Body != nil && !f.Rec && nodeHasQuant(f.Body) && !g.specMode {
		// spec functions with quantified bodies are expanded in place, so that goal skolemisation and trigger
		// selection see the quantifier (the solvers handle `(not (forall ..))` behind a define-fun poorly)
		if len(f.Params) != len(args) {
			return Term{}, fmt.Errorf("fn %s: %d args expected", name, len(f.Params))
		}
		e2 := &Env{names: map[string]Term{}, st: env.st, old: env.old, noLocals: true, pkg: env.pkg, calleeMode: true}
		for i, pr := range f.Params {
			x, err := arg(i)
			if err != nil {
				return Term{}, err
			}
			e2.names[pr.Name] = x
		}
		return g.eval(f.Body, e2)
	}
	if f, ok := g.P.cs.Fns[name]; ok {
		g.usedFns[name] = true
		var as []string
		for i := range args {
			x, err := arg(i)
			if err != nil {
				return Term{}, err
			}
			if i < len(f.Params) && f.Params[i].Sort == "Real" && x.Sort == "Int" {
				x.S = "(to_real " + x.S + ")"
			}
			as = append(as, x.S)
		}
		if len(as) != len(f.Params) {
			return Term{}, fmt.Errorf("fn %s: %d args expected", name, len(f.Params))
		}
		s := name
		if len(as) > 0 {
			s = "(" + name + " " + strings.Join(as, " ") + ")"
		}
		t := Term{S: s, Sort: f.Ret}
		if f.Ret == "Str" {
			t.T = types.Typ[types.String]
		}
		return t, nil
	}
	return Term{}, fmt.Errorf("unknown function %s in contract", name)
}

// existsWitnesses: ground instances of an existential statement `exists q in [lo,hi): P(q)` that are added to it as
// disjuncts (an equivalent formula: each disjunct implies the existential). Candidates: the two boundary indices and
// every ground index term t that occurs in P as (idx S t) for a slice S that P also indexes with q - e.g. the
// `same(k)` of the "range k is still in the list" clauses. Terms inside a quantifier body are not in the solver's
// E-graph, so without these instances such goals depend on model-based instantiation guessing the witness.
func (g *Gen) existsWitnesses(varName, q, lo, hi, p string, body *Node, env *Env) []string {
	if len(p) > 4000 || strings.Contains(hi, "q!") || strings.Contains(lo, "q!") {
		return nil
	}
	cands := []string{fmt.Sprintf("(- %s 1)", hi), lo}
	if !strings.Contains(p, "(forall ") && !strings.Contains(p, "(exists ") {
		t := parseSx(p)
		slices := map[string]bool{}
		var walk func(n *sx)
		var idxTerms []*sx
		walk = func(n *sx) {
			if n == nil || n.kids == nil {
				return
			}
			if n.head() == "idx" && len(n.kids) == 3 {
				idxTerms = append(idxTerms, n)
				if n.kids[2].atom == q {
					slices[n.kids[1].String()] = true
				}
			}
			for _, k := range n.kids {
				walk(k)
			}
		}
		walk(t)
		seen := map[string]bool{}
		for _, n := range idxTerms {
			arg := n.kids[2].String()
			if !slices[n.kids[1].String()] || arg == q || strings.Contains(" "+arg+" ", " "+q+" ") || strings.Contains(arg, q+")") || strings.Contains(arg, "q!") || seen[arg] {
				continue
			}
			seen[arg] = true
			if len(cands) < 5 {
				cands = append(cands, arg)
			}
		}
	} else {
		return nil
	}
	var ws []string
	for _, w := range cands {
		e3 := env.clone()
		e3.negated = false
		e3.names[varName] = Term{S: w, Sort: "Int", T: types.Typ[types.Int]}
		if pw, err := g.evalBool(body, e3); err == nil {
			ws = append(ws, fmt.Sprintf("(and (<= %s %s) (< %s %s) %s)", lo, w, w, hi, pw))
		}
	}
	return ws
}

// specFnText renders the SMT definitions of all spec functions (in declaration order).
func (g *Gen) specFnText() string {
	var b strings.Builder
	for _, name := range g.P.cs.FnOrd {
		f := g.P.cs.Fns[name]
		var ps, psorts []string
		env := &Env{names: map[string]Term{}, st: State{}, old: State{}, noLocals: true}
		if g.fn != nil {
			env.pkg = g.fnEnv(nil).pkg
		}
		for _, p := range f.Params {
			ps = append(ps, fmt.Sprintf("(%s %s)", "a!"+p.Name, p.Sort))
			psorts = append(psorts, p.Sort)
			t := Term{S: "a!" + p.Name, Sort: p.Sort}
			if p.Sort == "Str" {
				t.T = types.Typ[types.String]
			}
			env.names[p.Name] = t
		}
		if f.Body == nil {
			fmt.Fprintf(&b, "(declare-fun %s (%s) %s)\n", name, strings.Join(psorts, " "), f.Ret)
			continue
		}
		saveFn := g.fn
		g.specMode = true
		t, err := g.eval(f.Body, env)
		g.specMode = false
		g.fn = saveFn
		if err != nil {
			g.errs = append(g.errs, fmt.Sprintf("spec fn %s: %v", name, err))
			fmt.Fprintf(&b, "(declare-fun %s (%s) %s)\n", name, strings.Join(psorts, " "), f.Ret)
			continue
		}
		if f.Rec {
			// A recursive spec function is given as an uninterpreted function with its defining equation as a
			// quantified axiom triggered on the application (a conservative extension for a terminating recursion,
			// exactly what define-fun-rec states). z3 5.1 decides the scanner obligations of forEachMediaRange in
			// 0.1 s in this form and not in 60 s with define-fun-rec (its recfun unfolding diverges).
			var as []string
			for _, pr := range f.Params {
				as = append(as, "a!"+pr.Name)
			}
			app := "(" + name + " " + strings.Join(as, " ") + ")"
			fmt.Fprintf(&b, "(declare-fun %s (%s) %s)\n(assert (forall (%s) (! (= %s %s) :pattern (%s))))\n", name, strings.Join(psorts, " "), f.Ret, strings.Join(ps, " "), app, t.S, app)
			continue
		}
		fmt.Fprintf(&b, "(define-fun %s (%s) %s %s)\n", name, strings.Join(ps, " "), f.Ret, t.S)
	}
	for _, r := range g.P.cs.Raw {
		b.WriteString(r + "\n")
		// raw SMT-LIB lines of contract files are unchecked axioms: listed in the evidence
		g.assumedUsed["raw SMT axiom of a contract/spec file: "+truncate(r, 160)] = true
	}
	return b.String()
}

// triggersFor picks E-matching patterns for a quantifier over variable q: applications of
// idx / at / select / elemref / spec functions that have q itself as a direct argument.
func triggersFor(body, q string) string {
	t := parseSx(body)
	seen := map[string]bool{}
	var pats []string
	var walk func(n *sx, underQuant bool)
	walk = func(n *sx, underQuant bool) {
		if n == nil || n.kids == nil {
			return
		}
		h := n.head()
		if h == "forall" || h == "exists" {
			// look into the nested quantifier's body for terms over q that do not mention the inner bound variables
			if len(n.kids) == 3 {
				inner := map[string]bool{}
				for _, b := range n.kids[1].kids {
					if len(b.kids) == 2 {
						inner[b.kids[0].atom] = true
					}
				}
				body := n.kids[2]
				if body.head() == "!" && len(body.kids) >= 2 {
					body = body.kids[1]
				}
				before := len(pats)
				walk(body, true)
				// drop candidates that mention an inner bound variable
				kept := pats[:before]
				for _, p := range pats[before:] {
					bad := false
					for v := range inner {
						if strings.Contains(p, " "+v+")") || strings.Contains(p, " "+v+" ") {
							bad = true
						}
					}
					if !bad {
						kept = append(kept, p)
					}
				}
				pats = kept
			}
			return
		}
		direct := false
		for _, k := range n.kids[1:] {
			if k.kids == nil && k.atom == q {
				direct = true
			}
		}
		if direct {
			switch h {
			case "idx", "at", "select", "elemref":
				s := n.String()
				if strings.Contains(s, "(ite ") || strings.Contains(s, "(and ") || strings.Contains(s, "(or ") || strings.Contains(s, "(not ") || strings.Contains(s, "(=> ") {
					break // z3 rejects patterns with boolean connectives / if-then-else
				}
				if !seen[s] {
					seen[s] = true
					pats = append(pats, s)
				}
			case "and", "or", "not", "=>", "=", "<", "<=", ">", ">=", "+", "-", "*", "ite", "store", "div", "mod", "sub":
			default:
				if h != "" && !strings.HasPrefix(h, "(") {
					s := n.String()
					if strings.Contains(s, "(ite ") || strings.Contains(s, "(and ") || strings.Contains(s, "(or ") || strings.Contains(s, "(not ") || strings.Contains(s, "(=> ") {
						break
					}
					if !seen[s] {
						seen[s] = true
						pats = append(pats, s)
					}
				}
			}
		}
		for _, k := range n.kids {
			walk(k, underQuant)
		}
	}
	walk(t, false)
	if len(pats) == 0 {
		return ""
	}
	// prefer idx/at patterns (they name the indexed element); keep at most 3 alternatives
	if len(pats) > 3 {
		pats = pats[:3]
	}
	var b strings.Builder
	for _, p := range pats {
		b.WriteString(":pattern (" + p + ") ")
	}
	return strings.TrimSpace(b.String())
}

func isUnbound(err error) bool {
	m := err.Error()
	return strings.Contains(m, "unbound name") || strings.Contains(m, "no call to")
}

// freshBound picks the SMT name of a bound variable so that it does not capture a bound variable already
// mentioned by a term in scope (spec functions with quantified bodies are inlined under the caller's quantifiers).
func freshBound(env *Env, name string) string {
	q := "q!" + name
	for n := 0; ; n++ {
		c := q
		if n > 0 {
			c = fmt.Sprintf("%s_%d", q, n)
		}
		clash := false
		for _, t := range env.names {
			if strings.Contains(t.S, c) {
				clash = true
				break
			}
		}
		if !clash {
			return c
		}
	}
}

func nodeHasQuant(n *Node) bool {
	if n == nil {
		return false
	}
	if n.Kind == "call" {
		switch n.Val {
		case "forall", "exists", "forallS", "forallI", "forallB", "existsS", "existsI":
			return true
		}
	}
	for _, a := range n.Args {
		if nodeHasQuant(a) {
			return true
		}
	}
	return false
}
