package main

// Instruction translation go/ssa -> passive SMT program.

import (
	"fmt"
	"go/token"
	"go/types"
	"sort"
	"strings"

	"golang.org/x/tools/go/ssa"
)

type dbgRec struct {
	val    ssa.Value
	isAddr bool
	block  *ssa.BasicBlock
	idx    int
}

func (g *Gen) allocFresh(pfx string) string {
	r := g.newConst(pfx, "Int")
	al := g.sv("$alloc", "(Array Int Bool)")
	g.assume(fmt.Sprintf("(and (not (= %s 0)) (not (select %s %s)) (= (subtag %s) 0) (= (rootof %s) %s))", r, al, r, r, r, r))
	g.setSV("$alloc", "(Array Int Bool)", fmt.Sprintf("(store %s %s true)", al, r))
	// no lock embedded in (or identical to) a fresh object is held
	held := g.sv("$held", "(Array Int Bool)")
	g.assume(fmt.Sprintf("(forall ((l Int)) (! (=> (= (rootof l) %s) (not (select %s l))) :pattern ((select %s l))))", r, held, held))
	return r
}

func isRefType(t types.Type) bool {
	switch t.Underlying().(type) {
	case *types.Pointer, *types.Map, *types.Chan:
		return true
	}
	return false
}

func (g *Gen) assumeAllocatedIn(s string, t types.Type, al string) {
	if isRefType(t) {
		g.assume(fmt.Sprintf("(or (= %s 0) (select %s %s))", s, al, s))
	}
	if _, ok := t.Underlying().(*types.Slice); ok {
		g.assume(fmt.Sprintf("(or (= (sarr %s) 0) (select %s (sarr %s)))", s, al, s))
	}
}

func (g *Gen) assumeAllocated(s string, t types.Type) {
	if isRefType(t) {
		g.assume(fmt.Sprintf("(or (= %s 0) (select %s %s))", s, g.sv("$alloc", "(Array Int Bool)"), s))
	}
	if _, ok := t.Underlying().(*types.Slice); ok {
		g.assume(fmt.Sprintf("(or (= (sarr %s) 0) (select %s (sarr %s)))", s, g.sv("$alloc", "(Array Int Bool)"), s))
	}
}

// finalFreeVar reports whether the captured variable behind fv is assigned at most once (in the
// outermost parent), so that its value can be treated as a constant of the closure.
func (g *Gen) finalFreeVar(fv *ssa.FreeVar) bool {
	fn := fv.Parent()
	idx := -1
	for i, f := range fn.FreeVars {
		if f == fv {
			idx = i
		}
	}
	par := fn.Parent()
	if par == nil || idx < 0 {
		return false
	}
	// find binding in parent
	var bind ssa.Value
	for _, b := range par.Blocks {
		for _, ins := range b.Instrs {
			if mc, ok := ins.(*ssa.MakeClosure); ok && mc.Fn == fn {
				bind = mc.Bindings[idx]
			}
		}
	}
	if bind == nil {
		return false
	}
	if pfv, ok := bind.(*ssa.FreeVar); ok {
		return storesTo(fn, fv) == 0 && (&Gen{}).finalFreeVarIn(pfv)
	}
	al, ok := bind.(*ssa.Alloc)
	if !ok {
		return false
	}
	n := countStores(par, al, 0)
	if n > 1 {
		return false
	}
	// the single store has to be the declaring function's own (the initialisation): a variable without initialiser
	// whose only store is inside a closure (`var n int; return func() int { n = n + 1; return n }`) is NOT a
	// constant of that closure (soundness bug reported by a contract-writing agent: `ensures n == old(n)` was proved)
	direct := 0
	for _, ref := range *al.Referrers() {
		if st, ok := ref.(*ssa.Store); ok && st.Addr == al {
			direct++
		}
	}
	return direct == n
}

func (g *Gen) finalFreeVarIn(fv *ssa.FreeVar) bool { return g.finalFreeVar(fv) }

func storesTo(fn *ssa.Function, v ssa.Value) int {
	n := 0
	for _, b := range fn.Blocks {
		for _, ins := range b.Instrs {
			if st, ok := ins.(*ssa.Store); ok && st.Addr == v {
				n++
			}
		}
	}
	return n
}

// countStores counts stores to the variable cell `cell` in fn and, through closure bindings, in its closures.
// Any use other than load/store/closure binding (address escape) counts as many stores.
func countStores(fn *ssa.Function, cell ssa.Value, depth int) int {
	if depth > 4 {
		return 99
	}
	n := 0
	for _, ref := range *cell.Referrers() {
		switch x := ref.(type) {
		case *ssa.Store:
			if x.Addr == cell {
				n++
			} else {
				return 99 // address stored somewhere
			}
		case *ssa.UnOp, *ssa.DebugRef:
		case *ssa.MakeClosure:
			cfn := x.Fn.(*ssa.Function)
			for i, b := range x.Bindings {
				if b == cell {
					n += countStores(cfn, cfn.FreeVars[i], depth+1)
				}
			}
		default:
			return 99
		}
	}
	return n
}

func (g *Gen) run() {
	fn := g.fn
	g.findLoops()
	g.curReach = "true"
	g.sv("$alloc", "(Array Int Bool)")
	g.sv("$held", "(Array Int Bool)")
	for _, p := range fn.Params {
		t := g.define(p, "")
		g.assumeAllocated(t.S, p.Type())
	}
	for _, fv := range fn.FreeVars {
		t := g.define(fv, "")
		g.assumeRaw(fmt.Sprintf("(not (= %s 0))", t.S))
		g.assumeAllocated(t.S, fv.Type())
	}
	// captured variables are distinct Go variables: their cells are pairwise distinct
	if len(fn.FreeVars) > 1 {
		var fvs []string
		for _, fv := range fn.FreeVars {
			fvs = append(fvs, g.term(fv).S)
		}
		g.assumeRaw("(distinct " + strings.Join(fvs, " ") + ")")
	}
	// contract: requires are assumptions at entry
	entry := copyState(g.cur)
	g.entryState = entry
	if g.con != nil {
		for _, c := range g.con.Assumes {
			g.assumedUsed["entry assumption of "+g.name+": "+c.Label+": "+c.Text+" (not checked at call sites)"] = true
		}
		for _, c := range append(append(append([]*Clause{}, g.con.Requires...), g.con.Preserves...), g.con.Assumes...) {
			env := g.fnEnv(nil)
			t, err := g.eval(c.Expr, env)
			if err != nil {
				g.bindFail(c, err)
				continue
			}
			g.assumeRaw(t.S)
		}
	}
	for _, ax := range g.P.cs.Axioms {
		if !g.axiomRelevant(ax) {
			continue
		}
		env := g.fnEnv(nil)
		env.noLocals = true
		t, err := g.eval(ax.Expr, env)
		if err != nil {
			continue // axiom about state this function does not have in scope
		}
		g.assumeRaw(t.S)
		g.assumedUsed["axiom "+ax.Label+" ("+ax.Where+")"] = true
	}
	blocks := rpo(fn)
	for _, b := range blocks {
		g.block(b)
	}
}

func (g *Gen) axiomRelevant(ax *Clause) bool { return true }

func (g *Gen) bindFail(c *Clause, err error) {
	if len(c.Props) > 0 && strings.HasPrefix(c.Where, "deps/") && g.con != nil {
		shared := false
		for _, p := range c.Props {
			if hasProp(g.con.Props, p) {
				shared = true
			}
		}
		if !shared {
			g.note("dependency precondition " + c.Label + " (" + c.Where + ") is stated for " + strings.Join(c.Props, " ") + " in a vocabulary this package's contracts do not define: not an obligation of " + g.name)
			return
		}
	}
	g.errs = append(g.errs, fmt.Sprintf("binding failure %s %s (%s): %v", c.Kind, c.Label, c.Where, err))
}

func (g *Gen) block(b *ssa.BasicBlock) {
	g.syncDefBlk()
	g.curBlock = b
	// reach + entry state
	var r []string
	if b.Index == 0 {
		r = []string{"true"}
	}
	var fpreds []*ssa.BasicBlock
	for _, p := range b.Preds {
		if !b.Dominates(p) {
			if _, ok := g.reach[p]; !ok {
				continue // unreachable predecessor (e.g. recover block)
			}
			fpreds = append(fpreds, p)
			r = append(r, g.edge(p, b))
		}
	}
	rname := g.declare(fmt.Sprintf("r!%d", b.Index), "Bool")
	g.reach[b] = rname
	g.assumeRaw(fmt.Sprintf("(= %s %s)", rname, or(r...)))
	if b.Index != 0 {
		g.cur = g.joinStates(b, fpreds)
	}
	g.curReach = rname
	if k, ok := g.heads[b]; ok {
		g.loopHead(b, k, fpreds)
	}
	startState := copyState(g.cur)
	for i, ins := range b.Instrs {
		g.instr(b, i, ins)
	}
	g.exit[b] = copyState(g.cur)
	w := map[string]bool{}
	for n, v := range g.cur {
		if startState[n] != v {
			w[n] = true
		}
	}
	g.blockWrites[b] = w
	// back edges out of b
	for _, s := range b.Succs {
		if k, ok := g.heads[s]; ok && s.Dominates(b) {
			g.backEdge(b, s, k)
		}
	}
}

func (g *Gen) joinStates(b *ssa.BasicBlock, fpreds []*ssa.BasicBlock) State {
	if len(fpreds) == 0 {
		return State{}
	}
	if len(fpreds) == 1 {
		return copyState(g.exit[fpreds[0]])
	}
	names := map[string]bool{}
	for _, p := range fpreds {
		for n := range g.exit[p] {
			names[n] = true
		}
	}
	var ns []string
	for n := range names {
		ns = append(ns, n)
	}
	sort.Strings(ns)
	out := State{}
	for _, n := range ns {
		same, first := true, ""
		for i, p := range fpreds {
			s, ok := g.exit[p][n]
			if !ok {
				s = n + "!0"
			}
			if i == 0 {
				first = s
			} else if s != first {
				same = false
			}
		}
		if same {
			if first != n+"!0" {
				out[n] = first
			}
			continue
		}
		j := g.newConst(n, g.svSort[n])
		for _, p := range fpreds {
			s, ok := g.exit[p][n]
			if !ok {
				s = n + "!0"
			}
			g.assumeRaw(imp(g.edge(p, b), fmt.Sprintf("(= %s %s)", j, s)))
		}
		out[n] = j
	}
	return out
}

// ---- loops -------------------------------------------------------------------------------

func (g *Gen) loopSpec(k int) *LoopSpec {
	if g.con == nil {
		return nil
	}
	return g.con.Loops[k]
}

type autoInv struct {
	phi  *ssa.Phi
	rel  string // ">=" or "<="
	init ssa.Value
}

func (g *Gen) autoInvs(h *ssa.BasicBlock) []autoInv {
	var out []autoInv
	for _, ins := range h.Instrs {
		phi, ok := ins.(*ssa.Phi)
		if !ok {
			break
		}
		if b, ok := phi.Type().Underlying().(*types.Basic); !ok || b.Info()&types.IsInteger == 0 || b.Info()&types.IsUnsigned != 0 {
			continue // unsigned counters wrap: monotonicity is not an invariant the engine may propose
		}
		var inits []ssa.Value
		dir := 0
		good := true
		for i, p := range h.Preds {
			e := phi.Edges[i]
			if !h.Dominates(p) {
				dup := false
				for _, x := range inits {
					if x == e {
						dup = true
					}
				}
				if !dup {
					inits = append(inits, e)
				}
				continue
			}
			d := stepOf(e, phi, 0)
			if d == 0 || (dir != 0 && (d > 0) != (dir > 0)) {
				if e == ssa.Value(phi) {
					continue
				}
				good = false
				break
			}
			dir = d
		}
		if !good || dir == 0 || len(inits) != 1 {
			continue
		}
		if dir > 0 {
			out = append(out, autoInv{phi, ">=", inits[0]})
		} else {
			out = append(out, autoInv{phi, "<=", inits[0]})
		}
	}
	return out
}

// mono: e >= phi (dir>0) or e <= phi (dir<0) by structure: phi itself, x±k with mono x, or a phi
// all of whose incoming values are mono (coinductively). Only proposes invariants; every proposal
// is still discharged as an obligation.
func mono(e ssa.Value, phi *ssa.Phi, dir int, visiting map[ssa.Value]bool) bool {
	if e == ssa.Value(phi) {
		return true
	}
	if visiting[e] {
		return true
	}
	switch x := e.(type) {
	case *ssa.BinOp:
		c, isC := x.Y.(*ssa.Const)
		if !isC || c.Value == nil {
			return false
		}
		k := c.Int64()
		if x.Op == token.SUB {
			k = -k
		} else if x.Op != token.ADD {
			return false
		}
		if (dir > 0 && k < 0) || (dir < 0 && k > 0) {
			return false
		}
		return mono(x.X, phi, dir, visiting)
	case *ssa.Phi:
		visiting[e] = true
		for _, ie := range x.Edges {
			if !mono(ie, phi, dir, visiting) {
				return false
			}
		}
		return true
	}
	return false
}

func stepOf(e ssa.Value, phi *ssa.Phi, depth int) int {
	if e == ssa.Value(phi) {
		return 0
	}
	if mono(e, phi, 1, map[ssa.Value]bool{}) {
		return 1
	}
	if mono(e, phi, -1, map[ssa.Value]bool{}) {
		return -1
	}
	return 0
}

func (g *Gen) loopHead(h *ssa.BasicBlock, k int, fpreds []*ssa.BasicBlock) {
	spec := g.loopSpec(k)
	autos := g.autoInvs(h)
	// 1. init obligations on each entering edge
	saveReach, saveCur := g.curReach, g.cur
	for _, p := range fpreds {
		g.curReach = g.edge(p, h)
		g.cur = copyState(g.exit[p])
		if spec != nil {
			for _, c := range spec.Invs {
				env := g.fnEnv(nil)
				env.at = p.Instrs[len(p.Instrs)-1]
				g.bindPhis(env, h, p)
				env.sk, env.skPos = &skCtx{id: skID(g.name, k, c)}, true
				t, err := g.eval(c.Expr, env)
				if err != nil {
					g.bindFail(c, err)
					continue
				}
				g.oblige("inv", fmt.Sprintf("loop%d.init:%s", k, c.Label), t.S, c.Where, c.Text, c.Props)
			}
		}
		for _, a := range autos {
			ev := a.phi.Edges[predIndex(h, p)]
			goal := fmt.Sprintf("(%s %s %s)", a.rel, g.term(ev).S, g.term(a.init).S)
			g.oblige("autoinv", fmt.Sprintf("loop%d.init:%s", k, a.phi.Comment), goal, g.pos(a.phi.Pos()), "", nil)
		}
	}
	g.curReach, g.cur = saveReach, saveCur
	// 2. havoc everything the loop writes
	if g.pass1 != nil {
		wild := false
		ws := map[string]bool{}
		for bb := range g.loopBody[h] {
			for n := range g.pass1.blockWrites[bb] {
				if n == "$wild" {
					wild = true
				}
				ws[n] = true
			}
		}
		if wild {
			g.havocAll(nil)
		}
		var ns []string
		for n := range ws {
			ns = append(ns, n)
		}
		sort.Strings(ns)
		for _, n := range ns {
			if n == "$wild" {
				continue
			}
			srt := g.pass1.svSort[n]
			if bases, ok := g.preciseLoopWrites(h, n); ok && !wild {
				// every write of the loop to this heap is a store at a loop-invariant base: only those rows/objects change
				cur := g.sv(n, srt)
				term := cur
				_, vs, two := arraySorts(srt)
				_ = two
				for _, b := range bases {
					row := g.newConst("lh", vs)
					if n == "E_uint8" {
						g.assumeRaw(byteRowRange(row)) // the havocked row of a byte array holds bytes
					}
					term = fmt.Sprintf("(store %s %s %s)", term, b, row)
				}
				g.setSV(n, srt, term)
				continue
			}
			if g.loopLocalWrites(h, n) && !wild {
				// every store of the loop to this heap goes to an object allocated inside the loop (or to a
				// loop-invariant base that is listed): objects that existed at the loop head keep their value
				oldv := g.sv(n, srt)
				al := g.sv("$alloc", "(Array Int Bool)")
				nv := g.havocSV(n, srt)
				g.assumeRaw(fmt.Sprintf("(forall ((r Int)) (! (=> (select %s (rootof r)) (= (select %s r) (select %s r))) :pattern ((select %s r))))", al, nv, oldv, nv))
				continue
			}
			if n == "$alloc" {
				old := g.sv(n, srt)
				nv := g.havocSV(n, srt)
				g.assumeRaw(fmt.Sprintf("(forall ((r Int)) (! (=> (select %s r) (select %s r)) :pattern ((select %s r))))", old, nv, nv))
				continue
			}
			g.havocSV(n, srt)
		}
	}
	g.headState[h] = copyState(g.cur)
	// 3. phis are fresh; assume invariants
	for _, ins := range h.Instrs {
		if phi, ok := ins.(*ssa.Phi); ok {
			t := g.define(phi, "")
			g.assumeAllocated(t.S, phi.Type())
		}
	}
	if spec != nil {
		for _, c := range spec.Invs {
			env := g.fnEnv(nil)
			env.at = h.Instrs[0]
			g.bindPhis(env, h, nil)
			env.sk, env.skPos = &skCtx{id: skID(g.name, k, c), assuming: true}, true
			t, err := g.eval(c.Expr, env)
			if err != nil {
				continue
			}
			g.assumeTagged(t.S, c.Props)
		}
		if spec.Decr != nil {
			env := g.fnEnv(nil)
			env.at = h.Instrs[0]
			g.bindPhis(env, h, nil)
			if t, err := g.eval(spec.Decr.Expr, env); err == nil {
				d := g.newConst("decr", "Int")
				g.assumeRaw(fmt.Sprintf("(= %s %s)", d, t.S))
				g.decr[h] = d
			} else {
				g.bindFail(spec.Decr, err)
			}
		}
	}
	for _, a := range autos {
		g.assume(fmt.Sprintf("(%s %s %s)", a.rel, g.term(a.phi).S, g.term(a.init).S))
	}
}

func predIndex(b, p *ssa.BasicBlock) int {
	for i, q := range b.Preds {
		if q == p {
			return i
		}
	}
	return -1
}

func (g *Gen) bindPhis(env *Env, h *ssa.BasicBlock, from *ssa.BasicBlock) {
	for _, ins := range h.Instrs {
		phi, ok := ins.(*ssa.Phi)
		if !ok {
			break
		}
		if phi.Comment == "" {
			continue
		}
		if from == nil {
			env.names[phi.Comment] = g.term(phi)
		} else {
			env.names[phi.Comment] = g.term(phi.Edges[predIndex(h, from)])
		}
	}
}

// skID names the Skolem functions of a loop-invariant clause (stable across the evaluations of that clause).
func skID(fn string, loop int, c *Clause) string {
	return sanitize(fmt.Sprintf("%s_l%d_%s", shortKey(fn), loop, c.Label))
}

func (g *Gen) backEdge(b, h *ssa.BasicBlock, k int) {
	spec := g.loopSpec(k)
	saveReach := g.curReach
	g.curReach = g.edge(b, h)
	if spec != nil {
		for _, c := range spec.Invs {
			env := g.fnEnv(nil)
			env.at = b.Instrs[len(b.Instrs)-1]
			g.bindPhis(env, h, b)
			env.sk, env.skPos = &skCtx{id: skID(g.name, k, c)}, true
			t, err := g.eval(c.Expr, env)
			if err != nil {
				g.bindFail(c, err)
				continue
			}
			g.oblige("inv", fmt.Sprintf("loop%d.preserve:%s", k, c.Label), t.S, c.Where, c.Text, c.Props)
		}
		if spec.Decr != nil && g.decr[h] != "" {
			env := g.fnEnv(nil)
			env.at = b.Instrs[len(b.Instrs)-1]
			g.bindPhis(env, h, b)
			if t, err := g.eval(spec.Decr.Expr, env); err == nil {
				g.oblige("decreases", fmt.Sprintf("loop%d", k), fmt.Sprintf("(and (>= %s 0) (< %s %s))", g.decr[h], t.S, g.decr[h]), spec.Decr.Where, spec.Decr.Text, spec.Decr.Props)
			}
		}
	}
	for _, a := range g.autoInvs(h) {
		ev := a.phi.Edges[predIndex(h, b)]
		goal := fmt.Sprintf("(%s %s %s)", a.rel, g.term(ev).S, g.term(a.init).S)
		g.oblige("autoinv", fmt.Sprintf("loop%d.preserve:%s", k, a.phi.Comment), goal, g.pos(a.phi.Pos()), "", nil)
	}
	g.curReach = saveReach
}

// ---- instructions ------------------------------------------------------------------------

func (g *Gen) instr(b *ssa.BasicBlock, idx int, ins ssa.Instruction) {
	if p := ins.Pos(); p.IsValid() {
		g.curCode = g.pos(p)
	}
	switch x := ins.(type) {
	case *ssa.DebugRef:
		if id, ok := x.Expr.(interface{ String() string }); ok {
			_ = id
		}
		if obj := x.Object(); obj != nil {
			g.debug[obj.Name()] = append(g.debug[obj.Name()], dbgRec{x.X, x.IsAddr, b, idx})
		}
	case *ssa.If, *ssa.Jump:
	case *ssa.Phi:
		if _, isHead := g.heads[b]; isHead {
			return
		}
		t := g.define(x, "")
		for i, p := range b.Preds {
			if _, ok := g.reach[p]; !ok {
				continue
			}
			g.assumeRaw(imp(g.edge(p, b), g.eq(t, g.term(x.Edges[i]))))
		}
	case *ssa.Alloc:
		g.alloc(x)
	case *ssa.UnOp:
		g.unop(x)
	case *ssa.BinOp:
		g.define(x, g.binop(x))
	case *ssa.Store:
		a := g.addrOf(x.Addr)
		g.safety("nil", "store", fmt.Sprintf("(not (= %s 0))", a.Base), x.Pos())
		var bv ssa.Value
		switch ad := x.Addr.(type) {
		case *ssa.IndexAddr:
			bv = ad.X
		case *ssa.FieldAddr:
			bv = ad.X
		}
		if al, isAl := x.Addr.(*ssa.Alloc); isAl {
			bv = al
		}
		if _, isSt := structOf(x.Val.Type()); !isSt && bv != nil {
			g.curStore = &storeRec{base: a.Base, baseVal: bv}
		} else if isSt && bv != nil {
			if _, isAl := bv.(*ssa.Alloc); isAl {
				g.curStore = &storeRec{base: a.Base, baseVal: bv, whole: true}
			}
		}
		g.curOpaque = g.opaqueSrc[x.Val]
		g.storeValue(a, x.Val.Type(), g.term(x.Val).S, 0)
		g.curOpaque = nil
		g.curStore = nil
	case *ssa.FieldAddr:
		g.fieldAddr(x)
	case *ssa.IndexAddr:
		g.indexAddr(x)
	case *ssa.Field:
		xt := g.term(x.X)
		st, _ := structOf(x.X.Type())
		if xt.Sort != "Int" && st != nil {
			g.define(x, fmt.Sprintf("(%s!%s %s)", xt.Sort, fieldName(st, x.Field), xt.S))
		} else {
			g.define(x, "")
		}
	case *ssa.Index:
		g.index(x)
	case *ssa.Slice:
		g.slice(x)
	case *ssa.Extract:
		tt := g.term(x.Tuple)
		if x.Index < len(tt.Tuple) {
			g.vals[x] = tt.Tuple[x.Index]
		} else {
			g.define(x, "")
		}
	case *ssa.Convert:
		g.convert(x)
	case *ssa.ChangeType:
		xt := g.term(x.X)
		ds := g.sortOf(x.Type())
		if ds != xt.Sort && strings.HasPrefix(ds, "S_") && strings.HasPrefix(xt.Sort, "S_") {
			// struct types with identical underlying type but different datatype sorts: rebuild field-wise
			if fs, ok := structOf(x.X.Type()); ok {
				var parts []string
				for i := 0; i < fs.NumFields(); i++ {
					parts = append(parts, fmt.Sprintf("(%s!%s %s)", xt.Sort, fieldName(fs, i), xt.S))
				}
				g.define(x, fmt.Sprintf("(mk!%s %s)", ds, strings.Join(parts, " ")))
				return
			}
		}
		if ds != xt.Sort {
			g.define(x, "")
			return
		}
		g.vals[x] = Term{S: xt.S, Sort: xt.Sort, T: x.Type()}
	case *ssa.ChangeInterface:
		g.vals[x] = Term{S: g.term(x.X).S, Sort: "Int", T: x.Type()}
	case *ssa.MakeInterface:
		g.makeInterface(x)
	case *ssa.TypeAssert:
		g.typeAssert(x)
	case *ssa.MakeClosure:
		r := g.allocFresh("clo")
		g.define(x, r)
		g.closures[x] = x
	case *ssa.MakeMap:
		r := g.allocFresh("map")
		g.define(x, r)
		mt := x.Type().Underlying().(*types.Map)
		md, _, ks, _ := g.mapHeaps(mt)
		srt := "(Array Int (Array " + ks + " Bool))"
		h := g.sv(md, srt)
		g.setSV(md, srt, fmt.Sprintf("(store %s %s ((as const (Array %s Bool)) false))", h, r, ks))
	case *ssa.MakeSlice:
		g.makeSlice(x)
	case *ssa.MakeChan:
		g.define(x, g.allocFresh("chan"))
	case *ssa.Lookup:
		g.lookup(x)
	case *ssa.MapUpdate:
		g.mapUpdate(x)
	case *ssa.Range:
		g.rangeInstr(x)
	case *ssa.Next:
		g.nextInstr(x)
	case *ssa.Call:
		g.call(x, x.Common(), x)
	case *ssa.Defer:
		flag := fmt.Sprintf("$defer%d", len(g.defers))
		g.defers = append(g.defers, &deferRec{x, flag})
		if _, ok := g.svSort[flag]; !ok {
			g.sv(flag, "Bool")
			g.assumeRaw("(not " + flag + "!0)")
		}
		g.setSV(flag, "Bool", "true")
		// argument values are evaluated now; SSA values are immutable so nothing else to do
	case *ssa.RunDefers:
		g.runDefers()
	case *ssa.Go:
		g.note("go statement: the goroutine body is not verified concurrently; its effects are havocked")
		g.havocAll(nil)
	case *ssa.Return:
		g.ret(x)
	case *ssa.Panic:
		if g.con == nil || !g.con.Panics {
			g.safety("panic", "explicit", "false", x.Pos())
		}
		g.assume("false")
	case *ssa.Send, *ssa.Select:
		g.note("channel operation (outside subset): results havocked")
		if v, ok := ins.(ssa.Value); ok {
			g.define(v, "")
		}
	case *ssa.SliceToArrayPointer, *ssa.MultiConvert:
		g.note(fmt.Sprintf("%T (outside subset): result havocked", ins))
		g.define(ins.(ssa.Value), "")
	default:
		g.note(fmt.Sprintf("instruction %T not modelled: result havocked", ins))
		if v, ok := ins.(ssa.Value); ok {
			g.define(v, "")
		}
	}
}

func (g *Gen) eq(a, b Term) string {
	if a.Sort == "Str" {
		return fmt.Sprintf("(= %s %s)", a.S, b.S)
	}
	if len(a.Tuple) > 0 {
		var cs []string
		for i := range a.Tuple {
			if i < len(b.Tuple) {
				cs = append(cs, g.eq(a.Tuple[i], b.Tuple[i]))
			}
		}
		return and(cs...)
	}
	return fmt.Sprintf("(= %s %s)", a.S, b.S)
}

func (g *Gen) alloc(x *ssa.Alloc) {
	r := g.allocFresh("new")
	g.define(x, r)
	g.curStore = &storeRec{base: r, baseVal: x, whole: true}
	defer func() { g.curStore = nil }()
	et := x.Type().Underlying().(*types.Pointer).Elem()
	switch u := et.Underlying().(type) {
	case *types.Struct:
		if g.structTransparent(et) {
			g.zeroing = true
			g.storeValue(Addr{Base: r}, et, g.zero(et), 0)
			g.zeroing = false
		} else if n, ok := et.(*types.Named); ok && isModulePkg(n.Obj().Pkg()) && u.NumFields() <= 300 {
			// a struct of this module that is too large for a datatype value: new(T) / &T{...} starts from the zero value
			g.zeroFields(r, et, 0)
		}
	case *types.Array:
		h, s := g.elemHeap(u.Elem())
		if _, isSt := structOf(u.Elem()); !isSt {
			srt := "(Array Int (Array Int " + s + "))"
			hv := g.sv(h, srt)
			g.setSV(h, srt, fmt.Sprintf("(store %s %s ((as const (Array Int %s)) %s))", hv, r, s, g.zero(u.Elem())))
		}
	default:
		h, s := g.cellHeap(et)
		g.store(Addr{Heap: h, Base: r, Sort: s}, g.zero(et))
	}
}

func (g *Gen) unop(x *ssa.UnOp) {
	switch x.Op {
	case token.MUL:
		if fv, ok := x.X.(*ssa.FreeVar); ok && g.finalFreeVar(fv) {
			n := "fv!" + sanitize(fv.Name())
			if _, ok := g.decl[n]; !ok {
				g.declare(n, g.sortOf(x.Type()))
				g.preDefs = append(g.preDefs, "(assert "+g.typeInv(n, x.Type())+")")
				if isRefType(x.Type()) {
					g.preDefs = append(g.preDefs, fmt.Sprintf("(assert (or (= %s 0) (select $alloc!0 %s)))", n, n))
				}
			}
			g.vals[x] = Term{S: n, Sort: g.sortOf(x.Type()), T: x.Type()}
			return
		}
		a := g.addrOf(x.X)
		g.safety("nil", "load", fmt.Sprintf("(not (= %s 0))", a.Base), x.Pos())
		v := g.loadValueIn(g.cur, a, x.Type(), 0)
		if _, isSt := structOf(x.Type()); isSt && !g.structTransparent(x.Type()) && a.Base != "" {
			snap := State{}
			for k, vv := range g.cur {
				snap[k] = vv
			}
			if g.opaqueSrc == nil {
				g.opaqueSrc = map[ssa.Value]*opaqueLoad{}
			}
			g.opaqueSrc[x] = &opaqueLoad{st: snap, base: a.Base, t: x.Type()}
		}
		t := g.define(x, v)
		if v != "" {
			g.assume(g.typeInv(t.S, x.Type()))
		}
		if cur, written := g.cur[a.Heap]; a.Heap != "" && (!written || cur == a.Heap+"!0") {
			// the heap variable was never written: what it holds was allocated before the function started
			g.assumeAllocatedIn(t.S, x.Type(), "$alloc!0")
		} else {
			g.assumeAllocated(t.S, x.Type())
		}
	case token.NOT:
		g.define(x, not(g.term(x.X).S))
	case token.SUB:
		t := g.term(x.X)
		if w, ok := uintWidth(x.Type()); ok {
			g.define(x, fmt.Sprintf("(mod (- %s) %s)", t.S, w))
		} else {
			g.define(x, fmt.Sprintf("(- %s)", t.S))
		}
	default:
		g.note("unary " + x.Op.String() + " not modelled: result havocked")
		g.define(x, "")
	}
}

func goDiv(a, b string) string {
	return fmt.Sprintf("(ite (>= %s 0) (ite (> %s 0) (div %s %s) (- (div %s (- %s)))) (ite (> %s 0) (- (div (- %s) %s)) (div (- %s) (- %s))))", a, b, a, b, a, b, b, a, b, a, b)
}

func pow2(k int64) string {
	s := "1"
	// exact big power of two as decimal via repeated doubling on strings is overkill: k <= 64
	var v uint64 = 1
	if k < 64 {
		v <<= uint(k)
		return fmt.Sprint(v)
	}
	if k == 64 {
		return "18446744073709551616"
	}
	return s
}

func (g *Gen) binop(x *ssa.BinOp) string {
	a, b := g.term(x.X), g.term(x.Y)
	isNilConst := func(v ssa.Value) bool { c, ok := v.(*ssa.Const); return ok && c.Value == nil }
	switch x.Op {
	case token.EQL, token.NEQ:
		var e string
		switch {
		case a.Sort == "Slc" && (isNilConst(x.X) || isNilConst(x.Y)):
			s := a.S
			if isNilConst(x.X) {
				s = b.S
			}
			e = fmt.Sprintf("(= (sarr %s) 0)", s)
		case a.Sort == "Str":
			e = fmt.Sprintf("(seq %s %s)", a.S, b.S)
		default:
			e = fmt.Sprintf("(= %s %s)", a.S, b.S)
		}
		if x.Op == token.NEQ {
			return not(e)
		}
		return e
	case token.LSS, token.LEQ, token.GTR, token.GEQ:
		op := map[token.Token]string{token.LSS: "<", token.LEQ: "<=", token.GTR: ">", token.GEQ: ">="}[x.Op]
		if a.Sort == "Str" {
			// strcmp: Go's string order, declared (with its order axioms) in deps/strings.spec, pruned from queries that do not use it
			return fmt.Sprintf("(%s (strcmp %s %s) 0)", op, a.S, b.S)
		}
		return fmt.Sprintf("(%s %s %s)", op, a.S, b.S)
	}
	if a.Sort == "Str" && x.Op == token.ADD {
		return fmt.Sprintf("(cat %s %s)", a.S, b.S)
	}
	if a.Sort == "Bool" {
		switch x.Op {
		case token.AND:
			return and(a.S, b.S)
		case token.OR:
			return or(a.S, b.S)
		}
	}
	if a.Sort == "Real" {
		switch x.Op {
		case token.ADD:
			return fmt.Sprintf("(+ %s %s)", a.S, b.S)
		case token.SUB:
			return fmt.Sprintf("(- %s %s)", a.S, b.S)
		case token.MUL:
			return g.realMul(x.X, x.Y, a.S, b.S)
		case token.QUO:
			return g.realDiv(x.Y, a.S, b.S)
		}
	}
	w, uns := uintWidth(x.Type())
	switch x.Op {
	case token.ADD:
		s := fmt.Sprintf("(+ %s %s)", a.S, b.S)
		if uns {
			return fmt.Sprintf("(ite (< %s %s) %s (- %s %s))", s, w, s, s, w)
		}
		g.note("signed integer + - * treated as mathematical (no overflow obligation)")
		return s
	case token.SUB:
		s := fmt.Sprintf("(- %s %s)", a.S, b.S)
		if uns {
			return fmt.Sprintf("(ite (>= %s 0) %s (+ %s %s))", s, s, s, w)
		}
		return s
	case token.MUL:
		s := fmt.Sprintf("(* %s %s)", a.S, b.S)
		if uns {
			return fmt.Sprintf("(mod %s %s)", s, w)
		}
		return s
	case token.QUO, token.REM:
		if c, ok := x.Y.(*ssa.Const); !ok || c.Value == nil || c.Int64() == 0 {
			g.safety("div", "nonzero", fmt.Sprintf("(not (= %s 0))", b.S), x.Pos())
		}
		q := goDiv(a.S, b.S)
		if x.Op == token.QUO {
			return q
		}
		return fmt.Sprintf("(- %s (* %s %s))", a.S, b.S, q)
	case token.SHL:
		if c, ok := x.Y.(*ssa.Const); ok && c.Value != nil && c.Int64() < 64 {
			s := fmt.Sprintf("(* %s %s)", a.S, pow2(c.Int64()))
			if uns {
				return fmt.Sprintf("(mod %s %s)", s, w)
			}
			return s
		}
	case token.SHR:
		if c, ok := x.Y.(*ssa.Const); ok && c.Value != nil && c.Int64() < 64 {
			return fmt.Sprintf("(div %s %s)", a.S, pow2(c.Int64()))
		}
	case token.AND, token.OR, token.XOR, token.AND_NOT:
		fn := map[token.Token]string{token.AND: "bitand", token.OR: "bitor", token.XOR: "bitxor", token.AND_NOT: "bitandnot"}[x.Op]
		g.declFun(fn, "(Int Int) Int")
		return fmt.Sprintf("(%s %s %s)", fn, a.S, b.S)
	}
	g.note("binary " + x.Op.String() + " not modelled: result havocked")
	return ""
}

func (g *Gen) declFun(name, sig string) {
	if _, ok := g.decl[name]; !ok {
		g.decl[name] = "fun:" + sig
		g.dord = append(g.dord, name)
		switch name {
		case "bitor":
			g.preDefs = append(g.preDefs, "(assert (forall ((a Int) (b Int)) (! (=> (and (>= a 0) (>= b 0)) (and (>= (bitor a b) a) (>= (bitor a b) b) (<= (bitor a b) (+ a b)))) :pattern ((bitor a b)))))")
			// disjoint bit ranges: a is a multiple of 2^k and b < 2^k  =>  a | b == a + b   (k = 8, 16)
			g.preDefs = append(g.preDefs, "(assert (forall ((a Int) (b Int)) (! (=> (and (>= a 0) (>= b 0) (or (and (< b 256) (= (mod a 256) 0)) (and (< b 65536) (= (mod a 65536) 0)))) (= (bitor a b) (+ a b))) :pattern ((bitor a b)))))")
		case "bitand":
			g.preDefs = append(g.preDefs, "(assert (forall ((a Int) (b Int)) (! (=> (and (>= a 0) (>= b 0)) (and (>= (bitand a b) 0) (<= (bitand a b) a) (<= (bitand a b) b))) :pattern ((bitand a b)))))")
		}
	}
}

func (g *Gen) fieldAddr(x *ssa.FieldAddr) {
	base := g.term(x.X).S
	st := x.X.Type().Underlying().(*types.Pointer).Elem()
	g.safety("nil", "field", fmt.Sprintf("(not (= %s 0))", base), x.Pos())
	hn, vs, ft := g.fieldHeap(st, x.Field)
	switch ft.Underlying().(type) {
	case *types.Struct, *types.Array:
		g.define(x, g.subref(st, x.Field, base))
		return
	}
	g.addrs[x] = Addr{Heap: hn, Base: base, Sort: vs, T: ft}
	g.declFun("fieldptr!"+hn, "(Int) Int")
	g.define(x, fmt.Sprintf("(fieldptr!%s %s)", hn, base))
}

func (g *Gen) indexAddr(x *ssa.IndexAddr) {
	i := g.term(x.Index).S
	var arr, idx, n string
	var et types.Type
	switch u := x.X.Type().Underlying().(type) {
	case *types.Slice:
		s := g.term(x.X).S
		arr, idx, n = fmt.Sprintf("(sarr %s)", s), fmt.Sprintf("(idx %s %s)", s, i), fmt.Sprintf("(slen %s)", s)
		et = u.Elem()
	case *types.Pointer:
		at := u.Elem().Underlying().(*types.Array)
		arr, idx, n = g.term(x.X).S, i, fmt.Sprint(at.Len())
		et = at.Elem()
	}
	g.safety("bounds", "index", fmt.Sprintf("(and (<= 0 %s) (< %s %s))", i, i, n), x.Pos())
	switch et.Underlying().(type) {
	case *types.Struct, *types.Array:
		g.define(x, fmt.Sprintf("(elemref %s %s)", arr, idx))
		return
	}
	h, s := g.elemHeap(et)
	g.addrs[x] = Addr{Heap: h, Base: arr, Idx: idx, Sort: s, T: et}
	g.define(x, fmt.Sprintf("(elemref %s %s)", arr, idx))
}

func (g *Gen) index(x *ssa.Index) {
	i := g.term(x.Index).S
	xt := g.term(x.X)
	if xt.Sort == "Str" {
		g.safety("bounds", "strindex", fmt.Sprintf("(and (<= 0 %s) (< %s (len %s)))", i, i, xt.S), x.Pos())
		g.define(x, fmt.Sprintf("(at %s %s)", xt.S, i))
		return
	}
	if at, ok := x.X.Type().Underlying().(*types.Array); ok {
		g.safety("bounds", "arrindex", fmt.Sprintf("(and (<= 0 %s) (< %s %d))", i, i, at.Len()), x.Pos())
	}
	g.define(x, "")
}

func (g *Gen) slice(x *ssa.Slice) {
	xt := g.term(x.X)
	opt := func(v ssa.Value, def string) string {
		if v == nil {
			return def
		}
		return g.term(v).S
	}
	switch u := x.X.Type().Underlying().(type) {
	case *types.Basic: // string
		lo, hi := opt(x.Low, "0"), opt(x.High, fmt.Sprintf("(len %s)", xt.S))
		g.safety("bounds", "strslice", fmt.Sprintf("(and (<= 0 %s) (<= %s %s) (<= %s (len %s)))", lo, lo, hi, hi, xt.S), x.Pos())
		if x.Low == nil && x.High == nil {
			g.define(x, xt.S)
			return
		}
		g.define(x, fmt.Sprintf("(sub %s %s %s)", xt.S, lo, hi))
	case *types.Slice:
		lo, hi := opt(x.Low, "0"), opt(x.High, fmt.Sprintf("(slen %s)", xt.S))
		mx := opt(x.Max, fmt.Sprintf("(scap %s)", xt.S))
		g.safety("bounds", "slice", fmt.Sprintf("(and (<= 0 %s) (<= %s %s) (<= %s %s) (<= %s (scap %s)))", lo, lo, hi, hi, mx, mx, xt.S), x.Pos())
		g.define(x, fmt.Sprintf("(mkslc (sarr %s) (+ (soff %s) %s) (- %s %s) (- %s %s))", xt.S, xt.S, lo, hi, lo, mx, lo))
	case *types.Pointer:
		at := u.Elem().Underlying().(*types.Array)
		n := fmt.Sprint(at.Len())
		lo, hi := opt(x.Low, "0"), opt(x.High, n)
		mx := opt(x.Max, n)
		g.safety("bounds", "arrslice", fmt.Sprintf("(and (<= 0 %s) (<= %s %s) (<= %s %s) (<= %s %s))", lo, lo, hi, hi, mx, mx, n), x.Pos())
		g.define(x, fmt.Sprintf("(mkslc %s %s (- %s %s) (- %s %s))", xt.S, lo, hi, lo, mx, lo))
	default:
		g.define(x, "")
	}
}

func (g *Gen) bytesAsStr(slc string) string {
	h := g.sv("E_uint8", "(Array Int (Array Int Int))")
	return fmt.Sprintf("(b2s (select %s (sarr %s)) (soff %s) (slen %s))", h, slc, slc, slc)
}

func isByteSlice(t types.Type) bool {
	s, ok := t.Underlying().(*types.Slice)
	if !ok {
		return false
	}
	b, ok := s.Elem().Underlying().(*types.Basic)
	return ok && b.Kind() == types.Uint8
}

func isString(t types.Type) bool {
	b, ok := t.Underlying().(*types.Basic)
	return ok && b.Info()&types.IsString != 0
}

func (g *Gen) convert(x *ssa.Convert) {
	src, dst := x.X.Type(), x.Type()
	xt := g.term(x.X)
	ss, ds := g.sortOf(src), g.sortOf(dst)
	switch {
	case isString(dst) && isByteSlice(src):
		g.define(x, g.bytesAsStr(xt.S))
	case isByteSlice(dst) && isString(src):
		g.strToBytes(x, xt.S)
	case ss == "Int" && ds == "Int":
		lo, hi, ok := intRange(dst)
		slo, shi, sok := intRange(src)
		if !ok || (sok && rangeWithin(slo, shi, lo, hi)) {
			g.define(x, xt.S)
			return
		}
		if w, uns := uintWidth(dst); uns {
			g.define(x, fmt.Sprintf("(mod %s %s)", xt.S, w))
			return
		}
		// signed narrowing: wrap
		w := signedWidth(dst)
		g.define(x, fmt.Sprintf("(let ((m (mod %s %s))) (ite (< m %s) m (- m %s)))", xt.S, w, halfOf(w), w))
	case ss == "Int" && ds == "Real":
		g.define(x, fmt.Sprintf("(to_real %s)", xt.S))
	case ss == "Real" && ds == "Int":
		g.note("float64 modelled as Real; float->int conversion is truncation (IEEE rounding/overflow dropped)")
		g.define(x, fmt.Sprintf("(ite (>= %s 0.0) (to_int %s) (- (to_int (- %s))))", xt.S, xt.S, xt.S))
	case ss == ds && ss != "Str":
		g.define(x, xt.S)
	case isString(dst) && ss == "Int":
		g.define(x, "") // string(rune)
	default:
		g.note(fmt.Sprintf("conversion %s -> %s not modelled: result havocked", src, dst))
		g.define(x, "")
	}
}

func (g *Gen) strToBytes(x ssa.Value, s string) {
	arr := g.allocFresh("bytes")
	h := g.sv("E_uint8", "(Array Int (Array Int Int))")
	nv := g.havocSV("E_uint8", "(Array Int (Array Int Int))")
	g.assumeRaw(fmt.Sprintf("(forall ((r Int)) (! (=> (not (= r %s)) (= (select %s r) (select %s r))) :pattern ((select %s r))))", arr, nv, h, nv))
	g.assumeRaw(fmt.Sprintf("(forall ((i Int)) (! (=> (and (<= 0 i) (< i (len %s))) (= (select (select %s %s) i) (at %s i))) :pattern ((select (select %s %s) i))))", s, nv, arr, s, nv, arr))
	// reading the fresh array back as a string gives s again
	g.assumeRaw(fmt.Sprintf("(= (b2s (select %s %s) 0 (len %s)) %s)", nv, arr, s, s))
	g.define(x, fmt.Sprintf("(mkslc %s 0 (len %s) (len %s))", arr, s, s))
}

func rangeWithin(slo, shi, lo, hi string) bool {
	return cmpNum(slo, lo) >= 0 && cmpNum(shi, hi) <= 0
}

func cmpNum(a, b string) int {
	pa, na := parseNum(a)
	pb, nb := parseNum(b)
	if na != nb {
		if na {
			return -1
		}
		return 1
	}
	c := 0
	if len(pa) != len(pb) {
		if len(pa) < len(pb) {
			c = -1
		} else {
			c = 1
		}
	} else {
		c = strings.Compare(pa, pb)
	}
	if na {
		return -c
	}
	return c
}

func parseNum(s string) (string, bool) {
	if strings.HasPrefix(s, "(- ") {
		return strings.TrimSuffix(strings.TrimPrefix(s, "(- "), ")"), true
	}
	return s, false
}

func signedWidth(t types.Type) string {
	switch t.Underlying().(*types.Basic).Kind() {
	case types.Int8:
		return "256"
	case types.Int16:
		return "65536"
	case types.Int32:
		return "4294967296"
	}
	return "18446744073709551616"
}

func halfOf(w string) string {
	switch w {
	case "256":
		return "128"
	case "65536":
		return "32768"
	case "4294967296":
		return "2147483648"
	}
	return "9223372036854775808"
}

func (g *Gen) makeInterface(x *ssa.MakeInterface) {
	xt := g.term(x.X)
	if _, isTP := x.X.Type().(*types.TypeParam); isTP {
		// a value of a type PARAMETER: its dynamic type is whatever the instantiation supplies - unknown here.
		// (Giving it the tag of the parameter itself made every `case T:` of a type switch over any(v) unreachable
		// and the code behind it verify vacuously - reported by a contract agent.)
		t := g.define(x, "")
		g.assume(fmt.Sprintf("(not (= %s 0))", t.S))
		g.note("value of a type parameter boxed into an interface: dynamic type unconstrained, payload not modelled")
		return
	}
	tag := g.P.typeID(x.X.Type())
	switch xt.Sort {
	case "Int":
		g.define(x, fmt.Sprintf("(boxI %d %s)", tag, xt.S))
	case "Str":
		g.define(x, fmt.Sprintf("(boxS %d %s)", tag, xt.S))
	default:
		if strings.HasPrefix(xt.Sort, "S_") {
			g.declBox(xt.Sort)
			g.define(x, fmt.Sprintf("(box!%s %d %s)", xt.Sort, tag, xt.S))
			return
		}
		t := g.define(x, "")
		g.assume(fmt.Sprintf("(and (not (= %s 0)) (= (tagof %s) %d))", t.S, t.S, tag))
	}
}

// declBox declares box/unbox for a struct datatype sort (same axioms as boxI).
func (g *Gen) declBox(srt string) {
	if _, ok := g.decl["box!"+srt]; ok {
		return
	}
	g.declFun("box!"+srt, "(Int "+srt+") Int")
	g.declFun("unbox!"+srt, "(Int) "+srt)
	g.preDefs = append(g.preDefs, fmt.Sprintf("(assert (forall ((t Int) (v %s)) (! (and (= (tagof (box!%s t v)) t) (= (unbox!%s (box!%s t v)) v) (not (= (box!%s t v) 0))) :pattern ((box!%s t v)))))", srt, srt, srt, srt, srt, srt))
}

func (g *Gen) typeAssert(x *ssa.TypeAssert) {
	xt := g.term(x.X)
	var ok, val string
	if _, isIface := x.AssertedType.Underlying().(*types.Interface); isIface {
		okc := g.newConst("taok", "Bool")
		g.assume(imp(fmt.Sprintf("(= %s 0)", xt.S), not(okc)))
		ok, val = okc, xt.S
		g.note("interface-to-interface type assertion: outcome not modelled (havocked unless the value is nil)")
	} else {
		tag := g.P.typeID(x.AssertedType)
		ok = fmt.Sprintf("(and (not (= %s 0)) (= (tagof %s) %d))", xt.S, xt.S, tag)
		switch ss := g.sortOf(x.AssertedType); {
		case ss == "Int":
			val = fmt.Sprintf("(unboxI %s)", xt.S)
		case ss == "Str":
			val = fmt.Sprintf("(unboxS %s)", xt.S)
		case strings.HasPrefix(ss, "S_"):
			g.declBox(ss)
			val = fmt.Sprintf("(unbox!%s %s)", ss, xt.S)
		default:
			val = ""
		}
	}
	if x.CommaOk {
		t := g.define(x, "")
		g.assumeRaw(fmt.Sprintf("(= %s %s)", t.Tuple[1].S, ok))
		if val != "" {
			g.assume(imp(t.Tuple[1].S, fmt.Sprintf("(= %s %s)", t.Tuple[0].S, val)))
		}
		g.assume(imp(not(t.Tuple[1].S), fmt.Sprintf("(= %s %s)", t.Tuple[0].S, g.zero(x.AssertedType))))
		return
	}
	g.safety("assert", "type", ok, x.Pos())
	g.define(x, val)
}

func (g *Gen) makeSlice(x *ssa.MakeSlice) {
	arr := g.allocFresh("arr")
	n, c := g.term(x.Len).S, g.term(x.Cap).S
	g.safety("bounds", "makeslice", fmt.Sprintf("(and (<= 0 %s) (<= %s %s))", n, n, c), x.Pos())
	g.allocObligation(n, x.Pos())
	et := x.Type().Underlying().(*types.Slice).Elem()
	if st, isSt := structOf(et); isSt {
		if g.structTransparent(et) {
			for i := 0; i < st.NumFields(); i++ {
				hn, vs, ft := g.fieldHeap(et, i)
				if _, nested := structOf(ft); nested {
					continue
				}
				h := g.sv(hn, "(Array Int "+vs+")")
				g.assume(fmt.Sprintf("(forall ((i Int)) (! (= (select %s (elemref %s i)) %s) :pattern ((select %s (elemref %s i)))))", h, arr, g.zero(ft), h, arr))
			}
		}
	} else {
		h, s := g.elemHeap(et)
		srt := "(Array Int (Array Int " + s + "))"
		hv := g.sv(h, srt)
		g.setSV(h, srt, fmt.Sprintf("(store %s %s ((as const (Array Int %s)) %s))", hv, arr, s, g.zero(et)))
	}
	g.define(x, fmt.Sprintf("(mkslc %s 0 %s %s)", arr, n, c))
}

// allocObligation: functions whose contract carries `allocbound EXPR` get an obligation n <= EXPR at every make.
func (g *Gen) allocObligation(n string, p token.Pos) {
	if g.con == nil || g.allocBound == nil {
		return
	}
	env := g.fnEnv(nil)
	t, err := g.eval(g.allocBound.Expr, env)
	if err != nil {
		g.bindFail(g.allocBound, err)
		return
	}
	g.oblige("alloc", g.allocBound.Label, fmt.Sprintf("(<= %s %s)", n, t.S), g.pos(p), g.allocBound.Text, g.allocBound.Props)
}

func (g *Gen) mapHeaps(mt *types.Map) (dom, val, ksort, vsort string) {
	ks, vs := g.sortOf(mt.Key()), g.sortOf(mt.Elem())
	key := typeKey(mt.Key()) + "_" + typeKey(mt.Elem())
	return "MD_" + key, "MV_" + key, ks, vs
}

func (g *Gen) lookup(x *ssa.Lookup) {
	mt, ok := x.X.Type().Underlying().(*types.Map)
	if !ok { // string index via Lookup (older x/tools)
		g.define(x, "")
		return
	}
	md, mv, ks, vs := g.mapHeaps(mt)
	m, k := g.term(x.X).S, g.term(x.Index).S
	dom := fmt.Sprintf("(select (select %s %s) %s)", g.sv(md, "(Array Int (Array "+ks+" Bool))"), m, k)
	val := fmt.Sprintf("(select (select %s %s) %s)", g.sv(mv, "(Array Int (Array "+ks+" "+vs+"))"), m, k)
	in := and(fmt.Sprintf("(not (= %s 0))", m), dom)
	if vs == "" {
		g.define(x, "")
		return
	}
	if x.CommaOk {
		t := g.define(x, "")
		g.assumeRaw(fmt.Sprintf("(= %s %s)", t.Tuple[1].S, in))
		g.assumeRaw(fmt.Sprintf("(= %s (ite %s %s %s))", t.Tuple[0].S, in, val, g.zero(mt.Elem())))
		g.assume(g.typeInv(t.Tuple[0].S, mt.Elem()))
		g.assumeAllocated(t.Tuple[0].S, mt.Elem())
		return
	}
	t := g.define(x, fmt.Sprintf("(ite %s %s %s)", in, val, g.zero(mt.Elem())))
	g.assume(g.typeInv(t.S, mt.Elem()))
	g.assumeAllocated(t.S, mt.Elem())
}

func (g *Gen) mapUpdate(x *ssa.MapUpdate) {
	mt := x.Map.Type().Underlying().(*types.Map)
	md, mv, ks, vs := g.mapHeaps(mt)
	m, k, v := g.term(x.Map).S, g.term(x.Key).S, g.term(x.Value).S
	g.safety("nil", "mapwrite", fmt.Sprintf("(not (= %s 0))", m), x.Pos())
	ds := "(Array Int (Array " + ks + " Bool))"
	d := g.sv(md, ds)
	g.setSV(md, ds, fmt.Sprintf("(store %s %s (store (select %s %s) %s true))", d, m, d, m, k))
	vsrt := "(Array Int (Array " + ks + " " + vs + "))"
	vv := g.sv(mv, vsrt)
	g.setSV(mv, vsrt, fmt.Sprintf("(store %s %s (store (select %s %s) %s %s))", vv, m, vv, m, k, v))
}

func (g *Gen) rangeInstr(x *ssa.Range) {
	g.define(x, "")
	n := "$it_" + sanitize(x.Name())
	if isString(x.X.Type()) {
		g.setSV(n, "Int", "0")
	} else if mt, ok := x.X.Type().Underlying().(*types.Map); ok {
		ks := g.sortOf(mt.Key())
		g.setSV(n, "(Array "+ks+" Bool)", fmt.Sprintf("((as const (Array %s Bool)) false)", ks))
	}
}

func (g *Gen) nextInstr(x *ssa.Next) {
	rng, _ := x.Iter.(*ssa.Range)
	t := g.define(x, "")
	okT, kT, vT := t.Tuple[0], t.Tuple[1], t.Tuple[2]
	if rng == nil {
		return
	}
	n := "$it_" + sanitize(rng.Name())
	if x.IsString {
		s := g.term(rng.X).S
		pos := g.sv(n, "Int")
		g.assume(fmt.Sprintf("(and (<= 0 %s) (<= %s (len %s)))", pos, pos, s))
		g.assumeRaw(fmt.Sprintf("(= %s (< %s (len %s)))", okT.S, pos, s))
		g.assume(imp(okT.S, fmt.Sprintf("(= %s %s)", kT.S, pos)))
		g.assume(imp(okT.S, fmt.Sprintf("(and (=> (< (at %s %s) 128) (= %s (at %s %s))) (=> (>= (at %s %s) 128) (>= %s 128)) (<= 0 %s) (<= %s 1114111))", s, pos, vT.S, s, pos, s, pos, vT.S, vT.S, vT.S)))
		np := g.newConst("itpos", "Int")
		g.assume(imp(okT.S, fmt.Sprintf("(and (> %s %s) (<= %s (+ %s 4)) (<= %s (len %s)) (=> (< (at %s %s) 128) (= %s (+ %s 1))))", np, pos, np, pos, np, s, s, pos, np, pos)))
		g.assume(imp(not(okT.S), fmt.Sprintf("(= %s %s)", np, pos)))
		g.cur[n] = np
		return
	}
	mt, ok := rng.X.Type().Underlying().(*types.Map)
	if !ok {
		return
	}
	md, mv, ks, vs := g.mapHeaps(mt)
	m := g.term(rng.X).S
	seen := g.sv(n, "(Array "+ks+" Bool)")
	dom := fmt.Sprintf("(select %s %s)", g.sv(md, "(Array Int (Array "+ks+" Bool))"), m)
	if kT.Sort != ks {
		g.note("map range with unused key: iteration order/visited set not modelled for this loop")
		return
	}
	g.assume(imp(okT.S, fmt.Sprintf("(and (not (= %s 0)) (select %s %s) (not (select %s %s)))", m, dom, kT.S, seen, kT.S)))
	g.assume(imp(not(okT.S), fmt.Sprintf("(forall ((k %s)) (=> (select %s k) (select %s k)))", ks, dom, seen)))
	if vT.Sort == vs {
		g.assume(imp(okT.S, fmt.Sprintf("(= %s (select (select %s %s) %s))", vT.S, g.sv(mv, "(Array Int (Array "+ks+" "+vs+"))"), m, kT.S)))
		g.assume(g.typeInv(vT.S, mt.Elem()))
	}
	g.setSV(n, "(Array "+ks+" Bool)", fmt.Sprintf("(ite %s (store %s %s true) %s)", okT.S, seen, kT.S, seen))
	g.iterKey[rng] = kT.S
}

func (g *Gen) ret(x *ssa.Return) {
	if g.con == nil {
		return
	}
	env := g.fnEnv(nil)
	env.at = x
	g.bindResults(env, x.Results)
	for _, c := range g.con.Ensures {
		t, err := g.eval(c.Expr, env)
		if err != nil {
			g.bindFail(c, err)
			continue
		}
		g.oblige("post", c.Label, t.S, c.Where, c.Text, c.Props)
	}
	for _, c := range g.con.Preserves {
		t, err := g.eval(c.Expr, env)
		if err != nil {
			g.bindFail(c, err)
			continue
		}
		g.oblige("preserves", c.Label, t.S, c.Where, c.Text, c.Props)
	}
	// lock discipline at exit: every lock named in the contract is released
	for _, ls := range g.con.Locks {
		lt, err := g.eval(ls.Lock, env)
		if err != nil {
			continue
		}
		g.oblige("lock", "released-at-exit", not(fmt.Sprintf("(select %s %s)", g.sv("$held", "(Array Int Bool)"), lt.S)), g.pos(x.Pos()), ls.Text, nil)
	}
	g.frameCheck(x)
	g.retBlocks = append(g.retBlocks, g.curReach)
}

func (g *Gen) bindResults(env *Env, rs []ssa.Value) {
	for i, r := range rs {
		t := g.term(r)
		env.names[fmt.Sprintf("result%d", i)] = t
		if i == 0 {
			env.names["result"] = t
		}
	}
	// named results
	if sig := g.fn.Signature; sig.Results() != nil {
		for i := 0; i < sig.Results().Len() && i < len(rs); i++ {
			if n := sig.Results().At(i).Name(); n != "" && n != "_" {
				env.names[n] = g.term(rs[i])
			}
		}
	}
}

func (g *Gen) runDefers() {
	for i := len(g.defers) - 1; i >= 0; i-- {
		d := g.defers[i]
		flag := g.sv(d.flag, "Bool")
		if flag == d.flag+"!0" {
			continue
		}
		// conditional execution of the deferred call under `flag`
		before := copyState(g.cur)
		saveReach := g.curReach
		g.curReach = and(saveReach, flag)
		g.call(nil, d.call.Common(), d.call)
		g.curReach = saveReach
		after := g.cur
		merged := copyState(before)
		var ns []string
		for n := range after {
			ns = append(ns, n)
		}
		sort.Strings(ns)
		for _, n := range ns {
			a := after[n]
			bv, ok := before[n]
			if !ok {
				bv = n + "!0"
			}
			if a == bv {
				continue
			}
			j := g.newConst(n, g.svSort[n])
			g.assumeRaw(fmt.Sprintf("(= %s (ite %s %s %s))", j, flag, a, bv))
			merged[n] = j
		}
		g.cur = merged
	}
}

// Real multiplication/division of two non-constant operands is kept uninterpreted (rmul/rdiv): the
// proofs that need it are congruence arguments, and nonlinear real arithmetic makes the solvers time out.
func isConstVal(v ssa.Value) bool { _, ok := v.(*ssa.Const); return ok }

func (g *Gen) realMul(x, y ssa.Value, a, b string) string {
	if (x != nil && isConstVal(x)) || (y != nil && isConstVal(y)) {
		return fmt.Sprintf("(* %s %s)", a, b)
	}
	g.declFun("rmul", "(Real Real) Real")
	g.note("float64 products/quotients of two variables are uninterpreted (rmul/rdiv); IEEE rounding dropped")
	return fmt.Sprintf("(rmul %s %s)", a, b)
}

func (g *Gen) realDiv(y ssa.Value, a, b string) string {
	if y != nil && isConstVal(y) {
		return fmt.Sprintf("(/ %s %s)", a, b)
	}
	g.declFun("rdiv", "(Real Real) Real")
	return fmt.Sprintf("(rdiv %s %s)", a, b)
}

// preciseLoopWrites: if every write to heap n inside the loop headed by h is a single-location store whose
// base (object reference / array) is loop-invariant, return those bases.
func (g *Gen) preciseLoopWrites(h *ssa.BasicBlock, n string) ([]string, bool) {
	if g.pass1 == nil || strings.HasPrefix(n, "$") {
		return nil, false
	}
	seen := map[string]bool{}
	var bases []string
	for bb := range g.loopBody[h] {
		if g.pass1.imprecise[bb][n] {
			return nil, false
		}
		for _, r := range g.pass1.storeRecs[bb][n] {
			if r.whole || !g.loopInvariant(h, r.baseVal) {
				return nil, false
			}
			if !seen[r.base] {
				seen[r.base] = true
				bases = append(bases, r.base)
			}
		}
	}
	if len(bases) == 0 || len(bases) > 4 {
		return nil, false
	}
	sort.Strings(bases)
	return bases, true
}

func (g *Gen) loopInvariant(h *ssa.BasicBlock, v ssa.Value) bool {
	switch x := v.(type) {
	case *ssa.Parameter, *ssa.FreeVar, *ssa.Global, *ssa.Const:
		return true
	case ssa.Instruction:
		b := x.Block()
		return b != nil && !g.loopBody[h][b] && b.Dominates(h)
	}
	return false
}

// loopLocalWrites: all writes to heap n in the loop are single-location stores whose base object is
// allocated inside the loop body.
func (g *Gen) loopLocalWrites(h *ssa.BasicBlock, n string) bool {
	if g.pass1 == nil || strings.HasPrefix(n, "$") || !(strings.HasPrefix(n, "H_") || strings.HasPrefix(n, "C_")) {
		return false
	}
	any := false
	for bb := range g.loopBody[h] {
		if g.pass1.imprecise[bb][n] {
			return false
		}
		for _, r := range g.pass1.storeRecs[bb][n] {
			al, ok := r.baseVal.(*ssa.Alloc)
			if !ok || al.Block() == nil || !g.loopBody[h][al.Block()] {
				return false
			}
			any = true
		}
	}
	return any
}
