package main

// Closure-private state: a variable captured by the closure under verification that no closure
// writes and whose address never escapes is unchanged by every callee; after a havoc the engine
// re-assumes its value (and, as a stated assumption, the elements of its backing array for slices).

import (
	"fmt"
	"go/types"
	"sort"

	"golang.org/x/tools/go/ssa"
)

// addrUsesOK: every use of the address value v is a load, a field/element address that is itself only
// loaded (or stored to when allowStore), a debug reference or a closure binding that satisfies the same.
func addrUsesOK(v ssa.Value, allowStore bool, depth int) bool {
	if depth > 6 {
		return false
	}
	refs := v.Referrers()
	if refs == nil {
		return true
	}
	for _, ref := range *refs {
		switch x := ref.(type) {
		case *ssa.UnOp, *ssa.DebugRef:
		case *ssa.Store:
			if x.Addr != v || !allowStore {
				return false
			}
		case *ssa.FieldAddr:
			if !addrUsesOK(x, allowStore, depth+1) {
				return false
			}
		case *ssa.IndexAddr:
			if !addrUsesOK(x, allowStore, depth+1) {
				return false
			}
		case *ssa.MakeClosure:
			cfn := x.Fn.(*ssa.Function)
			for i, b := range x.Bindings {
				if b == v {
					if !addrUsesOK(cfn.FreeVars[i], false, depth+1) {
						return false
					}
				}
			}
		default:
			return false
		}
	}
	return true
}

// stableFreeVar: the captured variable is written only by the function that declares it and its
// address never escapes.
func stableFreeVar(fv *ssa.FreeVar) bool {
	fn := fv.Parent()
	idx := -1
	for i, f := range fn.FreeVars {
		if f == fv {
			idx = i
		}
	}
	par := fn.Parent()
	if par == nil || idx < 0 {
		return false
	}
	var bind ssa.Value
	for _, b := range par.Blocks {
		for _, ins := range b.Instrs {
			if mc, ok := ins.(*ssa.MakeClosure); ok && mc.Fn == fn {
				bind = mc.Bindings[idx]
			}
		}
	}
	switch b := bind.(type) {
	case *ssa.Alloc:
		return addrUsesOK(b, true, 0)
	case *ssa.FreeVar:
		return addrUsesOK(fv, false, 0) && stableFreeVar(b)
	}
	return false
}

// restoreStable re-assumes the values of closure-private captured variables after a havoc.
func (g *Gen) restoreStable(before State) {
	if g.fn == nil {
		return
	}
	for _, fv := range g.fn.FreeVars {
		ok, seen := g.stableFV[fv]
		if !seen {
			ok = stableFreeVar(fv)
			g.stableFV[fv] = ok
		}
		if !ok {
			continue
		}
		et := fv.Type().Underlying().(*types.Pointer).Elem()
		ref := g.term(fv).S
		g.restoreValue(before, ref, et, 0)
	}
	// locals of this function that live on the heap only because a nested closure reads them: nobody but
	// this function writes them, so a callee cannot change them
	var allocs []*ssa.Alloc
	for v := range g.vals {
		if al, ok := v.(*ssa.Alloc); ok && al.Heap && al.Parent() == g.fn {
			allocs = append(allocs, al)
		}
	}
	sort.Slice(allocs, func(i, j int) bool { return g.vals[allocs[i]].S < g.vals[allocs[j]].S })
	for _, al := range allocs {
		st, seen := g.stableLoc[al]
		if !seen {
			st = addrUsesOK(al, true, 0)
			g.stableLoc[al] = st
		}
		if !st {
			continue
		}
		et := al.Type().Underlying().(*types.Pointer).Elem()
		if _, isArr := et.Underlying().(*types.Array); isArr {
			continue
		}
		g.restoreValue(before, g.term(al).S, et, 0)
	}
}

func (g *Gen) restoreValue(before State, ref string, t types.Type, depth int) {
	if depth > 3 {
		return
	}
	if st, ok := structOf(t); ok {
		for i := 0; i < st.NumFields(); i++ {
			hn, vs, ft := g.fieldHeap(t, i)
			switch ft.Underlying().(type) {
			case *types.Struct:
				g.restoreValue(before, g.subref(t, i, ref), ft, depth+1)
				continue
			case *types.Array:
				continue
			}
			srt := "(Array Int " + vs + ")"
			if _, touched := g.allSV()[hn]; !touched {
				continue
			}
			a, b := g.svIn(before, hn, srt), g.sv(hn, srt)
			if a != b {
				g.assume(fmt.Sprintf("(= (select %s %s) (select %s %s))", b, ref, a, ref))
			}
			if sl, ok := ft.Underlying().(*types.Slice); ok {
				g.restoreElems(before, fmt.Sprintf("(select %s %s)", a, ref), sl.Elem())
			}
		}
		return
	}
	h, vs := g.cellHeap(t)
	srt := "(Array Int " + vs + ")"
	a, b := g.svIn(before, h, srt), g.sv(h, srt)
	if a != b {
		g.assume(fmt.Sprintf("(= (select %s %s) (select %s %s))", b, ref, a, ref))
	}
	if sl, ok := t.Underlying().(*types.Slice); ok {
		g.restoreElems(before, fmt.Sprintf("(select %s %s)", a, ref), sl.Elem())
	}
}

// restoreElems: the backing array of a closure-private slice keeps its elements (assumption: the
// array is reachable only through the captured variable).
func (g *Gen) restoreElems(before State, slc string, et types.Type) {
	g.note("assumption: backing arrays of slices held in non-escaping closure-captured variables are not modified by callees")
	if st, ok := structOf(et); ok {
		if !g.structTransparent(et) {
			return
		}
		for i := 0; i < st.NumFields(); i++ {
			hn, vs, ft := g.fieldHeap(et, i)
			if _, nested := structOf(ft); nested {
				continue
			}
			srt := "(Array Int " + vs + ")"
			if _, touched := g.allSV()[hn]; !touched {
				continue
			}
			a, b := g.svIn(before, hn, srt), g.sv(hn, srt)
			if a != b {
				g.assume(fmt.Sprintf("(forall ((i Int)) (! (= (select %s (elemref (sarr %s) i)) (select %s (elemref (sarr %s) i))) :pattern ((select %s (elemref (sarr %s) i)))))", b, slc, a, slc, b, slc))
			}
		}
		return
	}
	h, vs := g.elemHeap(et)
	srt := "(Array Int (Array Int " + vs + "))"
	if _, touched := g.allSV()[h]; !touched {
		return
	}
	a, b := g.svIn(before, h, srt), g.sv(h, srt)
	if a != b {
		g.assume(fmt.Sprintf("(= (select %s (sarr %s)) (select %s (sarr %s)))", b, slc, a, slc))
	}
}
