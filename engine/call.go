package main

// Calls: builtins, locks, atomics, contracts (requires / modifies / ensures), atcall clauses,
// default frame rule for callees without a contract.

import (
	"fmt"
	"go/types"
	"sort"
	"strings"

	"golang.org/x/tools/go/ssa"
)

func canon(fn *ssa.Function) string {
	if p := fn.Parent(); p != nil {
		for i, a := range p.AnonFuncs {
			if a == fn {
				return fmt.Sprintf("%s$%d", canon(p), i+1)
			}
		}
		return canon(p) + "$?"
	}
	o := fn
	if fn.Origin() != nil {
		o = fn.Origin()
	}
	var pkg *types.Package
	if o.Pkg != nil {
		pkg = o.Pkg.Pkg
	} else if o.Object() != nil {
		pkg = o.Object().Pkg()
	}
	if pkg == nil {
		return "?." + stripTypeArgs(o.Name())
	}
	rel := o.RelString(pkg)
	return pkg.Name() + "." + stripTypeArgs(rel)
}

func stripTypeArgs(s string) string {
	// drop [..] type argument lists
	var b strings.Builder
	d := 0
	for _, r := range s {
		switch {
		case r == '[':
			d++
		case r == ']':
			d--
		case d == 0:
			b.WriteRune(r)
		}
	}
	return b.String()
}

func namedKey(t types.Type) string {
	if p, ok := t.(*types.Pointer); ok {
		t = p.Elem()
	}
	if n, ok := t.(*types.Named); ok {
		if n.Obj().Pkg() == nil {
			return n.Obj().Name()
		}
		return n.Obj().Pkg().Name() + "." + n.Obj().Name()
	}
	if a, ok := t.(*types.Alias); ok {
		return namedKey(types.Unalias(a))
	}
	return typeKey(t)
}

var purePkgs = map[string]bool{
	"strings": true, "strconv": true, "unicode": true, "utf8": true, "math": true, "errors": true,
	"html": true, "fmt": true, "utils": true, "bytes": true, "net": true, "time": true, "url": true, "mime": true,
	"filepath": true, "path": true, "base64": true, "hex": true, "subtle": true, "slices": true, "maps": true,
	"reflect": true, "uuid": true, "regexp": true, "textproto": true, "big": true, "bits": true, "os": true, "log": true,
	"hash": true, "sha256": true, "rand": true, "cmp": true, "binary": true, "atomic": true, "tls": true, "x509": true,
}

type calleeInfo struct {
	key     string
	fn      *ssa.Function
	formals []string
	sig     *types.Signature
	pkg     *types.Package
	kind    string // static invoke field var dynamic builtin
}

func sigFormals(sig *types.Signature, recv string) []string {
	var fs []string
	if recv != "" {
		fs = append(fs, recv)
	}
	for i := 0; i < sig.Params().Len(); i++ {
		n := sig.Params().At(i).Name()
		if n == "" || n == "_" {
			n = fmt.Sprintf("arg%d", i)
		}
		fs = append(fs, n)
	}
	return fs
}

func (g *Gen) resolveCallee(c *ssa.CallCommon) calleeInfo {
	if c.IsInvoke() {
		ci := calleeInfo{kind: "invoke", key: namedKey(c.Value.Type()) + "." + c.Method.Name()}
		ci.sig = c.Method.Type().(*types.Signature)
		ci.formals = sigFormals(ci.sig, "recv")
		ci.pkg = c.Method.Pkg()
		return ci
	}
	if b, ok := c.Value.(*ssa.Builtin); ok {
		return calleeInfo{kind: "builtin", key: b.Name()}
	}
	if fn := c.StaticCallee(); fn != nil {
		ci := calleeInfo{kind: "static", key: canon(fn), fn: fn, sig: fn.Signature}
		if fn.Pkg != nil {
			ci.pkg = fn.Pkg.Pkg
		} else if fn.Object() != nil {
			ci.pkg = fn.Object().Pkg()
		} else if fn.Origin() != nil && fn.Origin().Pkg != nil {
			ci.pkg = fn.Origin().Pkg.Pkg
		}
		recv := ""
		if fn.Signature.Recv() != nil {
			recv = fn.Signature.Recv().Name()
			if recv == "" || recv == "_" {
				recv = "recv"
			}
		}
		ci.formals = sigFormals(fn.Signature, recv)
		if _, isClo := c.Value.(*ssa.MakeClosure); isClo {
			ci.kind = "closure"
		}
		return ci
	}
	sig, _ := c.Value.Type().Underlying().(*types.Signature)
	ci := calleeInfo{kind: "dynamic", key: "?", sig: sig}
	switch nt := c.Value.Type().(type) {
	case *types.Named, *types.Alias:
		ci.key = namedKey(nt) // e.g. fiber.ErrorHandler, fiber.Handler
	}
	if sig != nil {
		ci.formals = sigFormals(sig, "")
	}
	// value loaded from a struct field?
	v := c.Value
	if u, ok := v.(*ssa.UnOp); ok {
		switch x := u.X.(type) {
		case *ssa.FieldAddr:
			st := x.X.Type().Underlying().(*types.Pointer).Elem()
			stt, _ := structOf(st)
			ci.kind = "field"
			ci.key = namedKey(st) + "." + stt.Field(x.Field).Name()
			if n, ok := st.(*types.Named); ok {
				ci.pkg = n.Obj().Pkg()
			}
		case *ssa.FreeVar:
			ci.kind, ci.key = "var", g.pkgName()+".var "+x.Name()
		case *ssa.Alloc:
			ci.kind, ci.key = "var", g.pkgName()+".var "+x.Comment
		case *ssa.IndexAddr:
			// element of a slice of funcs loaded from a field: T.field[]
			if ld, ok := x.X.(*ssa.UnOp); ok {
				if fa, ok := ld.X.(*ssa.FieldAddr); ok {
					st := fa.X.Type().Underlying().(*types.Pointer).Elem()
					stt, _ := structOf(st)
					ci.kind = "field"
					ci.key = namedKey(st) + "." + stt.Field(fa.Field).Name() + "$elem"
				}
			}
		}
	} else if phi, ok := v.(*ssa.Phi); ok {
		// a local assigned from one struct field on several paths: resolve to that field's contract
		if k := phiFieldKey(phi); k != "" {
			ci.kind, ci.key = "field", k
		}
	} else if p, ok := v.(*ssa.Parameter); ok {
		ci.kind, ci.key = "var", g.pkgName()+".param "+p.Name()
	} else if f, ok := v.(*ssa.Field); ok {
		st := f.X.Type()
		stt, _ := structOf(st)
		ci.kind = "field"
		ci.key = namedKey(st) + "." + stt.Field(f.Field).Name()
	}
	return ci
}

// phiFieldKey: every non-nil leaf reachable through phis is a load of the same struct field.
func phiFieldKey(phi *ssa.Phi) string {
	seen := map[ssa.Value]bool{}
	key := ""
	okAll := true
	var walk func(v ssa.Value)
	walk = func(v ssa.Value) {
		if seen[v] || !okAll {
			return
		}
		seen[v] = true
		switch x := v.(type) {
		case *ssa.Phi:
			for _, e := range x.Edges {
				walk(e)
			}
		case *ssa.Const:
			if x.Value != nil {
				okAll = false
			}
		case *ssa.UnOp:
			fa, ok := x.X.(*ssa.FieldAddr)
			if !ok {
				okAll = false
				return
			}
			st := fa.X.Type().Underlying().(*types.Pointer).Elem()
			stt, _ := structOf(st)
			k := namedKey(st) + "." + stt.Field(fa.Field).Name()
			if key != "" && key != k {
				okAll = false
			}
			key = k
		default:
			okAll = false
		}
	}
	walk(phi)
	if !okAll {
		return ""
	}
	return key
}

func (g *Gen) pkgName() string {
	if g.con != nil {
		return g.con.Pkg
	}
	if e := g.fnEnv(nil); e.pkg != nil {
		return e.pkg.Name()
	}
	return "?"
}

func (g *Gen) call(v *ssa.Call, c *ssa.CallCommon, ins ssa.Instruction) {
	ci := g.resolveCallee(c)
	var args []Term
	if c.IsInvoke() {
		args = append(args, g.term(c.Value))
	}
	for _, a := range c.Args {
		args = append(args, g.term(a))
	}
	var res ssa.Value
	if v != nil {
		res = v
	}
	if ci.kind == "builtin" {
		g.builtin(ci.key, c, args, res, ins)
		return
	}
	// pointer arguments that are addresses of fields / elements: the callee dereferences them through the cell
	// heap, the caller reads the field heap — copy in before the call and copy out after it
	type ptrArg struct{ field, cell Addr }
	var pargs []ptrArg
	for _, av := range c.Args {
		ad, ok := g.addrs[av]
		if !ok || ad.T == nil || strings.HasPrefix(ci.key, "atomic.") {
			continue // sync/atomic operations act on the addressed location directly
		}
		if _, isSt := structOf(ad.T); isSt {
			continue
		}
		if _, isArr := ad.T.Underlying().(*types.Array); isArr {
			continue
		}
		h, srt := g.cellHeap(ad.T)
		cell := Addr{Heap: h, Base: g.term(av).S, Sort: srt, T: ad.T}
		g.store(cell, g.load(ad))
		pargs = append(pargs, ptrArg{ad, cell})
	}
	defer func() {
		for _, pa := range pargs {
			g.store(pa.field, g.load(pa.cell))
		}
	}()
	// atcall clauses of the enclosing function's contract
	names := map[string]Term{}
	for i, f := range ci.formals {
		if i < len(args) {
			names[f] = args[i]
		}
	}
	for i, a := range args {
		names[fmt.Sprintf("arg%d", i)] = a
	}
	if !c.IsInvoke() {
		if _, isFn := c.Value.(*ssa.Function); !isFn {
			if _, isB := c.Value.(*ssa.Builtin); !isB {
				names["fnvalue"] = g.term(c.Value)
			}
		}
	}
	con := g.P.cs.Funcs[ci.key]
	if con != nil && len(con.Params) > 0 {
		for i, f := range con.Params {
			if i < len(args) {
				names[f] = args[i]
			}
		}
	}
	if g.con != nil {
		for _, ac := range g.con.AtCalls {
			if ac.Callee != ci.key {
				continue
			}
			env := g.fnEnv(names)
			env.at = ins
			env.paramsFirst = false
			env.pos = true
			g.atcallSeen[ac] = true
			t, err := g.eval(ac.Expr, env)
			if err != nil {
				g.bindFail(ac, err)
				continue
			}
			g.oblige("atcall", shortKey(ci.key)+":"+ac.Label, t.S, ac.Where, ac.Text, ac.Props)
		}
	}
	if g.lockOp(ci.key, args, ins) {
		if res != nil {
			g.define(res, "")
		}
		return
	}
	if g.atomicOp(ci, c, res) {
		return
	}
	pre := copyState(g.cur)
	var rt Term
	if ci.kind == "closure" && ci.fn != nil {
		// the closure's own contract may name its captured variables: bind them to the cells bound at MakeClosure
		if mc, ok := c.Value.(*ssa.MakeClosure); ok {
			g.cloBind = map[string]ssa.Value{}
			for i, fv := range ci.fn.FreeVars {
				if i < len(mc.Bindings) {
					g.cloBind[fv.Name()] = mc.Bindings[i]
				}
			}
			defer func() { g.cloBind = nil }()
		}
	}
	if con != nil {
		g.assumedUsedNote(con)
		env := g.calleeEnv(names, ins)
		env.siblingScope = ci.kind == "var" || ci.kind == "closure"
		for _, rq := range con.Requires {
			t, err := g.eval(rq.Expr, env)
			if err != nil {
				g.bindFail(rq, fmt.Errorf("at call of %s in %s: %v", ci.key, g.name, err))
				continue
			}
			g.oblige("pre", shortKey(ci.key)+":"+rq.Label, t.S, g.pos(ins.Pos()), rq.Text, nil)
		}
		g.preAlloc = g.sv("$alloc", "(Array Int Bool)")
		if (!con.Pure && (len(con.Modifies) > 0)) || con.Fresh || con.Allocates {
			g.bumpAlloc()
		}
		// modifies targets denote locations of the PRE-call state: evaluate them there, then havoc
		envM := env.clone()
		envM.st = pre
		envM.old = pre
		for _, m := range con.Modifies {
			g.applyModifies(m, envM, ci)
		}
		if con.CallsBack {
			g.callbackInvariants(c, ins, true)
			g.applyCallbacks(c, ins)
			g.callbackInvariants(c, ins, false)
		}
		if !con.Pure && len(con.Modifies) == 0 && !con.Assumed && !con.hasFrame() {
			g.defaultEffects(ci, c, args)
		}
		if res != nil {
			rt = g.define(res, "")
			g.resultAssumptions(rt, res.Type(), con.Fresh)
		}
		env2 := g.calleeEnv(names, ins)
		env2.siblingScope = env.siblingScope
		env2.old = pre
		if res != nil {
			g.bindCallResult(env2, rt)
			// named results of the callee's signature
			if ci.sig != nil && ci.sig.Results() != nil {
				for i := 0; i < ci.sig.Results().Len(); i++ {
					n := ci.sig.Results().At(i).Name()
					if n == "" || n == "_" {
						continue
					}
					if _, shadow := env2.names[n]; shadow {
						continue
					}
					if len(rt.Tuple) > i {
						env2.names[n] = rt.Tuple[i]
					} else if i == 0 && len(rt.Tuple) == 0 {
						env2.names[n] = rt
					}
				}
			}
			if con.Allocates && g.preAlloc != "" {
				// an array/object returned by an allocating callee that was not allocated before is its own root
				if len(rt.Tuple) == 0 && rt.Sort == "Slc" {
					g.assume(fmt.Sprintf("(=> (not (select %s (sarr %s))) (= (rootof (sarr %s)) (sarr %s)))", g.preAlloc, rt.S, rt.S, rt.S))
				}
				for _, e := range rt.Tuple {
					if e.Sort == "Slc" {
						g.assume(fmt.Sprintf("(=> (not (select %s (sarr %s))) (= (rootof (sarr %s)) (sarr %s)))", g.preAlloc, e.S, e.S, e.S))
					}
				}
			}
		}
		for _, en := range append(append([]*Clause{}, con.Ensures...), con.Defines...) {
			if en.Kind == "defines" {
				g.assumedUsed["defining equation of "+con.Name+": "+en.Text+" (the function is assumed to be a deterministic function of the state)"] = true
			}
			t, err := g.eval(en.Expr, env2)
			if err != nil {
				if !isUnbound(err) { // an assumption that cannot be stated here is simply not made
					g.bindFail(en, fmt.Errorf("at call of %s in %s: %v", ci.key, g.name, err))
				}
				continue
			}
			g.assume(t.S)
		}
	} else {
		g.noContract[ci.key] = true
		g.defaultEffects(ci, c, args)
		if res != nil {
			rt = g.define(res, "")
			g.resultAssumptions(rt, res.Type(), false)
		}
	}
	// last()/called() ghosts
	ck := sanitize(ci.key)
	g.setSV("$called_"+ck, "Bool", "true")
	if res != nil && len(rt.Tuple) == 0 && rt.S != "" {
		if old, ok := g.svSort["$last_"+ck]; !ok || old == rt.Sort {
			g.setSV("$last_"+ck, rt.Sort, rt.S)
			g.lastType["$last_"+ck] = rt.T
		}
	} else if res != nil && len(rt.Tuple) > 0 {
		for i, e := range rt.Tuple {
			n := fmt.Sprintf("$last_%s_%d", ck, i)
			if old, ok := g.svSort[n]; !ok || old == e.Sort {
				g.setSV(n, e.Sort, e.S)
				g.lastType[n] = e.T
			}
		}
	}
}

func (c *FuncContract) hasFrame() bool { return c.Pure || len(c.Modifies) > 0 }

func shortKey(k string) string {
	if i := strings.Index(k, "."); i >= 0 {
		return k[i+1:]
	}
	return k
}

func (g *Gen) assumedUsedNote(con *FuncContract) {
	if con.Assumed {
		g.assumedUsed["assumed contract "+con.Name+" ("+con.Where+")"] = true
	}
}

func (g *Gen) calleeEnv(names map[string]Term, ins ssa.Instruction) *Env {
	// callee contracts are evaluated over the callee's formals only (plus ghosts/consts)
	e := &Env{names: map[string]Term{}, st: g.cur, old: g.cur, noLocals: true, paramsFirst: false}
	e.pkg = g.fnEnv(nil).pkg
	for k, v := range names {
		e.names[k] = v
	}
	var cbNames []string
	for n := range g.cloBind {
		cbNames = append(cbNames, n)
	}
	sort.Strings(cbNames)
	for _, n := range cbNames {
		cell := g.cloBind[n]
		if _, shadow := e.names[n]; shadow {
			continue
		}
		et, ok := derefT(cell.Type())
		if !ok {
			continue
		}
		if _, isSt := structOf(et); isSt {
			e.names[n] = Term{S: g.term(cell).S, Sort: "Int", T: cell.Type()}
			continue
		}
		a := g.addrOf(cell)
		if v := g.loadValueIn(g.cur, a, et, 0); v != "" {
			e.names[n] = Term{S: v, Sort: g.sortOf(et), T: et}
		}
	}
	e.calleeMode = true
	return e
}

func (g *Gen) bindCallResult(env *Env, rt Term) {
	if len(rt.Tuple) > 0 {
		for i, e := range rt.Tuple {
			env.names[fmt.Sprintf("result%d", i)] = e
		}
		env.names["result"] = rt.Tuple[0]
		return
	}
	env.names["result"] = rt
	env.names["result0"] = rt
}

func (g *Gen) resultAssumptions(rt Term, t types.Type, fresh bool) {
	if len(rt.Tuple) > 0 {
		tup := t.(*types.Tuple)
		for i, e := range rt.Tuple {
			g.assumeAllocated(e.S, tup.At(i).Type())
		}
		return
	}
	if fresh {
		al := g.sv("$alloc", "(Array Int Bool)")
		g.assume(fmt.Sprintf("(and (not (= %s 0)) (select %s %s) (= (subtag %s) 0))", rt.S, al, rt.S, rt.S))
		if g.preAlloc != "" {
			g.assume(fmt.Sprintf("(not (select %s %s))", g.preAlloc, rt.S))
		}
		return
	}
	g.assumeAllocated(rt.S, t)
}

func (g *Gen) bumpAlloc() {
	old := g.sv("$alloc", "(Array Int Bool)")
	nv := g.havocSV("$alloc", "(Array Int Bool)")
	g.assumeRaw(fmt.Sprintf("(forall ((r Int)) (! (=> (select %s r) (select %s r)) :pattern ((select %s r))))", old, nv, nv))
}

// applyModifies havocs one modifies target.
func (g *Gen) applyModifies(target string, env *Env, ci calleeInfo) {
	target = strings.TrimSpace(target)
	if target == "*" {
		g.havocAll(nil)
		g.havocSV("$epoch", "Int")
		return
	}
	if target == "heap" { // every heap location (ghost state is kept)
		g.havocAll(func(n string) bool { _, isGhost := g.P.cs.Ghosts[n]; return isGhost })
		g.havocSV("$epoch", "Int")
		return
	}
	if strings.HasPrefix(target, "heap(") {
		n := normHeapName(strings.TrimSuffix(strings.TrimPrefix(target, "heap("), ")"))
		if s, ok := g.svSort[n]; ok {
			g.havocSV(n, s)
		} else if g.pass1 != nil {
			if s, ok := g.pass1.svSort[n]; ok {
				g.havocSV(n, s)
			}
		}
		return
	}
	if srt, ok := g.P.cs.Ghosts[target]; ok {
		g.havocSV(target, srt)
		return
	}
	n, err := parseExpr(target)
	if err != nil {
		g.errs = append(g.errs, "modifies: "+err.Error())
		return
	}
	switch n.Kind {
	case "call":
		if n.Val == "elems" && len(n.Args) == 2 {
			x, err := g.eval(n.Args[1], env)
			if err != nil {
				g.errs = append(g.errs, "modifies: "+err.Error())
				return
			}
			g.havocElems(x)
			return
		}
		if n.Val == "fields" && len(n.Args) == 2 { // every field of the struct object x
			x, err := g.eval(n.Args[1], env)
			if err != nil {
				g.errs = append(g.errs, "modifies: "+err.Error())
				return
			}
			st, _ := derefT(x.T)
			if stt, ok := structOf(st); ok {
				for i := 0; i < stt.NumFields(); i++ {
					hn, vs, ft := g.fieldHeap(st, i)
					switch ft.Underlying().(type) {
					case *types.Struct, *types.Array:
						continue
					}
					g.store(Addr{Heap: hn, Base: x.S, Sort: vs}, g.newConst("hv", vs))
				}
			}
			return
		}
	case "un":
		if n.Val == "*" {
			x, err := g.eval(n.Args[0], env)
			if err == nil {
				if et, ok := derefT(x.T); ok {
					h, s := g.cellHeap(et)
					g.store(Addr{Heap: h, Base: x.S, Sort: s}, g.newConst("hv", s))
					return
				}
			}
		}
	case "sel":
		// x.f (single location) or T.f (whole field heap)
		if n.Args[0].Kind == "id" {
			if st := g.lookupStructType(n.Args[0].Val, env, ci); st != nil {
				stt, _ := structOf(st)
				for i := 0; i < stt.NumFields(); i++ {
					if stt.Field(i).Name() == n.Val {
						hn, vs, _ := g.fieldHeap(st, i)
						g.havocSV(hn, "(Array Int "+vs+")")
						return
					}
				}
			}
		}
		x, err := g.eval(n.Args[0], env)
		if err != nil {
			g.errs = append(g.errs, "modifies "+target+": "+err.Error())
			return
		}
		st, _ := derefT(x.T)
		if stt, ok := structOf(st); ok {
			for i := 0; i < stt.NumFields(); i++ {
				if stt.Field(i).Name() == n.Val {
					hn, vs, ft := g.fieldHeap(st, i)
					switch ft.Underlying().(type) {
					case *types.Struct:
						if !g.structTransparent(ft) {
							g.store(Addr{Heap: "O_" + typeKey(ft), Base: g.subref(st, i, x.S), Sort: "Int"}, g.newConst("otok", "Int"))
							return
						}
						g.errs = append(g.errs, "modifies "+target+": by-value struct field; name its fields")
						return
					case *types.Array:
						g.errs = append(g.errs, "modifies "+target+": by-value array field; use elems()")
						return
					}
					nv := g.newConst("hv", vs)
					g.store(Addr{Heap: hn, Base: x.S, Sort: vs}, nv)
					g.assume(g.typeInv(nv, ft))
					return
				}
			}
		}
	}
	g.errs = append(g.errs, "modifies: cannot interpret target "+target)
}

func (g *Gen) lookupStructType(name string, env *Env, ci calleeInfo) types.Type {
	if _, bound := env.names[name]; bound {
		return nil
	}
	for _, p := range []*types.Package{ci.pkg, env.pkg} {
		if p == nil {
			continue
		}
		if obj := p.Scope().Lookup(name); obj != nil {
			if tn, ok := obj.(*types.TypeName); ok {
				if _, isSt := structOf(tn.Type()); isSt {
					return tn.Type()
				}
			}
		}
	}
	return nil
}

func (g *Gen) havocElems(x Term) {
	var arr string
	var et types.Type
	switch u := x.T.Underlying().(type) {
	case *types.Slice:
		arr, et = "(sarr "+x.S+")", u.Elem()
	case *types.Pointer:
		if at, ok := u.Elem().Underlying().(*types.Array); ok {
			arr, et = x.S, at.Elem()
		}
	}
	if et == nil {
		return
	}
	if _, isSt := structOf(et); isSt {
		stt, _ := structOf(et)
		for i := 0; i < stt.NumFields(); i++ {
			hn, vs, _ := g.fieldHeap(et, i)
			old := g.sv(hn, "(Array Int "+vs+")")
			nv := g.havocSV(hn, "(Array Int "+vs+")")
			g.assumeRaw(fmt.Sprintf("(forall ((r Int)) (! (=> (not (= (er_arr r) %s)) (= (select %s r) (select %s r))) :pattern ((select %s r))))", arr, nv, old, nv))
		}
		return
	}
	h, s := g.elemHeap(et)
	srt := "(Array Int (Array Int " + s + "))"
	hv := g.sv(h, srt)
	row := g.newConst("hv", "(Array Int "+s+")")
	if h == "E_uint8" {
		g.assumeRaw(byteRowRange(row)) // the havocked row of a byte array holds bytes
	}
	g.setSV(h, srt, fmt.Sprintf("(store %s %s %s)", hv, arr, row))
}

// defaultEffects: frame rule for a callee without a (framed) contract.
func (g *Gen) defaultEffects(ci calleeInfo, c *ssa.CallCommon, args []Term) {
	if ci.pkg != nil && !isModulePkg(ci.pkg) && purePkgs[ci.pkg.Name()] && ci.kind == "static" {
		return
	}
	g.bumpAlloc()
	if ci.pkg != nil && !isModulePkg(ci.pkg) && ci.kind == "static" {
		// external package: may write objects of non-module types and containers passed to it
		passes := false
		for _, a := range c.Args {
			switch a.Type().Underlying().(type) {
			case *types.Pointer, *types.Slice, *types.Map, *types.Interface, *types.Signature:
				passes = true
			}
		}
		g.note("frame assumption: external callee " + ci.key + " writes only objects of non-module types and containers reachable from its arguments")
		var ns []string
		for n := range g.allSV() {
			ns = append(ns, n)
		}
		sort.Strings(ns)
		for _, n := range ns {
			if strings.HasPrefix(n, "$") {
				continue
			}
			if _, isGhost := g.P.cs.Ghosts[n]; isGhost {
				continue
			}
			if strings.HasPrefix(n, "H_") {
				if g.heapModule[n] {
					continue
				}
				g.havocSV(n, g.allSV()[n])
			} else if passes {
				g.havocSV(n, g.allSV()[n])
			}
		}
		g.havocSV("$epoch", "Int")
		return
	}
	g.note("frame: callee " + ci.key + " has no contract: every heap location is havocked (ghost state is not)")
	g.havocAll(func(n string) bool { _, isGhost := g.P.cs.Ghosts[n]; return isGhost })
	g.havocSV("$epoch", "Int")
}

func (g *Gen) allSV() map[string]string {
	m := map[string]string{}
	for n, s := range g.svSort {
		m[n] = s
	}
	if g.pass1 != nil {
		for n, s := range g.pass1.svSort {
			m[n] = s
		}
	}
	return m
}

// ---- locks -------------------------------------------------------------------------------

func (g *Gen) lockOp(key string, args []Term, ins ssa.Instruction) bool {
	var acquire bool
	switch key {
	case "sync.(*Mutex).Lock", "sync.(*RWMutex).Lock", "sync.(*RWMutex).RLock":
		acquire = true
	case "sync.(*Mutex).Unlock", "sync.(*RWMutex).Unlock", "sync.(*RWMutex).RUnlock":
		acquire = false
	default:
		return false
	}
	l := args[0].S
	held := g.sv("$held", "(Array Int Bool)")
	if acquire {
		g.oblige("lock", "acquire-not-held", not(fmt.Sprintf("(select %s %s)", held, l)), g.pos(ins.Pos()), "", nil)
		g.setSV("$held", "(Array Int Bool)", fmt.Sprintf("(store %s %s true)", held, l))
	}
	if !acquire {
		g.oblige("lock", "release-held", fmt.Sprintf("(select %s %s)", held, l), g.pos(ins.Pos()), "", nil)
	}
	if g.con != nil {
		for _, ls := range g.con.Locks {
			env := g.fnEnv(nil)
			env.at = ins
			env.paramsFirst = false
			lt, err := g.eval(ls.Lock, env)
			if err != nil {
				g.errs = append(g.errs, "lock spec: "+err.Error())
				continue
			}
			same := fmt.Sprintf("(= %s %s)", lt.S, l)
			if acquire {
				// other goroutines may have changed the protected state while the lock was free
				for _, p := range ls.Protects {
					srt, ok := g.P.cs.Ghosts[p]
					if !ok {
						srt, ok = g.allSV()[p]
					}
					if !ok {
						g.errs = append(g.errs, "lock protects unknown state "+p)
						continue
					}
					old := g.sv(p, srt)
					nv := g.havocSV(p, srt)
					g.assume(imp(not(same), fmt.Sprintf("(= %s %s)", nv, old)))
				}
				if ls.Inv != nil {
					env.st = g.cur
					if t, err := g.eval(ls.Inv.Expr, env); err == nil {
						g.assume(imp(same, t.S))
					} else {
						g.bindFail(ls.Inv, err)
					}
				}
			} else if ls.Inv != nil {
				if t, err := g.eval(ls.Inv.Expr, env); err == nil {
					g.oblige("lockinv", ls.Inv.Label, imp(same, t.S), ls.Inv.Where, ls.Inv.Text, ls.Inv.Props)
				} else {
					g.bindFail(ls.Inv, err)
				}
			}
		}
	}
	if !acquire {
		held = g.sv("$held", "(Array Int Bool)")
		g.setSV("$held", "(Array Int Bool)", fmt.Sprintf("(store %s %s false)", held, l))
	}
	return true
}

func (g *Gen) atomicOp(ci calleeInfo, c *ssa.CallCommon, res ssa.Value) bool {
	if !strings.HasPrefix(ci.key, "atomic.") || len(c.Args) == 0 {
		return false
	}
	name := strings.TrimPrefix(ci.key, "atomic.")
	switch {
	case strings.HasPrefix(name, "Load"):
		a := g.addrOf(c.Args[0])
		t := g.define(res, g.load(a))
		g.assume(g.typeInv(t.S, res.Type()))
	case strings.HasPrefix(name, "Store"):
		a := g.addrOf(c.Args[0])
		g.store(a, g.term(c.Args[1]).S)
	case strings.HasPrefix(name, "Add") && len(c.Args) == 2:
		a := g.addrOf(c.Args[0])
		sum := fmt.Sprintf("(+ %s %s)", g.load(a), g.term(c.Args[1]).S)
		if w, ok := uintWidth(res.Type()); ok {
			sum = fmt.Sprintf("(mod %s %s)", sum, w)
		}
		t := g.define(res, sum)
		g.store(a, t.S)
	default:
		return false
	}
	g.note("sync/atomic modelled as plain load/store (memory model dropped)")
	return true
}

// ---- builtins ----------------------------------------------------------------------------

func (g *Gen) builtin(name string, c *ssa.CallCommon, args []Term, res ssa.Value, ins ssa.Instruction) {
	switch name {
	case "len", "cap":
		x := args[0]
		switch {
		case x.Sort == "Str":
			g.define(res, "(len "+x.S+")")
		case x.Sort == "Slc" && name == "len":
			g.define(res, "(slen "+x.S+")")
		case x.Sort == "Slc":
			g.define(res, "(scap "+x.S+")")
		default:
			if _, ok := c.Args[0].Type().Underlying().(*types.Map); ok {
				g.declFun("maplen", "(Int) Int")
				t := g.define(res, "(maplen "+x.S+")")
				g.assume(fmt.Sprintf("(>= %s 0)", t.S))
				return
			}
			if p, ok := c.Args[0].Type().Underlying().(*types.Pointer); ok {
				if at, ok := p.Elem().Underlying().(*types.Array); ok {
					g.define(res, fmt.Sprint(at.Len()))
					return
				}
			}
			t := g.define(res, "")
			g.assume(fmt.Sprintf("(>= %s 0)", t.S))
		}
	case "append":
		g.appendBuiltin(c, args, res)
	case "copy":
		g.copyBuiltin(c, args, res)
	case "delete":
		mt := c.Args[0].Type().Underlying().(*types.Map)
		md, _, ks, _ := g.mapHeaps(mt)
		ds := "(Array Int (Array " + ks + " Bool))"
		d := g.sv(md, ds)
		g.setSV(md, ds, fmt.Sprintf("(store %s %s (store (select %s %s) %s false))", d, args[0].S, d, args[0].S, args[1].S))
	case "min", "max":
		op := "<="
		if name == "max" {
			op = ">="
		}
		cur := args[0].S
		for _, a := range args[1:] {
			cur = fmt.Sprintf("(ite (%s %s %s) %s %s)", op, cur, a.S, cur, a.S)
		}
		g.define(res, cur)
	case "clear":
		if mt, ok := c.Args[0].Type().Underlying().(*types.Map); ok {
			md, _, ks, _ := g.mapHeaps(mt)
			ds := "(Array Int (Array " + ks + " Bool))"
			d := g.sv(md, ds)
			g.setSV(md, ds, fmt.Sprintf("(store %s %s ((as const (Array %s Bool)) false))", d, args[0].S, ks))
			return
		}
		if st, ok := c.Args[0].Type().Underlying().(*types.Slice); ok {
			g.clearSlice(args[0], st.Elem())
			return
		}
		g.note("clear on this type not modelled")
	case "print", "println":
	case "ssa:wrapnilchk":
		g.define(res, args[0].S)
	default:
		g.note("builtin " + name + " not modelled: result havocked")
		if res != nil {
			g.define(res, "")
		}
	}
}

func (g *Gen) clearSlice(s Term, et types.Type) {
	if stt, isSt := structOf(et); isSt {
		if !g.structTransparent(et) {
			return
		}
		for i := 0; i < stt.NumFields(); i++ {
			hn, vs, ft := g.fieldHeap(et, i)
			if _, nested := structOf(ft); nested {
				continue
			}
			srt := "(Array Int " + vs + ")"
			old := g.sv(hn, srt)
			nv := g.havocSV(hn, srt)
			inr := fmt.Sprintf("(and (= (er_arr r) (sarr %s)) (<= (soff %s) (er_idx r)) (< (er_idx r) (+ (soff %s) (slen %s))) (= r (elemref (er_arr r) (er_idx r))))", s.S, s.S, s.S, s.S)
			g.assumeRaw(fmt.Sprintf("(forall ((r Int)) (! (= (select %s r) (ite %s %s (select %s r))) :pattern ((select %s r))))", nv, inr, g.zero(ft), old, nv))
		}
		return
	}
	h, vs := g.elemHeap(et)
	srt := "(Array Int (Array Int " + vs + "))"
	old := g.sv(h, srt)
	nv := g.havocSV(h, srt)
	g.assumeRaw(fmt.Sprintf("(forall ((r Int)) (! (=> (not (= r (sarr %s))) (= (select %s r) (select %s r))) :pattern ((select %s r))))", s.S, nv, old, nv))
	g.assumeRaw(fmt.Sprintf("(forall ((i Int)) (! (= (select (select %s (sarr %s)) i) (ite (and (<= (soff %s) i) (< i (+ (soff %s) (slen %s)))) %s (select (select %s (sarr %s)) i))) :pattern ((select (select %s (sarr %s)) i))))", nv, s.S, s.S, s.S, s.S, g.zero(et), old, s.S, nv, s.S))
}

func (g *Gen) appendBuiltin(c *ssa.CallCommon, args []Term, res ssa.Value) {
	s, t := args[0], args[1]
	st := c.Args[0].Type().Underlying().(*types.Slice)
	et := st.Elem()
	var n string
	tIsStr := t.Sort == "Str"
	if tIsStr {
		n = "(len " + t.S + ")"
	} else {
		n = "(slen " + t.S + ")"
	}
	r := g.define(res, "")
	fits := fmt.Sprintf("(<= (+ (slen %s) %s) (scap %s))", s.S, n, s.S)
	newarr := g.allocFresh("arr")
	g.assume(fmt.Sprintf("(= (slen %s) (+ (slen %s) %s))", r.S, s.S, n))
	g.assume(fmt.Sprintf("(ite %s (and (= (sarr %s) (sarr %s)) (= (soff %s) (soff %s)) (= (scap %s) (scap %s))) (and (= (sarr %s) %s) (= (soff %s) 0) (>= (scap %s) (slen %s))))",
		and(fits, fmt.Sprintf("(not (= (sarr %s) 0))", s.S)), r.S, s.S, r.S, s.S, r.S, s.S, r.S, newarr, r.S, r.S, r.S))
	if stt, isSt := structOf(et); isSt {
		if !g.structTransparent(et) {
			return
		}
		for i := 0; i < stt.NumFields(); i++ {
			hn, vs, ft := g.fieldHeap(et, i)
			if _, nested := structOf(ft); nested {
				continue
			}
			srt := "(Array Int " + vs + ")"
			old := g.sv(hn, srt)
			nv := g.havocSV(hn, srt)
			g.assumeRaw(fmt.Sprintf("(forall ((r Int)) (! (=> (not (= (er_arr r) (sarr %s))) (= (select %s r) (select %s r))) :pattern ((select %s r))))", r.S, nv, old, nv))
			g.assumeRaw(fmt.Sprintf("(forall ((i Int)) (! (=> (and (<= 0 i) (< i (slen %s))) (= (select %s (elemref (sarr %s) (idx %s i))) (select %s (elemref (sarr %s) (idx %s i))))) :pattern ((select %s (elemref (sarr %s) (idx %s i)))) :pattern ((idx %s i))))",
				s.S, nv, r.S, r.S, old, s.S, s.S, nv, r.S, r.S, s.S))
			g.assumeRaw(fmt.Sprintf("(forall ((j Int)) (! (=> (and (<= (slen %s) j) (< j (+ (slen %s) %s))) (= (select %s (elemref (sarr %s) (idx %s j))) (select %s (elemref (sarr %s) (idx %s (- j (slen %s))))))) :pattern ((idx %s j))))",
				s.S, s.S, n, nv, r.S, r.S, old, t.S, t.S, s.S, r.S))
			// in place: elements outside the appended range keep their value
			g.assumeRaw(fmt.Sprintf("(forall ((i Int)) (! (=> (and (= (sarr %s) (sarr %s)) (or (< i (+ (soff %s) (slen %s))) (>= i (+ (soff %s) (slen %s) %s)))) (= (select %s (elemref (sarr %s) i)) (select %s (elemref (sarr %s) i)))) :pattern ((select %s (elemref (sarr %s) i)))))",
				r.S, s.S, s.S, s.S, s.S, s.S, n, nv, r.S, old, r.S, nv, r.S))
		}
		return
	}
	h, vs := g.elemHeap(et)
	srt := "(Array Int (Array Int " + vs + "))"
	old := g.sv(h, srt)
	nv := g.havocSV(h, srt)
	g.assumeRaw(fmt.Sprintf("(forall ((r Int)) (! (=> (not (= r (sarr %s))) (= (select %s r) (select %s r))) :pattern ((select %s r))))", r.S, nv, old, nv))
	g.assumeRaw(fmt.Sprintf("(forall ((i Int)) (! (=> (and (<= 0 i) (< i (slen %s))) (= (select (select %s (sarr %s)) (idx %s i)) (select (select %s (sarr %s)) (idx %s i)))) :pattern ((select (select %s (sarr %s)) (idx %s i))) :pattern ((idx %s i))))",
		s.S, nv, r.S, r.S, old, s.S, s.S, nv, r.S, r.S, s.S))
	var src string
	if tIsStr {
		src = fmt.Sprintf("(at %s (- j (slen %s)))", t.S, s.S)
	} else {
		src = fmt.Sprintf("(select (select %s (sarr %s)) (idx %s (- j (slen %s))))", old, t.S, t.S, s.S)
	}
	g.assumeRaw(fmt.Sprintf("(forall ((j Int)) (! (=> (and (<= (slen %s) j) (< j (+ (slen %s) %s))) (= (select (select %s (sarr %s)) (idx %s j)) %s)) :pattern ((idx %s j))))",
		s.S, s.S, n, nv, r.S, r.S, src, r.S))
	g.assumeRaw(fmt.Sprintf("(forall ((i Int)) (! (=> (and (= (sarr %s) (sarr %s)) (or (< i (+ (soff %s) (slen %s))) (>= i (+ (soff %s) (slen %s) %s)))) (= (select (select %s (sarr %s)) i) (select (select %s (sarr %s)) i))) :pattern ((select (select %s (sarr %s)) i))))",
		r.S, s.S, s.S, s.S, s.S, s.S, n, nv, r.S, old, r.S, nv, r.S))
	// ground instances of the appended-range fact for the first and the last appended element: they put the terms
	// (idx r |s|) and (idx r |r|-1) on the table, the witnesses that "exists an element such that" goals need
	for _, j := range []string{fmt.Sprintf("(slen %s)", s.S), fmt.Sprintf("(- (slen %s) 1)", r.S)} {
		g.assumeRaw(fmt.Sprintf("(=> (>= %s 1) (= (select (select %s (sarr %s)) (idx %s %s)) %s))", n, nv, r.S, r.S, j, strings.ReplaceAll(src, " j ", " "+j+" ")))
	}
}

func (g *Gen) copyBuiltin(c *ssa.CallCommon, args []Term, res ssa.Value) {
	d, s := args[0], args[1]
	var n, src string
	et := c.Args[0].Type().Underlying().(*types.Slice).Elem()
	h, vs := g.elemHeap(et)
	srt := "(Array Int (Array Int " + vs + "))"
	old := g.sv(h, srt)
	if s.Sort == "Str" {
		n = fmt.Sprintf("(ite (<= (slen %s) (len %s)) (slen %s) (len %s))", d.S, s.S, d.S, s.S)
		src = fmt.Sprintf("(at %s (- i (soff %s)))", s.S, d.S)
	} else {
		n = fmt.Sprintf("(ite (<= (slen %s) (slen %s)) (slen %s) (slen %s))", d.S, s.S, d.S, s.S)
		src = fmt.Sprintf("(select (select %s (sarr %s)) (+ (soff %s) (- i (soff %s))))", old, s.S, s.S, d.S)
	}
	if res != nil {
		g.define(res, n)
	}
	if _, isSt := structOf(et); isSt {
		g.note("copy of struct slices not modelled: element fields havocked")
		g.havocElems(Term{S: d.S, Sort: "Slc", T: c.Args[0].Type()})
		return
	}
	nv := g.havocSV(h, srt)
	g.assumeRaw(fmt.Sprintf("(forall ((r Int)) (! (=> (not (= r (sarr %s))) (= (select %s r) (select %s r))) :pattern ((select %s r))))", d.S, nv, old, nv))
	g.assumeRaw(fmt.Sprintf("(forall ((i Int)) (! (= (select (select %s (sarr %s)) i) (ite (and (<= (soff %s) i) (< i (+ (soff %s) %s))) %s (select (select %s (sarr %s)) i))) :pattern ((select (select %s (sarr %s)) i))))",
		nv, d.S, d.S, d.S, n, src, old, d.S, nv, d.S))
	// the same facts keyed on (idx BASE j) of the slices the operands were cut from, so that quantified
	// invariants over the base slices (triggered on idx) connect across the copy
	base := func(v ssa.Value, t Term) (Term, string) {
		if sl, ok := v.(*ssa.Slice); ok {
			if _, isSlice := sl.X.Type().Underlying().(*types.Slice); isSlice {
				lo := "0"
				if sl.Low != nil {
					lo = g.term(sl.Low).S
				}
				return g.term(sl.X), lo
			}
		}
		return t, "0"
	}
	D, a := base(c.Args[0], d)
	if s.Sort != "Str" {
		S, cc := base(c.Args[1], s)
		g.assumeRaw(fmt.Sprintf("(forall ((j Int)) (! (=> (and (<= %s j) (< j (+ %s %s))) (= (select (select %s (sarr %s)) (idx %s j)) (select (select %s (sarr %s)) (idx %s (+ (- j %s) %s))))) :pattern ((idx %s j))))",
			a, a, n, nv, D.S, D.S, old, S.S, S.S, a, cc, D.S))
	}
	g.assumeRaw(fmt.Sprintf("(forall ((j Int)) (! (=> (or (< j %s) (>= j (+ %s %s))) (= (select (select %s (sarr %s)) (idx %s j)) (select (select %s (sarr %s)) (idx %s j)))) :pattern ((idx %s j))))",
		a, a, n, nv, D.S, D.S, old, D.S, D.S, D.S))
}

// frameCheck: a function whose contract declares a frame (modifies / pure) must leave every other
// pre-allocated location unchanged.
// nestedFrameTargets lists the field locations of the struct object at base (recursively) as single frame targets.
func (g *Gen) nestedFrameTargets(single map[string][]string, t types.Type, base string, depth int) {
	stt, ok := structOf(t)
	if !ok || depth > 5 || stt.NumFields() > 300 {
		return
	}
	for i := 0; i < stt.NumFields(); i++ {
		hn, _, ft := g.fieldHeap(t, i)
		if _, isSt := structOf(ft); isSt {
			sub := g.subref(t, i, base)
			oh := "O_" + typeKey(ft)
			single[oh] = append(single[oh], sub)
			g.nestedFrameTargets(single, ft, sub, depth+1)
			continue
		}
		single[hn] = append(single[hn], base)
	}
}

func (g *Gen) frameCheck(x *ssa.Return) {
	if g.con == nil || !g.con.hasFrame() {
		return
	}
	env := g.fnEnv(nil)
	env.st = g.entryState
	whole := map[string]bool{}
	single := map[string][]string{} // heap -> refs
	elems := map[string][]string{}
	for _, m := range g.con.Modifies {
		m = strings.TrimSpace(m)
		if m == "*" || m == "heap" {
			return
		}
		if _, ok := g.P.cs.Ghosts[m]; ok {
			whole[m] = true
			continue
		}
		if strings.HasPrefix(m, "heap(") {
			whole[normHeapName(strings.TrimSuffix(strings.TrimPrefix(m, "heap("), ")"))] = true
			continue
		}
		n, err := parseExpr(m)
		if err != nil {
			continue
		}
		switch {
		case n.Kind == "sel":
			ci := calleeInfo{}
			if g.fn.Pkg != nil {
				ci.pkg = g.fn.Pkg.Pkg
			}
			if n.Args[0].Kind == "id" {
				if st := g.lookupStructType(n.Args[0].Val, env, ci); st != nil {
					stt, _ := structOf(st)
					for i := 0; i < stt.NumFields(); i++ {
						if stt.Field(i).Name() == n.Val {
							hn, _, _ := g.fieldHeap(st, i)
							whole[hn] = true
						}
					}
					continue
				}
			}
			xv, err := g.eval(n.Args[0], env)
			if err != nil {
				continue
			}
			st, _ := derefT(xv.T)
			if stt, ok := structOf(st); ok {
				for i := 0; i < stt.NumFields(); i++ {
					if stt.Field(i).Name() == n.Val {
						hn, _, ft := g.fieldHeap(st, i)
						if _, isSt := structOf(ft); isSt && !g.structTransparent(ft) {
							oh := "O_" + typeKey(ft)
							sub := g.subref(st, i, xv.S)
							single[oh] = append(single[oh], sub)
							// a whole-value store into this field also rewrites the (unknown) fields of the embedded object
							g.nestedFrameTargets(single, ft, sub, 0)
							continue
						}
						single[hn] = append(single[hn], xv.S)
					}
				}
			}
		case n.Kind == "call" && n.Val == "elems":
			xv, err := g.eval(n.Args[1], env)
			if err != nil || xv.T == nil {
				continue
			}
			switch u := xv.T.Underlying().(type) {
			case *types.Slice:
				if _, isSt := structOf(u.Elem()); isSt {
					stt, _ := structOf(u.Elem())
					for i := 0; i < stt.NumFields(); i++ {
						hn, _, _ := g.fieldHeap(u.Elem(), i)
						whole[hn] = true // conservative: struct element fields are not frame-checked
					}
				} else {
					h, _ := g.elemHeap(u.Elem())
					elems[h] = append(elems[h], "(sarr "+xv.S+")")
				}
			case *types.Pointer:
				if at, ok := u.Elem().Underlying().(*types.Array); ok {
					h, _ := g.elemHeap(at.Elem())
					elems[h] = append(elems[h], xv.S)
				}
			}
		case n.Kind == "call" && n.Val == "fields":
			xv, err := g.eval(n.Args[1], env)
			if err != nil {
				continue
			}
			st, _ := derefT(xv.T)
			if stt, ok := structOf(st); ok {
				for i := 0; i < stt.NumFields(); i++ {
					hn, _, _ := g.fieldHeap(st, i)
					single[hn] = append(single[hn], xv.S)
				}
			}
		case n.Kind == "un" && n.Val == "*":
			xv, err := g.eval(n.Args[0], env)
			if err != nil {
				continue
			}
			if et, ok := derefT(xv.T); ok {
				h, _ := g.cellHeap(et)
				single[h] = append(single[h], xv.S)
			}
		}
	}
	var ns []string
	for n := range g.cur {
		ns = append(ns, n)
	}
	sort.Strings(ns)
	for _, n := range ns {
		if strings.HasPrefix(n, "$") || whole[n] || g.cur[n] == n+"!0" || g.P.cs.EnvGhosts[n] {
			continue
		}
		fin, ini := g.cur[n], n+"!0"
		var goal string
		if _, isGhost := g.P.cs.Ghosts[n]; isGhost {
			goal = fmt.Sprintf("(= %s %s)", fin, ini)
		} else {
			var ex []string
			for _, r := range single[n] {
				ex = append(ex, fmt.Sprintf("(not (= r %s))", r))
			}
			for _, r := range elems[n] {
				ex = append(ex, fmt.Sprintf("(not (= r %s))", r))
			}
			goal = fmt.Sprintf("(forall ((r Int)) (=> %s (= (select %s r) (select %s r))))", and(append([]string{"(select $alloc!0 (rootof r))"}, ex...)...), fin, ini)
		}
		if g.con != nil && g.con.NoSafety["frame:"+n] {
			// `nosafety frame:<heap>`: the frame of ONE heap is not checked for this function (say why in a comment next
			// to the contract); recorded as an assumption of every property that loads the function
			g.assumedUsed["frame of heap "+n+" of "+g.name+" switched off by its contract (assumed, not checked)"] = true
			continue
		}
		g.oblige("frame", n, goal, g.pos(x.Pos()), "only the declared modifies targets change", nil)
	}
}
