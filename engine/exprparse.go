package main

// Parser for the contract expression language (Go expression syntax plus ==>, <==>,
// old(e), forall(i, lo, hi, P), exists(...), ite(c,a,b), m[k := v]).

import (
	"fmt"
	"strings"
	"unicode"
)

type Node struct {
	Kind string // id int str chr bin un call sel idx slice upd
	Val  string // identifier / literal text / operator / selector name
	Args []*Node
}

func (n *Node) String() string {
	switch n.Kind {
	case "id", "int":
		return n.Val
	case "str":
		return fmt.Sprintf("%q", n.Val)
	case "chr":
		return fmt.Sprintf("'%s'", n.Val)
	case "bin":
		return "(" + n.Args[0].String() + " " + n.Val + " " + n.Args[1].String() + ")"
	case "un":
		return n.Val + n.Args[0].String()
	case "sel":
		return n.Args[0].String() + "." + n.Val
	case "idx":
		return n.Args[0].String() + "[" + n.Args[1].String() + "]"
	}
	var as []string
	for _, a := range n.Args {
		if a == nil {
			as = append(as, "")
		} else {
			as = append(as, a.String())
		}
	}
	return n.Kind + ":" + n.Val + "(" + strings.Join(as, ", ") + ")"
}

type tok struct {
	k string // id int str chr op eof
	v string
}

func lexExpr(s string) ([]tok, error) {
	var ts []tok
	i := 0
	for i < len(s) {
		c := s[i]
		switch {
		case c == ' ' || c == '\t' || c == '\n':
			i++
		case unicode.IsLetter(rune(c)) || c == '_' || c == '$' || c == '@':
			j := i + 1
			for j < len(s) && (unicode.IsLetter(rune(s[j])) || unicode.IsDigit(rune(s[j])) || s[j] == '_' || s[j] == '$') {
				j++
			}
			ts = append(ts, tok{"id", s[i:j]})
			i = j
		case c >= '0' && c <= '9':
			j := i
			for j < len(s) && (s[j] >= '0' && s[j] <= '9' || s[j] == 'x' || s[j] >= 'a' && s[j] <= 'f' || s[j] >= 'A' && s[j] <= 'F') {
				j++
			}
			ts = append(ts, tok{"int", s[i:j]})
			i = j
		case c == '"':
			j := i + 1
			var b strings.Builder
			for j < len(s) && s[j] != '"' {
				if s[j] == '\\' && j+1 < len(s) {
					j++
					switch s[j] {
					case 'n':
						b.WriteByte('\n')
					case 'r':
						b.WriteByte('\r')
					case 't':
						b.WriteByte('\t')
					case '0':
						b.WriteByte(0)
					case 'x':
						if j+2 < len(s) {
							var v int
							if _, err := fmt.Sscanf(s[j+1:j+3], "%02x", &v); err == nil {
								b.WriteByte(byte(v))
								j += 2
							}
						}
					default:
						b.WriteByte(s[j])
					}
				} else {
					b.WriteByte(s[j])
				}
				j++
			}
			if j >= len(s) {
				return nil, fmt.Errorf("unterminated string")
			}
			ts = append(ts, tok{"str", b.String()})
			i = j + 1
		case c == '\'':
			j := i + 1
			v := ""
			if j < len(s) && s[j] == '\\' {
				switch s[j+1] {
				case 'n':
					v = "\n"
				case 'r':
					v = "\r"
				case 't':
					v = "\t"
				case '0':
					v = "\x00"
				case 'x':
					var x int
					if j+3 < len(s) {
						if _, err := fmt.Sscanf(s[j+2:j+4], "%02x", &x); err == nil {
							v = string([]byte{byte(x)})
							j += 2
						}
					}
				default:
					v = string(s[j+1])
				}
				j += 2
			} else {
				v = string(s[j])
				j++
			}
			if j >= len(s) || s[j] != '\'' {
				return nil, fmt.Errorf("bad char literal")
			}
			ts = append(ts, tok{"chr", v})
			i = j + 1
		default:
			ops := []string{"<==>", "==>", ":=", "&&", "||", "==", "!=", "<=", ">=", "<", ">", "+", "-", "*", "/", "%", "!", "(", ")", "[", "]", ",", ".", ":", "&"}
			m := ""
			for _, o := range ops {
				if strings.HasPrefix(s[i:], o) {
					m = o
					break
				}
			}
			if m == "" {
				return nil, fmt.Errorf("unexpected %q in %q", c, s)
			}
			ts = append(ts, tok{"op", m})
			i += len(m)
		}
	}
	ts = append(ts, tok{"eof", ""})
	return ts, nil
}

type eparser struct {
	ts []tok
	p  int
}

func (p *eparser) peek() tok { return p.ts[p.p] }
func (p *eparser) next() tok { t := p.ts[p.p]; p.p++; return t }
func (p *eparser) accept(op string) bool {
	if t := p.peek(); t.k == "op" && t.v == op {
		p.p++
		return true
	}
	return false
}
func (p *eparser) expect(op string) {
	if !p.accept(op) {
		panic(fmt.Errorf("expected %q, got %q", op, p.peek().v))
	}
}

var binPrec = map[string]int{
	"<==>": 1, "==>": 2, "||": 3, "&&": 4,
	"==": 5, "!=": 5, "<": 5, "<=": 5, ">": 5, ">=": 5,
	"+": 6, "-": 6, "*": 7, "/": 7, "%": 7,
}

func (p *eparser) expr(minPrec int) *Node {
	lhs := p.unary()
	for {
		t := p.peek()
		if t.k != "op" {
			return lhs
		}
		pr, ok := binPrec[t.v]
		if !ok || pr < minPrec {
			return lhs
		}
		p.next()
		var rhs *Node
		if t.v == "==>" { // right associative
			rhs = p.expr(pr)
		} else {
			rhs = p.expr(pr + 1)
		}
		lhs = &Node{Kind: "bin", Val: t.v, Args: []*Node{lhs, rhs}}
	}
}

func (p *eparser) unary() *Node {
	if p.accept("!") {
		return &Node{Kind: "un", Val: "!", Args: []*Node{p.unary()}}
	}
	if p.accept("-") {
		return &Node{Kind: "un", Val: "-", Args: []*Node{p.unary()}}
	}
	if p.accept("*") {
		return &Node{Kind: "un", Val: "*", Args: []*Node{p.unary()}}
	}
	if p.accept("&") {
		return &Node{Kind: "un", Val: "&", Args: []*Node{p.unary()}}
	}
	return p.postfix(p.primary())
}

func (p *eparser) primary() *Node {
	t := p.next()
	switch t.k {
	case "id", "int", "str", "chr":
		return &Node{Kind: t.k, Val: t.v}
	case "op":
		if t.v == "(" {
			e := p.expr(1)
			p.expect(")")
			return e
		}
	}
	panic(fmt.Errorf("unexpected token %q", t.v))
}

func (p *eparser) postfix(n *Node) *Node {
	for {
		switch {
		case p.accept("."):
			t := p.next()
			if t.k == "op" && t.v == "(" && p.peek().k == "op" && p.peek().v == "*" {
				// @pkg.(*T).M inside last()/called(): keep "(*T)" as a selector name
				p.next()
				id := p.next()
				p.expect(")")
				n = &Node{Kind: "sel", Val: "(*" + id.v + ")", Args: []*Node{n}}
				continue
			}
			if t.k == "op" && t.v == "(" && p.peek().k == "id" {
				id := p.next()
				p.expect(")")
				n = &Node{Kind: "sel", Val: "(" + id.v + ")", Args: []*Node{n}}
				continue
			}
			if t.k != "id" && t.k != "int" {
				panic(fmt.Errorf("bad selector %q", t.v))
			}
			n = &Node{Kind: "sel", Val: t.v, Args: []*Node{n}}
		case p.accept("("):
			c := &Node{Kind: "call", Args: []*Node{n}}
			if n.Kind == "id" {
				c.Val = n.Val
			}
			for !p.accept(")") {
				c.Args = append(c.Args, p.expr(1))
				if !p.accept(",") {
					p.expect(")")
					break
				}
			}
			n = c
		case p.accept("["):
			if p.accept(":") { // [:hi]
				hi := p.expr(1)
				p.expect("]")
				n = &Node{Kind: "slice", Args: []*Node{n, nil, hi}}
				continue
			}
			a := p.expr(1)
			switch {
			case p.accept(":="):
				v := p.expr(1)
				p.expect("]")
				n = &Node{Kind: "upd", Args: []*Node{n, a, v}}
			case p.accept(":"):
				if p.accept("]") {
					n = &Node{Kind: "slice", Args: []*Node{n, a, nil}}
				} else {
					hi := p.expr(1)
					p.expect("]")
					n = &Node{Kind: "slice", Args: []*Node{n, a, hi}}
				}
			default:
				p.expect("]")
				n = &Node{Kind: "idx", Args: []*Node{n, a}}
			}
		default:
			return n
		}
	}
}

func parseExpr(s string) (n *Node, err error) {
	ts, err := lexExpr(s)
	if err != nil {
		return nil, err
	}
	defer func() {
		if r := recover(); r != nil {
			err = fmt.Errorf("%v in %q", r, s)
		}
	}()
	p := &eparser{ts: ts}
	n = p.expr(1)
	if p.peek().k != "eof" {
		return nil, fmt.Errorf("trailing %q in %q", p.peek().v, s)
	}
	return n, nil
}
