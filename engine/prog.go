package main

// Program loading (go/packages + go/ssa over /repo's working tree with -tags verif) and
// per-function verification driver.

import (
	"fmt"
	"go/token"
	"go/types"
	"os"
	"path/filepath"
	"sort"
	"strings"
	"sync"

	"golang.org/x/tools/go/packages"
	"golang.org/x/tools/go/ssa"
	"golang.org/x/tools/go/ssa/ssautil"
)

const modPath = "github.com/gofiber/fiber/v3"

type Prog struct {
	repo    string
	verif   string
	fset    *token.FileSet
	prog    *ssa.Program
	spkgs   map[string]*ssa.Package // by import path
	cs      *ContractSet
	funcs   map[string]*ssa.Function
	typeIDs map[string]int
	mu      sync.Mutex
}

func (P *Prog) typeID(t types.Type) int {
	P.mu.Lock()
	defer P.mu.Unlock()
	k := types.TypeString(t, nil)
	if id, ok := P.typeIDs[k]; ok {
		return id
	}
	id := len(P.typeIDs) + 1
	P.typeIDs[k] = id
	return id
}

// typeID2 numbers arbitrary keys (sub-reference functions) in the same id space, starting at 1.
func (P *Prog) typeID2(key string) int {
	P.mu.Lock()
	defer P.mu.Unlock()
	if id, ok := P.typeIDs[key]; ok {
		return id
	}
	id := len(P.typeIDs) + 1
	P.typeIDs[key] = id
	return id
}

func (P *Prog) typeByName(name string, pkg *types.Package) (types.Type, bool) {
	nptr := strings.Count(name, "*")
	ptr := false
	name = strings.Trim(name, "(*)")
	var obj types.Object
	if i := strings.Index(name, "."); i >= 0 && pkg != nil {
		for _, imp := range pkg.Imports() {
			if imp.Name() == name[:i] {
				obj = imp.Scope().Lookup(name[i+1:])
			}
		}
	} else if pkg != nil {
		obj = pkg.Scope().Lookup(name)
		if obj == nil {
			// a clause of an assumed dependency contract evaluated in a client package: the unqualified name
			// is a type of the (unique) imported package that declares it
			n := 0
			for _, imp := range pkg.Imports() {
				if o := imp.Scope().Lookup(name); o != nil {
					if _, isType := o.(*types.TypeName); isType {
						obj = o
						n++
					}
				}
			}
			if n != 1 {
				obj = nil
			}
		}
	}
	if obj == nil {
		return nil, false
	}
	t := obj.Type()
	_ = ptr
	for i := 0; i < nptr; i++ {
		t = types.NewPointer(t)
	}
	return t, true
}

func (P *Prog) typeIDByName(name string, pkg *types.Package) (int, bool) {
	t, ok := P.typeByName(name, pkg)
	if !ok {
		return 0, false
	}
	return P.typeID(t), true
}

// contractFiles returns every zz_contracts_verif.go under the repository.
func contractFiles(repo string) []string {
	var out []string
	_ = filepath.Walk(repo, func(p string, info os.FileInfo, err error) error {
		if err != nil {
			return nil
		}
		if info.IsDir() && (info.Name() == ".git" || info.Name() == "docs" || info.Name() == ".github") {
			return filepath.SkipDir
		}
		if !info.IsDir() && isContractFile(info.Name()) {
			out = append(out, p)
		}
		return nil
	})
	sort.Strings(out)
	return out
}

// A package may have several contract files: zz_contracts_verif.go, zz_contracts_c09_verif.go, ...
func isContractFile(name string) bool {
	return strings.HasPrefix(name, "zz_contracts") && strings.HasSuffix(name, "_verif.go")
}

func pkgPathOfFile(repo, file string) string {
	rel, _ := filepath.Rel(repo, filepath.Dir(file))
	if rel == "." {
		return modPath
	}
	return modPath + "/" + filepath.ToSlash(rel)
}

func loadProg(repo, verif string, pkgPaths []string) (*Prog, error) {
	cfg := &packages.Config{Mode: packages.LoadAllSyntax, Dir: repo, BuildFlags: []string{"-tags=verif"},
		Env: append(os.Environ(), "GOFLAGS=-mod=mod", "GOPROXY=off", "GOSUMDB=off", "GOTOOLCHAIN=local")}
	pkgs, err := packages.Load(cfg, pkgPaths...)
	if err != nil {
		return nil, err
	}
	nerr := 0
	packages.Visit(pkgs, nil, func(p *packages.Package) {
		for _, e := range p.Errors {
			if nerr < 10 {
				fmt.Fprintln(os.Stderr, "load:", e)
			}
			nerr++
		}
	})
	if nerr > 0 {
		return nil, fmt.Errorf("%d package load errors", nerr)
	}
	prog, spkgs := ssautil.Packages(pkgs, ssa.GlobalDebug|ssa.InstantiateGenerics)
	P := &Prog{repo: repo, verif: verif, prog: prog, spkgs: map[string]*ssa.Package{}, funcs: map[string]*ssa.Function{}, typeIDs: map[string]int{}}
	if len(pkgs) > 0 {
		P.fset = pkgs[0].Fset
	}
	for i, sp := range spkgs {
		if sp == nil {
			continue
		}
		sp.Build()
		P.spkgs[pkgs[i].PkgPath] = sp
		P.indexPkg(sp)
	}
	return P, nil
}

func (P *Prog) indexPkg(sp *ssa.Package) {
	var add func(fn *ssa.Function)
	add = func(fn *ssa.Function) {
		if fn == nil {
			return
		}
		P.funcs[canon(fn)] = fn
		for _, a := range fn.AnonFuncs {
			add(a)
		}
	}
	for _, m := range sp.Members {
		switch x := m.(type) {
		case *ssa.Function:
			add(x)
		case *ssa.Type:
			for _, t := range []types.Type{x.Type(), types.NewPointer(x.Type())} {
				ms := P.prog.MethodSets.MethodSet(t)
				for i := 0; i < ms.Len(); i++ {
					fn := P.prog.MethodValue(ms.At(i))
					if fn != nil && fn.Synthetic == "" {
						add(fn)
					}
				}
			}
		}
	}
}

// loadContracts builds the contract set for verifying package pkgPath: dependency specs from
// /verif/contracts/deps, the package's own contract file, and the `export` view of the root
// package's contracts for middleware packages (deps/fiber.spec).
func (P *Prog) loadContracts(pkgPath string) (*ContractSet, error) {
	cs := newContractSet()
	if err := cs.loadDir(filepath.Join(P.verif, "contracts", "deps"), "*.spec"); err != nil {
		return nil, err
	}
	rel := strings.TrimPrefix(strings.TrimPrefix(pkgPath, modPath), "/")
	ms, _ := filepath.Glob(filepath.Join(P.repo, filepath.FromSlash(rel), "zz_contracts*_verif.go"))
	sort.Strings(ms)
	for _, f := range ms {
		if err := cs.loadFile(f); err != nil {
			return nil, err
		}
	}
	return cs, nil
}

type FnResult struct {
	Name     string
	Gen      *Gen
	Obls     []*Obl
	Errs     []string
	Notes    []string
	Assumed  []string
	NoContr  []string
	Missing  bool
}

// genFunction runs the two-pass VC generation for one function under contract.
func (P *Prog) genFunction(fn *ssa.Function, con *FuncContract) *Gen {
	mk := func(p1 *Gen) *Gen {
		g := &Gen{P: P, fn: fn, name: canon(fn), con: con,
			vals: map[ssa.Value]Term{}, addrs: map[ssa.Value]Addr{}, decl: map[string]string{},
			dtSeen: map[string]bool{}, cur: State{}, svSort: map[string]string{},
			exit: map[*ssa.BasicBlock]State{}, reach: map[*ssa.BasicBlock]string{}, notes: map[string]bool{},
			assumedUsed: map[string]bool{}, blockWrites: map[*ssa.BasicBlock]map[string]bool{},
			decr: map[*ssa.BasicBlock]string{}, headState: map[*ssa.BasicBlock]State{}, strlits: map[string]string{},
			closures: map[ssa.Value]*ssa.MakeClosure{}, callNo: map[string]int{}, debug: map[string][]dbgRec{},
			iterKey: map[*ssa.Range]string{}, usedFns: map[string]bool{}, lastType: map[string]types.Type{},
			atcallSeen: map[*Clause]bool{}, noContract: map[string]bool{}, heapModule: map[string]bool{}, stableFV: map[*ssa.FreeVar]bool{}, stableLoc: map[*ssa.Alloc]bool{}, wfSeen: map[string]bool{}, storeRecs: map[*ssa.BasicBlock]map[string][]storeRec{}, imprecise: map[*ssa.BasicBlock]map[string]bool{}, pass1: p1}
		if con != nil {
			g.allocBound = con.AllocBound
		}
		if p1 != nil {
			for k, v := range p1.heapModule {
				g.heapModule[k] = v
			}
		}
		g.specText = g.specFnText()
		return g
	}
	p1 := mk(nil)
	p1.runRecording()
	g := mk(p1)
	g.run()
	return g
}

// runRecording is pass 1: same translation, recording which state variables each block writes.
func (g *Gen) runRecording() {
	g.recording = true
	g.run()
}

func (g *Gen) query(o *Obl, extraHyp string, model bool) string {
	var gl, lc strings.Builder
	for _, d := range g.dtypes {
		gl.WriteString(d + "\n")
	}
	for _, n := range g.dord {
		s := g.decl[n]
		if strings.HasPrefix(s, "fun:") {
			fmt.Fprintf(&gl, "(declare-fun %s %s)\n", n, strings.TrimPrefix(s, "fun:"))
		} else {
			fmt.Fprintf(&gl, "(declare-const %s %s)\n", n, s)
		}
	}
	gl.WriteString(g.specText)
	for _, d := range g.preDefs {
		gl.WriteString(d + "\n")
	}
	// slice: only assumptions emitted in blocks that can reach the obligation's block (forward edges)
	var anc map[int]bool
	if o.Block >= 0 && !o.Vacuity && g.fn != nil && os.Getenv("FVC_NOSLICE") == "" {
		anc = g.ancestors(o.Block)
	}
	for i, d := range g.defs[:o.NDefs] {
		if anc != nil && i < len(g.defBlk) && g.defBlk[i] >= 0 && !anc[g.defBlk[i]] {
			continue
		}
		if tags := g.defTag[i]; len(tags) > 0 && len(o.Props) > 0 && !o.Vacuity {
			shared := false
			for _, t := range tags {
				if hasProp(o.Props, t) {
					shared = true
				}
			}
			if !shared {
				continue
			}
		}
		lc.WriteString(d + "\n")
	}
	fmt.Fprintf(&lc, "; obligation %s\n; clause: %s  (%s)\n", o.Name, o.Text, o.Where)
	fmt.Fprintf(&lc, "(assert %s)\n", o.Hyp)
	if extraHyp != "" {
		fmt.Fprintf(&lc, "(assert %s)\n", extraHyp)
	}
	fmt.Fprintf(&lc, "(assert (not %s))\n(check-sat)\n", o.SkGoal)
	if model {
		lc.WriteString("(get-model)\n")
	}
	var b strings.Builder
	if model {
		b.WriteString("(set-option :produce-models true)\n")
	}
	b.WriteString(prelude)
	if os.Getenv("FVC_NOPRUNE") != "" {
		b.WriteString(gl.String())
	} else {
		// only the declarations, spec functions and axioms that the obligation is connected to (prune.go)
		b.WriteString(pruneQuery(prelude, gl.String(), lc.String()))
	}
	b.WriteString(lc.String())
	return b.String()
}
