package main

// Concretising replay (DESIGN §6): when an obligation of a function fails, and the function's inputs can be
// built from plain values (strings, byte slices, integers, booleans, small structs of those), the contract of the
// function is compiled to Go (requires -> input filter, ensures -> assertions, any run-time panic -> failure) and
// the REAL function is run through `go test -overlay` over a bounded input space derived from the literals of the
// contract, the constants of the function body and the integers of the solver's candidate model. The first input
// on which the real code violates the contract is the replayed counterexample. Nothing here decides a property:
// it only turns an already failed obligation into a concrete failing input (or fails to: no-failing-input-found).

import (
	"fmt"
	"go/types"
	"os"
	"path/filepath"
	"regexp"
	"sort"
	"strconv"
	"strings"

	"golang.org/x/tools/go/ssa"
)

type ReplayResult struct {
	Tried     bool
	Confirmed bool
	Why       string // why not tried / not confirmed
	Input     string
	Violated  string
	Cases     string
	Test      string // generated test source (kept in the replay file)
	Output    string
}

type goEmit struct {
	g      *Gen
	types  map[string]types.Type // names in scope -> Go type
	rename map[string]string     // contract name -> Go expression
	oldMap map[string]string     // inside old(): name -> Go expression of the entry copy
	inOld  bool
	fnDefs map[string]string // compiled spec functions (name -> Go source)
	fnOrd  []string
	depth  int
}

type emitErr struct{ msg string }

func (e emitErr) Error() string { return e.msg }

func (e *goEmit) fail(f string, a ...any) { panic(emitErr{fmt.Sprintf(f, a...)}) }

func isStringT(t types.Type) bool {
	if t == nil {
		return false
	}
	b, ok := t.Underlying().(*types.Basic)
	return ok && b.Info()&types.IsString != 0
}

func isBytesT(t types.Type) bool {
	if t == nil {
		return false
	}
	s, ok := t.Underlying().(*types.Slice)
	if !ok {
		return false
	}
	b, ok := s.Elem().Underlying().(*types.Basic)
	return ok && (b.Kind() == types.Uint8 || b.Kind() == types.Byte)
}

func isIntT(t types.Type) bool {
	if t == nil {
		return false
	}
	b, ok := t.Underlying().(*types.Basic)
	return ok && b.Info()&types.IsInteger != 0
}

func isBoolT(t types.Type) bool {
	if t == nil {
		return false
	}
	b, ok := t.Underlying().(*types.Basic)
	return ok && b.Info()&types.IsBoolean != 0
}

// typeOf infers the Go type of a contract expression (nil: unknown).
func (e *goEmit) typeOf(n *Node) types.Type {
	if n == nil {
		return nil
	}
	switch n.Kind {
	case "id":
		if t, ok := e.types[n.Val]; ok {
			return t
		}
		if n.Val == "true" || n.Val == "false" {
			return types.Typ[types.Bool]
		}
		if obj := e.g.fn.Pkg.Pkg.Scope().Lookup(n.Val); obj != nil {
			return obj.Type()
		}
	case "int", "chr":
		return types.Typ[types.Int]
	case "str":
		return types.Typ[types.String]
	case "sel":
		t := e.typeOf(n.Args[0])
		if t == nil {
			return nil
		}
		if p, ok := t.Underlying().(*types.Pointer); ok {
			t = p.Elem()
		}
		if st, ok := t.Underlying().(*types.Struct); ok {
			for i := 0; i < st.NumFields(); i++ {
				if st.Field(i).Name() == n.Val {
					return st.Field(i).Type()
				}
			}
		}
	case "idx":
		t := e.typeOf(n.Args[0])
		if t == nil {
			return nil
		}
		if isStringT(t) {
			return types.Typ[types.Int] // emitted as int(s[i])
		}
		switch u := t.Underlying().(type) {
		case *types.Slice:
			if isBytesT(t) {
				return types.Typ[types.Int]
			}
			return u.Elem()
		case *types.Array:
			return u.Elem()
		case *types.Map:
			return u.Elem()
		}
	case "slice":
		return e.typeOf(n.Args[0])
	case "un":
		if n.Val == "!" {
			return types.Typ[types.Bool]
		}
		if n.Val == "-" {
			return types.Typ[types.Int]
		}
		if n.Val == "*" {
			if t := e.typeOf(n.Args[0]); t != nil {
				if p, ok := t.Underlying().(*types.Pointer); ok {
					return p.Elem()
				}
			}
		}
	case "bin":
		switch n.Val {
		case "&&", "||", "==>", "<==>", "==", "!=", "<", "<=", ">", ">=":
			return types.Typ[types.Bool]
		case "+":
			if isStringT(e.typeOf(n.Args[0])) {
				return types.Typ[types.String]
			}
			return types.Typ[types.Int]
		default:
			return types.Typ[types.Int]
		}
	case "call":
		switch n.Val {
		case "len", "cap", "int":
			return types.Typ[types.Int]
		case "forall", "exists":
			return types.Typ[types.Bool]
		case "str", "lower":
			return types.Typ[types.String]
		case "old":
			return e.typeOf(n.Args[1])
		case "ite":
			if t := e.typeOf(n.Args[2]); t != nil {
				return t
			}
			return e.typeOf(n.Args[3])
		}
		if m, ok := e.g.P.cs.Macros[n.Val]; ok {
			_ = m
			return nil
		}
		if f, ok := e.g.P.cs.Fns[n.Val]; ok {
			switch f.Ret {
			case "Int":
				return types.Typ[types.Int]
			case "Bool":
				return types.Typ[types.Bool]
			case "Str":
				return types.Typ[types.String]
			}
		}
	}
	return nil
}

func goTypeName(t types.Type, pkg *types.Package) string {
	return types.TypeString(t, func(p *types.Package) string {
		if p == pkg {
			return ""
		}
		return p.Name()
	})
}

// subst replaces macro parameters by argument nodes.
func substNode(n *Node, m map[string]*Node) *Node {
	if n == nil {
		return nil
	}
	if n.Kind == "id" {
		if a, ok := m[n.Val]; ok {
			return a
		}
		return n
	}
	c := &Node{Kind: n.Kind, Val: n.Val}
	// bound variables of quantifiers shadow
	if n.Kind == "call" && (n.Val == "forall" || n.Val == "exists") && len(n.Args) == 5 && n.Args[1].Kind == "id" {
		if _, clash := m[n.Args[1].Val]; clash {
			m2 := map[string]*Node{}
			for k, v := range m {
				if k != n.Args[1].Val {
					m2[k] = v
				}
			}
			m = m2
		}
	}
	for _, a := range n.Args {
		c.Args = append(c.Args, substNode(a, m))
	}
	return c
}

func (e *goEmit) emit(n *Node) string {
	e.depth++
	defer func() { e.depth-- }()
	if e.depth > 60 {
		e.fail("expression too deep")
	}
	switch n.Kind {
	case "id":
		if e.inOld {
			if s, ok := e.oldMap[n.Val]; ok {
				return s
			}
		}
		if s, ok := e.rename[n.Val]; ok {
			return s
		}
		if _, ok := e.types[n.Val]; ok {
			return n.Val
		}
		switch n.Val {
		case "true", "false", "nil":
			return n.Val
		case "emptystr":
			return `""`
		}
		if c, ok := e.g.P.cs.Consts[n.Val]; ok {
			cn, err := parseExpr(c)
			if err != nil {
				e.fail("const %s", n.Val)
			}
			return "(" + e.emit(cn) + ")"
		}
		if obj := e.g.fn.Pkg.Pkg.Scope().Lookup(n.Val); obj != nil {
			if _, isConst := obj.(*types.Const); isConst {
				return n.Val
			}
			if _, isVar := obj.(*types.Var); isVar {
				return n.Val
			}
		}
		e.fail("name %s cannot be evaluated in Go", n.Val)
	case "int":
		return n.Val
	case "str":
		return strconv.Quote(n.Val)
	case "chr":
		if len(n.Val) == 1 {
			return strconv.Itoa(int(n.Val[0]))
		}
		e.fail("char literal %q", n.Val)
	case "un":
		switch n.Val {
		case "!":
			return "!(" + e.emit(n.Args[0]) + ")"
		case "-":
			return "-(" + e.emit(n.Args[0]) + ")"
		case "*":
			return "(*" + e.emit(n.Args[0]) + ")"
		}
		e.fail("unary %s", n.Val)
	case "bin":
		a, b := n.Args[0], n.Args[1]
		switch n.Val {
		case "==>":
			return "(!(" + e.emit(a) + ") || (" + e.emit(b) + "))"
		case "<==>":
			return "((" + e.emit(a) + ") == (" + e.emit(b) + "))"
		case "==", "!=":
			ta, tb := e.typeOf(a), e.typeOf(b)
			if (ta != nil && isBytesT(ta) && a.Kind != "idx") || (tb != nil && isBytesT(tb) && b.Kind != "idx") {
				if b.Kind == "id" && b.Val == "nil" || a.Kind == "id" && a.Val == "nil" {
					return "(" + e.emit(a) + " " + n.Val + " " + e.emit(b) + ")"
				}
				e.fail("comparison of byte slices")
			}
			return "(" + e.num(a) + " " + n.Val + " " + e.num(b) + ")"
		case "<", "<=", ">", ">=", "+", "-", "*", "/", "%":
			if n.Val == "+" && isStringT(e.typeOf(a)) {
				return "(" + e.emit(a) + " + " + e.emit(b) + ")"
			}
			return "(" + e.num(a) + " " + n.Val + " " + e.num(b) + ")"
		case "&&", "||":
			return "(" + e.emit(a) + " " + n.Val + " " + e.emit(b) + ")"
		}
		e.fail("operator %s", n.Val)
	case "sel":
		return e.emit(n.Args[0]) + "." + n.Val
	case "idx":
		t := e.typeOf(n.Args[0])
		s := e.emit(n.Args[0]) + "[" + e.emit(n.Args[1]) + "]"
		if isStringT(t) || isBytesT(t) {
			return "int(" + s + ")"
		}
		if t == nil {
			e.fail("index into a value of unknown type")
		}
		return s
	case "slice":
		s := e.emit(n.Args[0]) + "["
		if n.Args[1] != nil {
			s += e.emit(n.Args[1])
		}
		s += ":"
		if n.Args[2] != nil {
			s += e.emit(n.Args[2])
		}
		return s + "]"
	case "call":
		return e.emitCall(n)
	}
	e.fail("expression kind %s", n.Kind)
	return ""
}

// num emits an operand of an arithmetic/comparison operator; integer-typed operands of named or sized types are
// converted to int so that mixed comparisons type-check.
func (e *goEmit) num(n *Node) string {
	s := e.emit(n)
	t := e.typeOf(n)
	if t != nil && isIntT(t) && n.Kind != "int" && n.Kind != "chr" {
		if b, ok := t.(*types.Basic); !ok || b.Kind() != types.Int {
			if n.Kind == "idx" { // already int(...)
				return s
			}
			return "int(" + s + ")"
		}
	}
	return s
}

func (e *goEmit) emitCall(n *Node) string {
	args := n.Args[1:]
	switch n.Val {
	case "old":
		was := e.inOld
		e.inOld = true
		s := e.emit(args[0])
		e.inOld = was
		return s
	case "len", "cap":
		return n.Val + "(" + e.emit(args[0]) + ")"
	case "int":
		return "int(" + e.emit(args[0]) + ")"
	case "str":
		if isStringT(e.typeOf(args[0])) {
			return e.emit(args[0])
		}
		return "string(" + e.emit(args[0]) + ")"
	case "lower":
		return "fvcLower(" + e.emit(args[0]) + ")"
	case "ite":
		t := e.typeOf(args[1])
		if t == nil {
			t = e.typeOf(args[2])
		}
		tn := ""
		switch {
		case isStringT(t):
			tn = "string"
		case isBoolT(t):
			tn = "bool"
		case isIntT(t):
			tn = "int"
		default:
			e.fail("ite of unknown type")
		}
		conv := func(x *Node) string {
			if tn == "int" {
				return e.num(x)
			}
			return e.emit(x)
		}
		return "func() " + tn + " { if " + e.emit(args[0]) + " { return " + conv(args[1]) + " }; return " + conv(args[2]) + " }()"
	case "forall", "exists":
		if len(args) != 4 || args[0].Kind != "id" {
			e.fail("quantifier shape")
		}
		k := args[0].Val
		saved, had := e.types[k]
		savedR, hadR := e.rename[k]
		e.types[k] = types.Typ[types.Int]
		delete(e.rename, k)
		lo, hi, body := e.num(args[1]), e.num(args[2]), e.emit(args[3])
		if had {
			e.types[k] = saved
		} else {
			delete(e.types, k)
		}
		if hadR {
			e.rename[k] = savedR
		}
		if n.Val == "forall" {
			return "func() bool { for " + k + " := " + lo + "; " + k + " < " + hi + "; " + k + "++ { if !(" + body + ") { return false } }; return true }()"
		}
		return "func() bool { for " + k + " := " + lo + "; " + k + " < " + hi + "; " + k + "++ { if " + body + " { return true } }; return false }()"
	}
	if m, ok := e.g.P.cs.Macros[n.Val]; ok {
		if len(m.Params) != len(args) {
			e.fail("macro %s arity", n.Val)
		}
		sub := map[string]*Node{}
		for i, p := range m.Params {
			sub[p] = args[i]
		}
		return "(" + e.emit(substNode(m.Body, sub)) + ")"
	}
	if f, ok := e.g.P.cs.Fns[n.Val]; ok {
		if f.Body == nil {
			e.fail("spec function %s is uninterpreted", n.Val)
		}
		e.compileFn(f)
		var as []string
		for i, a := range args {
			if i < len(f.Params) && f.Params[i].Sort == "Int" {
				as = append(as, e.num(a))
			} else if i < len(f.Params) && f.Params[i].Sort == "Str" && !isStringT(e.typeOf(a)) && isBytesT(e.typeOf(a)) {
				as = append(as, "string("+e.emit(a)+")")
			} else {
				as = append(as, e.emit(a))
			}
		}
		return "fvcFn_" + n.Val + "(" + strings.Join(as, ", ") + ")"
	}
	e.fail("function %s cannot be evaluated in Go", n.Val)
	return ""
}

func (e *goEmit) compileFn(f *SpecFn) {
	if _, ok := e.fnDefs[f.Name]; ok {
		return
	}
	e.fnDefs[f.Name] = "" // recursion guard
	sortGo := func(s string) string {
		switch s {
		case "Int":
			return "int"
		case "Bool":
			return "bool"
		case "Str":
			return "string"
		}
		e.fail("spec function %s: sort %s", f.Name, s)
		return ""
	}
	sub := &goEmit{g: e.g, types: map[string]types.Type{}, rename: map[string]string{}, oldMap: map[string]string{}, fnDefs: e.fnDefs}
	var ps []string
	for _, p := range f.Params {
		gt := sortGo(p.Sort)
		ps = append(ps, p.Name+" "+gt)
		switch gt {
		case "int":
			sub.types[p.Name] = types.Typ[types.Int]
		case "bool":
			sub.types[p.Name] = types.Typ[types.Bool]
		case "string":
			sub.types[p.Name] = types.Typ[types.String]
		}
	}
	ret := sortGo(f.Ret)
	var body string
	if ret == "int" {
		body = sub.num(f.Body)
	} else {
		body = sub.emit(f.Body)
	}
	e.fnDefs[f.Name] = "func fvcFn_" + f.Name + "(" + strings.Join(ps, ", ") + ") " + ret + " { return " + body + " }\n"
	e.fnOrd = append(e.fnOrd, f.Name)
}

func (e *goEmit) try(n *Node, asInt bool) (s string, err error) {
	defer func() {
		if r := recover(); r != nil {
			if ee, ok := r.(emitErr); ok {
				err = ee
				return
			}
			err = fmt.Errorf("%v", r)
		}
	}()
	if asInt {
		return e.num(n), nil
	}
	return e.emit(n), nil
}

// ---- input dimensions --------------------------------------------------------------------------------

type dim struct {
	path string // Go lvalue
	kind string // string bytes int bool strs
	conv string // conversion for named types ("" none)
}

func (rr *replayBuilder) dimsFor(path string, t types.Type, depth int) bool {
	pkg := rr.g.fn.Pkg.Pkg
	conv := ""
	if _, named := t.(*types.Named); named {
		conv = goTypeName(t, pkg)
		if strings.Contains(conv, ".") {
			return false
		}
	}
	switch {
	case isStringT(t):
		rr.dims = append(rr.dims, dim{path, "string", conv})
		return true
	case isBytesT(t):
		rr.dims = append(rr.dims, dim{path, "bytes", conv})
		return true
	case isBoolT(t):
		rr.dims = append(rr.dims, dim{path, "bool", conv})
		return true
	case isIntT(t):
		if conv == "" {
			conv = goTypeName(t, pkg)
		}
		rr.dims = append(rr.dims, dim{path, "int", conv})
		return true
	}
	switch u := t.Underlying().(type) {
	case *types.Slice:
		if isStringT(u.Elem()) && conv == "" {
			rr.dims = append(rr.dims, dim{path, "strs", ""})
			return true
		}
	case *types.Struct:
		if depth > 1 {
			return false
		}
		any := false
		for i := 0; i < u.NumFields(); i++ {
			f := u.Field(i)
			if f.Name() == "_" {
				continue
			}
			switch f.Type().Underlying().(type) {
			case *types.Pointer, *types.Interface, *types.Signature, *types.Chan:
				// a nil pointer / interface / function field is not a legitimate state of most objects (the contracts
				// leave non-nil-ness implicit): such objects are not built by the generic driver
				return false
			}
			if rr.dimsFor(path+"."+f.Name(), f.Type(), depth+1) {
				any = true
			}
			// map, slice and foreign struct fields that cannot be generated keep their zero value
		}
		return any || u.NumFields() == 0
	}
	return false
}

type replayBuilder struct {
	g    *Gen
	dims []dim
}

var intLitRe = regexp.MustCompile(`\b\d+\b`)
var modelIntRe = regexp.MustCompile(`\(define-fun\s+([^\s()]+)\s+\(\)\s+Int\s+(\(- )?(\d+)`)

// concreteReplay tries to find an input on which the real function violates its contract.
func concreteReplay(cfg RunConfig, r *OblResult, model string) (res ReplayResult) {
	g := r.Gen
	if g == nil || g.fn == nil || g.con == nil {
		return ReplayResult{Why: "no function body"}
	}
	fn := g.fn
	if len(fn.FreeVars) > 0 || fn.Parent() != nil {
		return ReplayResult{Why: "closure: inputs are captured variables, no generic driver"}
	}
	if fn.TypeParams().Len() > 0 || len(fn.TypeArgs()) > 0 {
		return ReplayResult{Why: "generic function"}
	}
	if len(g.con.Locks) > 0 {
		return ReplayResult{Why: "lock contract"}
	}
	defer func() {
		if rec := recover(); rec != nil {
			res = ReplayResult{Why: fmt.Sprintf("replay generator: %v", rec)}
		}
	}()
	pkg := fn.Pkg.Pkg
	rb := &replayBuilder{g: g}
	em := &goEmit{g: g, types: map[string]types.Type{}, rename: map[string]string{}, oldMap: map[string]string{}, fnDefs: map[string]string{}}
	var decl, oldDecl []string
	var callArgs []string
	recv := ""
	for i, p := range fn.Params {
		t := p.Type()
		name := p.Name()
		if name == "" || name == "_" {
			name = fmt.Sprintf("fvcArg%d", i)
		}
		em.types[name] = t
		isRecv := i == 0 && fn.Signature.Recv() != nil
		if ptr, ok := t.Underlying().(*types.Pointer); ok {
			if _, isSt := ptr.Elem().Underlying().(*types.Struct); !isSt {
				return ReplayResult{Why: "parameter " + name + ": pointer to a non-struct"}
			}
			tn := goTypeName(ptr.Elem(), pkg)
			if strings.Contains(tn, ".") {
				return ReplayResult{Why: "parameter " + name + " of foreign type " + tn}
			}
			decl = append(decl, fmt.Sprintf("%s := &%s{}", name, tn))
			if !rb.dimsFor("(*"+name+")", ptr.Elem(), 1) {
				return ReplayResult{Why: "parameter " + name + ": no field can be generated"}
			}
			oldDecl = append(oldDecl, fmt.Sprintf("fvcOld_%s := *%s; _ = fvcOld_%s", name, name, name))
			em.oldMap[name] = "(&fvcOld_" + name + ")"
		} else {
			tn := goTypeName(t, pkg)
			if strings.Contains(tn, ".") && !isBytesT(t) {
				return ReplayResult{Why: "parameter " + name + " of foreign type " + tn}
			}
			decl = append(decl, fmt.Sprintf("var %s %s; _ = %s", name, tn, name))
			if !rb.dimsFor(name, t, 0) {
				switch t.Underlying().(type) {
				case *types.Map, *types.Slice:
					// stays nil (a legitimate value of the type); the search is weaker for it
				default:
					return ReplayResult{Why: "parameter " + name + " of type " + tn + " cannot be generated"}
				}
			}
			if isBytesT(t) {
				oldDecl = append(oldDecl, fmt.Sprintf("fvcOld_%s := append([]byte(nil), %s...); _ = fvcOld_%s", name, name, name))
				em.oldMap[name] = "fvcOld_" + name
			}
		}
		if isRecv {
			recv = name
		} else {
			callArgs = append(callArgs, name)
		}
	}
	if fn.Signature.Variadic() && len(callArgs) > 0 {
		callArgs[len(callArgs)-1] += "..."
	}
	// results
	var resNames []string
	results := fn.Signature.Results()
	for i := 0; i < results.Len(); i++ {
		rn := fmt.Sprintf("fvcR%d", i)
		resNames = append(resNames, rn)
		em.types[rn] = results.At(i).Type()
		em.rename[fmt.Sprintf("result%d", i)] = rn
		em.types[fmt.Sprintf("result%d", i)] = results.At(i).Type()
		if nm := results.At(i).Name(); nm != "" && nm != "_" {
			if _, clash := em.types[nm]; !clash {
				em.rename[nm] = rn
				em.types[nm] = results.At(i).Type()
			}
		}
		if i == 0 {
			em.rename["result"] = rn
			em.types["result"] = results.At(i).Type()
		}
	}
	// clauses
	var reqs []string
	for _, c := range append(append([]*Clause{}, g.con.Requires...), g.con.Assumes...) {
		s, err := em.try(c.Expr, false)
		if err != nil {
			return ReplayResult{Why: "precondition " + c.Label + " cannot be evaluated in Go: " + err.Error()}
		}
		reqs = append(reqs, s)
	}
	type ens struct{ label, code string }
	var enss []ens
	var skipped []string
	for _, c := range g.con.Ensures {
		s, err := em.try(c.Expr, false)
		if err != nil {
			skipped = append(skipped, c.Label)
			continue
		}
		enss = append(enss, ens{c.Label, s})
	}
	// pools
	alpha := map[byte]bool{}
	lits := map[string]bool{"": true}
	ints := map[int]bool{-1: true, 0: true, 1: true, 2: true, 3: true}
	addStr := func(s string) {
		if len(s) <= 12 {
			lits[s] = true
		}
		for i := 0; i < len(s) && i < 12; i++ {
			alpha[s[i]] = true
		}
	}
	var walk func(n *Node)
	walk = func(n *Node) {
		if n == nil {
			return
		}
		switch n.Kind {
		case "str":
			addStr(n.Val)
		case "chr":
			if len(n.Val) == 1 {
				alpha[n.Val[0]] = true
			}
		case "int":
			if v, err := strconv.Atoi(n.Val); err == nil && v <= 1000 {
				ints[v] = true
			}
		case "call":
			if m, ok := g.P.cs.Macros[n.Val]; ok {
				walk(m.Body)
			}
			if f, ok := g.P.cs.Fns[n.Val]; ok {
				walk(f.Body)
			}
		}
		for _, a := range n.Args {
			walk(a)
		}
	}
	for _, c := range g.con.Requires {
		walk(c.Expr)
	}
	for _, c := range g.con.Ensures {
		walk(c.Expr)
	}
	for _, b := range fn.Blocks {
		for _, in := range b.Instrs {
			for _, op := range in.Operands(nil) {
				if op == nil || *op == nil {
					continue
				}
				if c, ok := (*op).(*ssa.Const); ok && c.Value != nil {
					if isStringT(c.Type()) {
						addStr(constString(c))
					} else if isIntT(c.Type()) {
						if v := c.Int64(); v >= 0 && v < 256 {
							if v >= 32 && v < 127 {
								alpha[byte(v)] = true
							}
							if v <= 64 {
								ints[int(v)] = true
							}
						}
					}
				}
			}
		}
	}
	for _, m := range modelIntRe.FindAllStringSubmatch(model, -1) {
		if strings.HasPrefix(m[1], "v!") {
			if v, err := strconv.Atoi(m[3]); err == nil && v <= 64 {
				if m[2] != "" {
					v = -v
				}
				ints[v] = true
			}
		}
	}
	alpha['a'] = true
	var alphaL []byte
	for c := range alpha {
		alphaL = append(alphaL, c)
	}
	sort.Slice(alphaL, func(i, j int) bool { return alphaL[i] < alphaL[j] })
	// prefer punctuation and the letters of the literals; cap the alphabet
	if len(alphaL) > 6 {
		var punct, other []byte
		for _, c := range alphaL {
			if c < '0' || (c > '9' && c < 'A') || (c > 'Z' && c < 'a') || c > 'z' {
				punct = append(punct, c)
			} else {
				other = append(other, c)
			}
		}
		alphaL = append(punct, other...)
		if len(alphaL) > 6 {
			alphaL = alphaL[:6]
		}
		hasLetter := false
		for _, c := range alphaL {
			if c >= 'a' && c <= 'z' {
				hasLetter = true
			}
		}
		if !hasLetter {
			alphaL[len(alphaL)-1] = 'a'
		}
	}
	var litL []string
	for s := range lits {
		litL = append(litL, s)
	}
	sort.Strings(litL)
	var intL []int
	for v := range ints {
		intL = append(intL, v)
	}
	sort.Ints(intL)
	nStr := 0
	for _, d := range rb.dims {
		if d.kind == "string" || d.kind == "bytes" {
			nStr++
		}
	}
	maxLen := 4
	if nStr >= 2 {
		maxLen = 3
	}
	if nStr >= 4 {
		maxLen = 2
	}

	// test source
	var b strings.Builder
	pkgName := pkg.Name()
	fmt.Fprintf(&b, "package %s\n\nimport (\n\t\"fmt\"\n\t\"math/rand\"\n\t\"testing\"\n\t\"time\"\n)\n\n", pkgName)
	b.WriteString("func fvcLower(s string) string { b := []byte(s); for i, c := range b { if c >= 'A' && c <= 'Z' { b[i] = c + 32 } }; return string(b) }\n")
	for _, n := range em.fnOrd {
		b.WriteString(em.fnDefs[n])
	}
	fmt.Fprintf(&b, "\nfunc TestFVCConcreteReplay(t *testing.T) {\n")
	fmt.Fprintf(&b, "\talpha := %#v\n\tlits := %#v\n\tints := %#v\n\tmaxLen := %d\n", string(alphaL), litL, intL, maxLen)
	b.WriteString(`	var strs []string
	seenS := map[string]bool{}
	addS := func(s string) { if !seenS[s] { seenS[s] = true; strs = append(strs, s) } }
	var gen func(p string, n int)
	gen = func(p string, n int) { addS(p); if n == 0 { return }; for i := 0; i < len(alpha); i++ { gen(p+string(alpha[i]), n-1) } }
	gen("", maxLen)
	for _, l := range lits { addS(l); for i := 0; i < len(alpha); i++ { addS(l + string(alpha[i])); addS(string(alpha[i]) + l) } }
	strss := [][]string{nil, {""}}
	for _, s := range lits { strss = append(strss, []string{s}); for _, u := range lits { strss = append(strss, []string{s, u}) } }
	_ = ints; _ = strss
`)
	var radices []string
	for _, d := range rb.dims {
		switch d.kind {
		case "string", "bytes":
			radices = append(radices, "len(strs)")
		case "int":
			radices = append(radices, "len(ints)")
		case "bool":
			radices = append(radices, "2")
		case "strs":
			radices = append(radices, "len(strss)")
		}
	}
	fmt.Fprintf(&b, "\tradix := []int{%s}\n", strings.Join(radices, ", "))
	b.WriteString(`	total := 1.0
	for _, r := range radix { total *= float64(r) }
	const budget = 300000
	exhaustive := total <= budget
	rng := rand.New(rand.NewSource(1))
	idx := make([]int, len(radix))
	deadline := time.Now().Add(25 * time.Second)
	cases, ran := 0, 0
	for n := 0; ; n++ {
		if exhaustive {
			if n > 0 {
				k := 0
				for k < len(idx) { idx[k]++; if idx[k] < radix[k] { break }; idx[k] = 0; k++ }
				if k == len(idx) { break }
			}
		} else {
			if n >= budget { break }
			for k := range idx { idx[k] = rng.Intn(radix[k]) }
		}
		if n%1024 == 0 && time.Now().After(deadline) { break }
		cases++
`)
	for _, d := range decl {
		fmt.Fprintf(&b, "\t\t%s\n", d)
	}
	for i, d := range rb.dims {
		val := ""
		switch d.kind {
		case "string":
			val = fmt.Sprintf("strs[idx[%d]]", i)
		case "bytes":
			val = fmt.Sprintf("[]byte(strs[idx[%d]])", i)
		case "int":
			val = fmt.Sprintf("ints[idx[%d]]", i)
		case "bool":
			val = fmt.Sprintf("idx[%d] == 1", i)
		case "strs":
			val = fmt.Sprintf("append([]string(nil), strss[idx[%d]]...)", i)
		}
		if d.conv != "" {
			val = d.conv + "(" + val + ")"
		}
		fmt.Fprintf(&b, "\t\t%s = %s\n", d.path, val)
	}
	// describe input
	var descFmt, descArgs []string
	for _, d := range rb.dims {
		descFmt = append(descFmt, d.path+"=%#v")
		if d.kind == "bytes" {
			descArgs = append(descArgs, "string("+d.path+")")
		} else {
			descArgs = append(descArgs, d.path)
		}
	}
	fmt.Fprintf(&b, "\t\tdesc := fmt.Sprintf(%q, %s)\n", strings.Join(descFmt, " "), strings.Join(descArgs, ", "))
	// requires (a panic while evaluating a clause skips the input)
	b.WriteString("\t\tok := func() (ok bool) { defer func() { if recover() != nil { ok = false } }()\n")
	for _, rq := range reqs {
		fmt.Fprintf(&b, "\t\t\tif !(%s) { return false }\n", rq)
	}
	b.WriteString("\t\t\treturn true }()\n\t\tif !ok { continue }\n\t\tran++\n")
	for _, d := range oldDecl {
		fmt.Fprintf(&b, "\t\t%s\n", d)
	}
	call := fn.Name() + "(" + strings.Join(callArgs, ", ") + ")"
	if recv != "" {
		call = recv + "." + call
	}
	for i, rn := range resNames {
		fmt.Fprintf(&b, "\t\tvar %s %s; _ = %s\n", rn, goTypeName(results.At(i).Type(), pkg), rn)
	}
	b.WriteString("\t\tpanicked := func() (p any) { defer func() { p = recover() }()\n\t\t\t")
	if len(resNames) > 0 {
		b.WriteString(strings.Join(resNames, ", ") + " = ")
	}
	b.WriteString(call + "\n\t\t\treturn nil }()\n")
	if g.con.Panics {
		// `panics`: an explicit panic is part of the function's documented behaviour (not an obligation): such an input is
		// outside what the postconditions speak about
		b.WriteString("\t\tif panicked != nil { if pt := fmt.Sprintf(\"%T\", panicked); !(len(pt) >= 8 && pt[:8] == \"runtime.\") { continue } }\n")
		b.WriteString("\t\tif panicked != nil { fmt.Printf(\"FVC-REPLAY-FAIL violated=run-time-panic(%v) input: %s\\n\", panicked, desc); t.FailNow() }\n")
	} else {
		b.WriteString("\t\tif panicked != nil { fmt.Printf(\"FVC-REPLAY-FAIL violated=run-time-panic(%v) input: %s\\n\", panicked, desc); t.FailNow() }\n")
	}
	for _, en := range enss {
		fmt.Fprintf(&b, "\t\tif bad := func() (bad bool) { defer func() { if recover() != nil { bad = false } }(); return !(%s) }(); bad { fmt.Printf(\"FVC-REPLAY-FAIL violated=post:%s input: %%s result: %s\\n\", desc%s); t.FailNow() }\n",
			en.code, en.label, strings.Repeat("%#v ", len(resNames)), func() string {
				s := ""
				for i, rn := range resNames {
					if isBytesT(results.At(i).Type()) {
						s += ", string(" + rn + ")"
					} else {
						s += ", " + rn
					}
				}
				return s
			}())
	}
	b.WriteString("\t}\n\tfmt.Printf(\"FVC-REPLAY-CASES %d %d %v\\n\", cases, ran, exhaustive)\n}\n")
	src := b.String()
	res.Tried = true
	res.Test = src
	tmp, err := os.MkdirTemp("", "fvcrp")
	if err != nil {
		res.Why = err.Error()
		return res
	}
	defer os.RemoveAll(tmp)
	tf := filepath.Join(tmp, "zz_fvc_concrete_replay_test.go")
	_ = os.WriteFile(tf, []byte(src), 0o644)
	pkgRel := strings.TrimPrefix(strings.TrimPrefix(pkg.Path(), modPath), "/")
	if pkgRel == "" {
		pkgRel = "."
	}
	ok, out := runOverlayTest(cfg, pkgRel, tf, "TestFVCConcreteReplay", 90)
	res.Output = truncate(out, 3000)
	for _, ln := range strings.Split(out, "\n") {
		if i := strings.Index(ln, "FVC-REPLAY-FAIL "); i >= 0 {
			rest := ln[i+len("FVC-REPLAY-FAIL "):]
			res.Confirmed = true
			if j := strings.Index(rest, " input: "); j >= 0 {
				res.Violated = strings.TrimPrefix(rest[:j], "violated=")
				res.Input = rest[j+len(" input: "):]
			} else {
				res.Input = rest
			}
		}
		if i := strings.Index(ln, "FVC-REPLAY-CASES "); i >= 0 {
			res.Cases = ln[i+len("FVC-REPLAY-CASES "):]
		}
	}
	if !res.Confirmed {
		switch {
		case ok:
			res.Why = "bounded search over the real function found no input violating the evaluable clauses (cases, with precondition, exhaustive: " + res.Cases + ")"
			if len(skipped) > 0 {
				res.Why += "; clauses not evaluable in Go: " + strings.Join(skipped, ", ")
			}
		case strings.Contains(out, "[build failed]") || strings.Contains(out, "cannot use") || strings.Contains(out, "undefined:"):
			res.Why = "generated replay test does not compile"
		default:
			res.Why = "replay test did not finish"
		}
	}
	return res
}

func constString(c *ssa.Const) string {
	s := c.Value.ExactString()
	if u, err := strconv.Unquote(s); err == nil {
		return u
	}
	return ""
}
