package main

// Contract files: comment-only Go files (//go:build verif) in /repo packages, and assumed
// dependency contracts in /verif/contracts/deps/*.spec. Every contract line starts with `//@`.

import (
	"fmt"
	"os"
	"path/filepath"
	"regexp"
	"sort"
	"strconv"
	"strings"
)

type Clause struct {
	Kind   string // requires ensures invariant decreases atcall axiom lemma
	Label  string
	Text   string
	Expr   *Node
	Props  []string // restriction of the clause to these properties (empty: the function's props)
	Where  string   // file:line
	Callee string   // atcall
}

type LoopSpec struct {
	Ord  int
	Invs []*Clause
	Decr *Clause
}

type LockSpec struct {
	Lock     *Node
	Text     string
	Protects []string
	Inv      *Clause
}

type FuncContract struct {
	Name      string // canonical: pkg.Func, pkg.(*T).M, pkg.(T).M$1, pkg.Iface.M, pkg.Struct.field
	Pkg       string
	Assumed   bool
	Pure      bool // no heap effect at all
	Props     []string
	Params    []string // formal names for assumed contracts without SSA body (receiver first)
	Requires  []*Clause
	Ensures   []*Clause
	Defines   []*Clause
	Preserves []*Clause // closure invariants over captured variables (callbacks)
	Assumes   []*Clause // entry assumptions that are not obligations at call sites (frozen start-up state)
	Modifies  []string
	AtCalls   []*Clause
	Loops     map[int]*LoopSpec
	Locks     []*LockSpec
	NoSafety  map[string]bool
	Safety    map[string]bool
	Where     string
	File      string
	Fresh     bool // result is a freshly allocated non-nil reference
	Panics    bool // explicit panics are part of the documented behaviour (not an obligation)
	Havocs    []string
	Unbounded bool
	CallsBack bool
	Allocates bool
	AllocBound *Clause
}

type Macro struct {
	Name   string
	Params []string
	Body   *Node
}

type SpecParam struct{ Name, Sort string }

type SpecFn struct {
	Name   string
	Params []SpecParam
	Ret    string
	Body   *Node
	Text   string
	Rec    bool
}

type ContractSet struct {
	Funcs  map[string]*FuncContract
	Fns    map[string]*SpecFn
	FnOrd  []string
	Ghosts map[string]string // name -> smt sort
	GhOrd  []string
	Axioms []*Clause
	Lemmas []*Clause
	Raw    []string
	Files  []string
	Consts map[string]string
	Macros map[string]*Macro
	Dups   []string
	EnvGhosts map[string]bool
}

func newContractSet() *ContractSet {
	return &ContractSet{Funcs: map[string]*FuncContract{}, Fns: map[string]*SpecFn{}, Ghosts: map[string]string{}, Consts: map[string]string{}, Macros: map[string]*Macro{}, EnvGhosts: map[string]bool{}}
}

// sortSpec converts a Go-ish sort spelling to SMT.
func sortSpec(s string) string {
	s = strings.TrimSpace(s)
	switch s {
	case "int", "uint", "int64", "uint64", "uint32", "int32", "byte", "ref", "uint8", "Int":
		return "Int"
	case "bool", "Bool":
		return "Bool"
	case "string", "Str":
		return "Str"
	case "real", "float64", "Real":
		return "Real"
	case "slice", "Slc":
		return "Slc"
	}
	if strings.HasPrefix(s, "(") {
		return s
	}
	if strings.HasPrefix(s, "map[") {
		d, i := 0, 3
		for ; i < len(s); i++ {
			if s[i] == '[' {
				d++
			} else if s[i] == ']' {
				d--
				if d == 0 {
					break
				}
			}
		}
		return "(Array " + sortSpec(s[4:i]) + " " + sortSpec(s[i+1:]) + ")"
	}
	return s // datatype name
}

var reLabel = regexp.MustCompile(`^([A-Za-z0-9_\-\.]+):\s+(.*)$`)
var reProps = regexp.MustCompile(`^\[((?:C\d+[ ,]*)+)\]\s*(.*)$`)

func splitLabel(s string) (props []string, label, rest string) {
	s = strings.TrimSpace(s)
	if m := reProps.FindStringSubmatch(s); m != nil {
		props = strings.FieldsFunc(m[1], func(r rune) bool { return r == ' ' || r == ',' })
		s = m[2]
	}
	if m := reLabel.FindStringSubmatch(s); m != nil {
		return props, m[1], m[2]
	}
	return props, "", s
}

func (cs *ContractSet) loadFile(path string) error {
	data, err := os.ReadFile(path)
	if err != nil {
		return err
	}
	cs.Files = append(cs.Files, path)
	pkg := ""
	var lines []string
	var wheres []string
	for i, ln := range strings.Split(string(data), "\n") {
		t := strings.TrimSpace(ln)
		if strings.HasPrefix(t, "package ") && pkg == "" {
			pkg = strings.TrimSpace(strings.TrimPrefix(t, "package "))
			continue
		}
		if !strings.HasPrefix(t, "//@") {
			continue
		}
		body := strings.TrimSpace(strings.TrimPrefix(t, "//@"))
		if body == "" || strings.HasPrefix(body, "#") {
			continue
		}
		if c := strings.Index(body, " //"); c >= 0 { // trailing comment
			body = strings.TrimSpace(body[:c])
		}
		if strings.HasPrefix(body, "..") { // continuation
			if len(lines) > 0 {
				lines[len(lines)-1] += " " + strings.TrimSpace(body[2:])
			}
			continue
		}
		lines = append(lines, body)
		wheres = append(wheres, fmt.Sprintf("%s:%d", filepath.Base(filepath.Dir(path))+"/"+filepath.Base(path), i+1))
	}
	var cur *FuncContract
	var curLoop *LoopSpec
	var fileProps []string
	for i, ln := range lines {
		w := wheres[i]
		kw, rest, _ := strings.Cut(ln, " ")
		rest = strings.TrimSpace(rest)
		mk := func(kind string) (*Clause, error) {
			props, label, text := splitLabel(rest)
			e, err := parseExpr(text)
			if err != nil {
				return nil, fmt.Errorf("%s: %v", w, err)
			}
			return &Clause{Kind: kind, Label: label, Text: text, Expr: e, Props: props, Where: w}, nil
		}
		switch kw {
		case "package":
			pkg = rest
		case "props":
			if cur == nil {
				fileProps = strings.Fields(rest)
			} else {
				cur.Props = strings.Fields(rest)
			}
		case "ghost", "envghost": // envghost: environment state (clock...), exempt from frame checks
			name, srt, _ := strings.Cut(rest, " ")
			if kw == "envghost" {
				cs.EnvGhosts[name] = true
			}
			if _, ok := cs.Ghosts[name]; !ok {
				cs.GhOrd = append(cs.GhOrd, name)
			}
			cs.Ghosts[name] = sortSpec(srt)
		case "const":
			name, v, _ := strings.Cut(rest, " ")
			cs.Consts[name] = strings.TrimSpace(v)
		case "smt":
			cs.Raw = append(cs.Raw, rest)
		case "macro":
			// macro NAME(a, b) = EXPR
			i := strings.Index(rest, "(")
			j := strings.Index(rest, ")")
			k := strings.Index(rest, " = ")
			if i < 0 || j < i || k < j {
				return fmt.Errorf("%s: macro NAME(a, b) = EXPR", w)
			}
			m := &Macro{Name: strings.TrimSpace(rest[:i])}
			for _, p := range strings.Split(rest[i+1:j], ",") {
				if p = strings.TrimSpace(p); p != "" {
					m.Params = append(m.Params, p)
				}
			}
			e, err := parseExpr(rest[k+3:])
			if err != nil {
				return fmt.Errorf("%s: %v", w, err)
			}
			m.Body = e
			cs.Macros[m.Name] = m
		case "fn", "recfn":
			f, err := parseSpecFn(rest)
			if err != nil {
				return fmt.Errorf("%s: %v", w, err)
			}
			f.Rec = kw == "recfn"
			if _, ok := cs.Fns[f.Name]; !ok {
				cs.FnOrd = append(cs.FnOrd, f.Name)
			}
			cs.Fns[f.Name] = f
		case "axiom", "lemma":
			c, err := mk(kw)
			if err != nil {
				return err
			}
			if len(c.Props) == 0 {
				c.Props = fileProps
			}
			if kw == "axiom" {
				cs.Axioms = append(cs.Axioms, c)
			} else {
				cs.Lemmas = append(cs.Lemmas, c)
			}
		case "func":
			// trailing flag words
			var flags []string
			hdr := rest
			for {
				k := strings.LastIndex(hdr, " ")
				if k < 0 {
					break
				}
				w := hdr[k+1:]
				if w == "assumed" || w == "pure" || w == "fresh" || w == "panics" || w == "allocates" {
					flags = append(flags, w)
					hdr = strings.TrimSpace(hdr[:k])
					continue
				}
				break
			}
			name := hdr
			// optional formal list: name(a, b, c) — the "(" must follow an identifier character
			var formals []string
			if strings.HasSuffix(hdr, ")") {
				if j := strings.LastIndex(hdr, "("); j > 0 && (isIdentChar(hdr[j-1])) {
					formals = strings.Split(hdr[j+1:len(hdr)-1], ",")
					name = hdr[:j]
				}
			}
			name = strings.TrimSpace(name)
			for k := range formals {
				formals[k] = strings.TrimSpace(formals[k])
			}
			if len(formals) == 1 && formals[0] == "" {
				formals = nil
			}
			fs := append([]string{name}, flags...)
			full := qualify(pkg, name)
			cur = &FuncContract{Name: full, Pkg: pkg, Loops: map[int]*LoopSpec{}, NoSafety: map[string]bool{}, Safety: map[string]bool{}, Where: w, File: path, Props: fileProps, Params: formals}
			for _, f := range fs[1:] {
				switch f {
				case "assumed":
					cur.Assumed = true
				case "pure":
					cur.Pure = true
				case "fresh":
					cur.Fresh = true
				case "panics":
					cur.Panics = true
				case "allocates":
					cur.Allocates = true
				}
			}
			if old, ok := cs.Funcs[full]; ok {
				if old.File == path || !old.Assumed {
					return fmt.Errorf("%s: duplicate contract for %s (first at %s)", w, full, old.Where)
				}
				// an assumed dependency contract given in two spec files: the first one loaded wins
				cs.Dups = append(cs.Dups, fmt.Sprintf("%s: duplicate assumed contract for %s ignored (first at %s)", w, full, old.Where))
			} else {
				cs.Funcs[full] = cur
			}
			curLoop = nil
		default:
			if cur == nil {
				return fmt.Errorf("%s: clause %q outside func", w, kw)
			}
			switch kw {
			case "assumed":
				cur.Assumed = true
			case "pure":
				cur.Pure = true
			case "fresh":
				cur.Fresh = true
			case "panics":
				cur.Panics = true
			case "callsback":
				cur.CallsBack = true
			case "allocates":
				cur.Allocates = true
			case "trusted": // `trusted ensures ...`: assumed at call sites, not checked against the body (listed as assumption)
				if strings.HasPrefix(rest, "ensures ") {
					rest = strings.TrimSpace(strings.TrimPrefix(rest, "ensures "))
				}
				c, err := mk("defines")
				if err != nil {
					return err
				}
				cur.Defines = append(cur.Defines, c)
			case "assumes":
				c, err := mk("assumes")
				if err != nil {
					return err
				}
				cur.Assumes = append(cur.Assumes, c)
			case "preserves":
				c, err := mk("preserves")
				if err != nil {
					return err
				}
				cur.Preserves = append(cur.Preserves, c)
			case "requires", "ensures", "defines":
				c, err := mk(kw)
				if err != nil {
					return err
				}
				switch kw {
				case "requires":
					cur.Requires = append(cur.Requires, c)
				case "ensures":
					cur.Ensures = append(cur.Ensures, c)
				default:
					cur.Defines = append(cur.Defines, c)
				}
			case "modifies":
				for _, t := range strings.Split(rest, ",") {
					cur.Modifies = append(cur.Modifies, strings.TrimSpace(t))
				}
			case "havocs":
				for _, t := range strings.Split(rest, ",") {
					cur.Havocs = append(cur.Havocs, strings.TrimSpace(t))
				}
			case "allocbound":
				c, err := mk("allocbound")
				if err != nil {
					return err
				}
				cur.AllocBound = c
			case "nosafety":
				for _, t := range strings.Fields(rest) {
					cur.NoSafety[t] = true
				}
			case "safety":
				for _, t := range strings.Fields(rest) {
					cur.Safety[t] = true
				}
			case "atcall":
				// atcall CALLEE: [label:] EXPR
				j := strings.Index(rest, ":")
				if j < 0 {
					return fmt.Errorf("%s: atcall needs CALLEE: EXPR", w)
				}
				callee := strings.TrimSpace(rest[:j])
				save := rest
				rest = strings.TrimSpace(rest[j+1:])
				c, err := mk("atcall")
				rest = save
				if err != nil {
					return err
				}
				c.Callee = qualify(pkg, callee)
				cur.AtCalls = append(cur.AtCalls, c)
			case "loop":
				n, err := strconv.Atoi(strings.Fields(rest)[0])
				if err != nil {
					return fmt.Errorf("%s: loop ordinal: %v", w, err)
				}
				curLoop = &LoopSpec{Ord: n}
				cur.Loops[n] = curLoop
			case "invariant", "decreases":
				if curLoop == nil {
					return fmt.Errorf("%s: %s outside loop", w, kw)
				}
				c, err := mk(kw)
				if err != nil {
					return err
				}
				if kw == "invariant" {
					curLoop.Invs = append(curLoop.Invs, c)
				} else {
					curLoop.Decr = c
				}
			case "lock":
				// lock EXPR protects a, b [inv EXPR]
				l, r, ok := strings.Cut(rest, " protects ")
				if !ok {
					return fmt.Errorf("%s: lock EXPR protects ...", w)
				}
				le, err := parseExpr(l)
				if err != nil {
					return fmt.Errorf("%s: %v", w, err)
				}
				ls := &LockSpec{Lock: le, Text: l}
				prot, inv, hasInv := strings.Cut(r, " inv ")
				for _, t := range strings.Split(prot, ",") {
					ls.Protects = append(ls.Protects, strings.TrimSpace(t))
				}
				if hasInv {
					save := rest
					rest = inv
					c, err := mk("lockinv")
					rest = save
					if err != nil {
						return err
					}
					ls.Inv = c
				}
				cur.Locks = append(cur.Locks, ls)
			default:
				return fmt.Errorf("%s: unknown clause %q", w, kw)
			}
		}
	}
	return nil
}

// qualify prefixes an unqualified function name with the package name.
// "(*T).M" -> "pkg.(*T).M"; "f" -> "pkg.f"; "T.M" -> "pkg.T.M"; already qualified names
// ("strings.Index", "sync.(*Mutex).Lock") are recognised by a leading lower-case package
// identifier followed by '.' and something that is not a field of a local name — to keep
// this simple, contract files write foreign names with a leading '@': "@sync.(*Mutex).Lock".
func qualify(pkg, name string) string {
	if strings.HasPrefix(name, "@") {
		return name[1:]
	}
	return pkg + "." + name
}

func isIdentChar(c byte) bool {
	return c == '_' || c == '$' || (c >= '0' && c <= '9') || (c >= 'a' && c <= 'z') || (c >= 'A' && c <= 'Z')
}

func parseSpecFn(s string) (*SpecFn, error) {
	// NAME(a int, b string) bool [= EXPR]
	i := strings.Index(s, "(")
	if i < 0 {
		return nil, fmt.Errorf("fn: missing (")
	}
	d, j := 0, i
	for ; j < len(s); j++ {
		if s[j] == '(' {
			d++
		} else if s[j] == ')' {
			d--
			if d == 0 {
				break
			}
		}
	}
	f := &SpecFn{Name: strings.TrimSpace(s[:i])}
	ps := strings.TrimSpace(s[i+1 : j])
	if ps != "" {
		for _, p := range strings.Split(ps, ",") {
			n, srt, ok := strings.Cut(strings.TrimSpace(p), " ")
			if !ok {
				return nil, fmt.Errorf("fn %s: parameter needs a sort: %q", f.Name, p)
			}
			f.Params = append(f.Params, SpecParam{n, sortSpec(srt)})
		}
	}
	rest := strings.TrimSpace(s[j+1:])
	ret, body, has := strings.Cut(rest, "=")
	if has && strings.HasPrefix(body, "=") { // "==" inside: find " = "
		k := strings.Index(rest, " = ")
		if k < 0 {
			ret, has = rest, false
		} else {
			ret, body = rest[:k], rest[k+3:]
		}
	} else if has {
		// make sure we split on the first " = " (sort may be an (Array ..))
		if k := strings.Index(rest, " = "); k >= 0 {
			ret, body = rest[:k], rest[k+3:]
		}
	}
	f.Ret = sortSpec(ret)
	if has {
		e, err := parseExpr(body)
		if err != nil {
			return nil, err
		}
		f.Body = e
		f.Text = body
	}
	return f, nil
}

func (cs *ContractSet) loadDir(dir, pattern string) error {
	ms, _ := filepath.Glob(filepath.Join(dir, pattern))
	sort.Strings(ms)
	for _, m := range ms {
		if err := cs.loadFile(m); err != nil {
			return err
		}
	}
	return nil
}
