// place in: .
package fiber

// Observation for property C10 (not a defect): IsProxyTrusted looks the peer's CANONICAL text (net.IP.String()) up
// in a map keyed by the CONFIGURED text of each bare address. Over a matrix of textual forms of the same addresses
// (IPv4, IPv4-mapped IPv6, expanded / upper-case IPv6, leading zeros, zone, blanks) x peers, this test asserts the
// direction the property needs - a trusted peer IS a configured address (no over-trust) - and logs the
// configurations in which a configured proxy is NOT recognised (under-trust: forwarding headers ignored, which
// the property allows).

import (
	"net"
	"testing"

	"github.com/valyala/fasthttp"
)

func TestFVCObservedC10TextForms(t *testing.T) {
	proxies := []string{
		"10.0.0.1", "::ffff:10.0.0.1", "0:0:0:0:0:ffff:a00:1", "::ffff:a00:1", "010.0.0.1", "10.0.0.01", " 10.0.0.1", "10.0.0.1 ",
		"2001:db8::1", "2001:DB8::1", "2001:0db8:0:0:0:0:0:1", "2001:db8:0:0::1", "[2001:db8::1]", "fe80::1%eth0", "fe80::1",
		"::1", "0:0:0:0:0:0:0:1", "127.0.0.1", "::ffff:127.0.0.1", "0.0.0.0", "::",
	}
	peers := []net.IP{
		net.ParseIP("10.0.0.1"), net.ParseIP("10.0.0.1").To4(), net.ParseIP("::ffff:10.0.0.1"), net.ParseIP("10.0.0.2"), net.ParseIP("8.0.0.1"),
		net.ParseIP("2001:db8::1"), net.ParseIP("2001:db8::2"), net.ParseIP("fe80::1"), net.ParseIP("::1"), net.ParseIP("127.0.0.1"),
		net.ParseIP("127.0.0.1").To4(), net.ParseIP("0.0.0.0"), net.ParseIP("::"), net.ParseIP("::a00:1"),
	}
	under := 0
	for _, p := range proxies {
		app := New(Config{TrustProxy: true, ProxyHeader: HeaderXForwardedFor, TrustProxyConfig: TrustProxyConfig{Proxies: []string{p}}})
		configured := net.ParseIP(p) // what the entry means, if it means anything
		for _, peer := range peers {
			fctx := &fasthttp.RequestCtx{}
			fctx.Request.SetRequestURI("http://real.example/")
			fctx.Request.Header.Set(HeaderXForwardedFor, "9.9.9.9")
			fctx.SetRemoteAddr(&net.TCPAddr{IP: peer, Port: 1})
			c := app.AcquireCtx(fctx)
			trusted, ip := c.IsProxyTrusted(), c.IP()
			app.ReleaseCtx(c)
			same := configured != nil && configured.Equal(peer)
			if trusted && !same {
				t.Errorf("OVER-TRUST: proxy entry %q, peer %v (%d bytes): trusted, but the entry does not denote the peer", p, peer, len(peer))
			}
			if trusted != (ip == "9.9.9.9") {
				t.Errorf("proxy %q peer %v: IsProxyTrusted()=%v but IP()=%q", p, peer, trusted, ip)
			}
			if !trusted && same {
				under++
				t.Logf("under-trust: proxy entry %q denotes peer %v (text %q) but is not recognised", p, peer, peer.String())
			}
		}
	}
	t.Logf("%d (entry, peer) pairs where a configured proxy is not recognised because of its textual form", under)
}
