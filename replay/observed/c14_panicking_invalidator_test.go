// place in: middleware/cache
package cache

import (
	"net/http"
	"net/http/httptest"
	"testing"
	"time"

	"github.com/gofiber/fiber/v3"
	recoverer "github.com/gofiber/fiber/v3/middleware/recover"
)

// C14-b: "no interleaving of concurrent requests makes the middleware panic, deadlock ...": a panic of a
// user callback that runs inside the cache's first critical section (CacheInvalidator; recovered by the
// recover middleware in front) must not leave the cache's lock held: later requests have to be served.
func TestFVCTriageC14b(t *testing.T) {
	app := fiber.New()
	app.Use(recoverer.New())
	app.Use(New(Config{
		Expiration: time.Hour,
		CacheInvalidator: func(c fiber.Ctx) bool {
			if c.Query("boom") != "" {
				panic("invalidator failed")
			}
			return false
		},
	}))
	app.Get("/", func(c fiber.Ctx) error { return c.SendString("ok") })

	status := func(target string) (int, error) {
		resp, err := app.Test(httptest.NewRequest(http.MethodGet, target, nil), fiber.TestConfig{Timeout: 2 * time.Second, FailOnTimeout: true})
		if err != nil {
			return 0, err
		}
		return resp.StatusCode, nil
	}

	// 1. fill the cache (the invalidator only runs for a cached key)
	if got, err := status("/"); err != nil || got != 200 {
		t.Fatalf("first request: %d %v", got, err)
	}
	// 2. same key (the default key is the path), the invalidator panics; recover answers 500
	if got, err := status("/?boom=1"); err != nil || got != 500 {
		t.Fatalf("panicking request: %d %v, want 500 from the recover middleware", got, err)
	}
	// 3. every later request must still be served
	if got, err := status("/"); err != nil || got != 200 {
		t.Errorf("request after the recovered panic: status %d, err %v - the cache's lock is still held", got, err)
	}
}
