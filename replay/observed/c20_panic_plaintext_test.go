// place in: middleware/encryptcookie
package encryptcookie

import (
	"net/http/httptest"
	"strings"
	"testing"

	"github.com/gofiber/fiber/v3"
	recoverer "github.com/gofiber/fiber/v3/middleware/recover"
)

// C20-a: a cookie set by a handler behind the middleware reaches the client only as ciphertext,
// also when the handler panics afterwards and a recover middleware in front turns that into a 500.
func TestFVCTriageC20a(t *testing.T) {
	key := GenerateKey(32)
	const secret = "plaintext-session-id-123"

	app := fiber.New()
	app.Use(recoverer.New())
	app.Use(New(Config{Key: key}))
	app.Get("/ok", func(c fiber.Ctx) error {
		c.Cookie(&fiber.Cookie{Name: "session", Value: secret})
		return nil
	})
	app.Get("/err", func(c fiber.Ctx) error {
		c.Cookie(&fiber.Cookie{Name: "session", Value: secret})
		return fiber.ErrTeapot
	})
	app.Get("/panic", func(c fiber.Ctx) error {
		c.Cookie(&fiber.Cookie{Name: "session", Value: secret})
		panic("boom")
	})

	for _, tc := range []struct {
		path string
		code int
	}{{"/ok", 200}, {"/err", 418}, {"/panic", 500}} {
		resp, err := app.Test(httptest.NewRequest(fiber.MethodGet, tc.path, nil))
		if err != nil {
			t.Fatal(err)
		}
		if resp.StatusCode != tc.code {
			t.Errorf("%s: status %d, want %d", tc.path, resp.StatusCode, tc.code)
		}
		for _, sc := range resp.Header.Values("Set-Cookie") {
			if strings.Contains(sc, secret) {
				t.Errorf("%s: response carries the plaintext cookie: Set-Cookie: %s", tc.path, sc)
				continue
			}
			val := strings.TrimPrefix(strings.Split(sc, ";")[0], "session=")
			if dec, err := DecryptCookie(val, key); err != nil || dec != secret {
				t.Errorf("%s: Set-Cookie %q does not decrypt to the value set (got %q, %v)", tc.path, sc, dec, err)
			}
		}
	}
}
