// place in: middleware/csrf
package csrf

// Scenario behind the obligation csrf.(*sessionManager).delRaw/post:deleted-unless-session-fault (property C16, session
// back end, no session middleware on the route: the session comes from the STORE, Store.Get hands out a copy).
// Handler.DeleteToken (logout) must leave the token dead in the session store: the very same token, presented again
// with the same session, must be rejected. PASSES on the library as it is; FAILS with the seeded change C16-5
// (/verif/seeded/C16-5: the Save after Delete(sessionKey) in sessionManager.delRaw removed), where the deleted
// token stays live in the store and is accepted on replay.

import (
	"strings"
	"testing"

	"github.com/gofiber/fiber/v3"
	"github.com/gofiber/fiber/v3/middleware/session"
	"github.com/valyala/fasthttp"
)

func TestFVCSeedC16DeleteTokenDeadInStore(t *testing.T) {
	store := session.NewStore()
	app := fiber.New()
	app.Use(New(Config{Session: store}))
	app.Get("/", func(c fiber.Ctx) error { return c.SendStatus(fiber.StatusOK) })
	app.Post("/", func(c fiber.Ctx) error { return c.SendStatus(fiber.StatusOK) })
	app.Post("/logout", func(c fiber.Ctx) error {
		if err := HandlerFromContext(c).DeleteToken(c); err != nil {
			return err
		}
		return c.SendStatus(fiber.StatusOK)
	})
	h := app.Handler()

	// issue a token: the response carries the session cookie and the CSRF cookie
	ctx := &fasthttp.RequestCtx{}
	ctx.Request.Header.SetMethod(fiber.MethodGet)
	h(ctx)
	var token, sessionID string
	ctx.Response.Header.VisitAllCookie(func(k, v []byte) {
		val := strings.Split(strings.SplitN(string(v), "=", 2)[1], ";")[0]
		switch string(k) {
		case ConfigDefault.CookieName:
			token = val
		case "session_id":
			sessionID = val
		}
	})
	if token == "" || sessionID == "" {
		t.Fatalf("setup: token %q session %q", token, sessionID)
	}

	post := func(path string) int {
		ctx.Request.Reset()
		ctx.Response.Reset()
		ctx.Request.Header.SetMethod(fiber.MethodPost)
		ctx.Request.SetRequestURI(path)
		ctx.Request.Header.Set(HeaderName, token)
		ctx.Request.Header.SetCookie(ConfigDefault.CookieName, token)
		ctx.Request.Header.SetCookie("session_id", sessionID)
		h(ctx)
		return ctx.Response.StatusCode()
	}

	if got := post("/"); got != fiber.StatusOK {
		t.Fatalf("setup: live token rejected: %d", got)
	}
	if got := post("/logout"); got != fiber.StatusOK {
		t.Fatalf("logout: %d", got)
	}
	// replay of the deleted token with the same session
	if got := post("/"); got != fiber.StatusForbidden {
		t.Fatalf("C16: token deleted by DeleteToken is still accepted (status %d): it is still live in the session store", got)
	}
}
