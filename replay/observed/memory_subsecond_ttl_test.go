// place in: internal/memory
package memory

// Observation for properties C13 / C14 / C16 (NOT a violated contract clause: it is what the checked clauses
// `(*Storage).Set/post:expiry-stored` and `sub-second-ttl-is-expired-at-once` of
// internal/memory/zz_contracts_verif.go say the code does).
//
// Set computes the expiry as uint32(ttl.Seconds()) + utils.Timestamp(): the TTL is cut to whole seconds of a clock
// that ticks once per second, and Get treats expiry <= Timestamp() as expired. A TTL below one second therefore
// gives expiry == now: the entry is never served (Get answers nil immediately), although it is in the map.
// The client-side models of the store (memHas/memVal in limiter, cache, csrf) allow an entry to disappear at any
// Get, so no verified clause of those packages is contradicted; what is contradicted is the informal reading
// "the store honours the TTL it is given" (tools/claims.json, note of C13): with the in-memory store a cache
// Expiration, a CSRF IdleTimeout or any other TTL below one second means "never stored".

import (
	"testing"
	"time"

	"github.com/gofiber/utils/v2"
)

func TestFVCObservedMemorySubSecondTTL(t *testing.T) {
	utils.StartTimeStampUpdater()
	s := New()
	s.Set("k", "v", 900*time.Millisecond)
	if got := s.Get("k"); got != "v" {
		s.RLock()
		it, ok := s.data["k"]
		s.RUnlock()
		t.Fatalf("Set(k, v, 900ms); Get(k) at once = %v, want v (entry in map: %v, expiry %d, clock %d)", got, ok, it.e, utils.Timestamp())
	}
}

// The whole-second case for contrast: a TTL of one second is live when stored.
func TestFVCObservedMemoryWholeSecondTTL(t *testing.T) {
	utils.StartTimeStampUpdater()
	s := New()
	s.Set("k", "v", time.Second)
	if got := s.Get("k"); got != "v" {
		t.Fatalf("Set(k, v, 1s); Get(k) at once = %v, want v", got)
	}
	// ... and a TTL that is not positive never expires (expiry 0), also a negative one.
	s.Set("n", "v", -time.Hour)
	if got := s.Get("n"); got != "v" {
		t.Fatalf("Set(n, v, -1h); Get(n) = %v, want v", got)
	}
}
