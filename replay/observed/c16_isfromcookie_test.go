// place in: middleware/csrf
package csrf

// OBSERVATION (property C16, not a violation): isFromCookie compares the code pointer of the configured extractor with
// the code pointer of the FACTORY FromCookie, not with the closure the factory returns, so it answers false for every
// extractor - FromCookie(name) included. The branch "token came from the cookie extractor: skip the double-submit
// comparison" is dead; the comparison with the CSRF cookie is always made (contract clause
// csrf.isFromCookie/post:never-true-for-an-extractor, handler clause unsafe-token-matches-cookie-whatever-the-extractor).
// Consequence (on the safe side): with Extractor FromCookie(<name>) and a CookieName other than <name>, a live token
// presented only in cookie <name> is rejected (KeyLookup "cookie:<name>" forces CookieName = <name>, where the
// comparison is trivially true).
// This test PASSES on the current code; it fails if isFromCookie ever starts to recognise cookie extractors.

import (
	"net/http/httptest"
	"testing"

	"github.com/gofiber/fiber/v3"
)

func TestFVCObservedC16IsFromCookieNeverTrue(t *testing.T) {
	for name, ex := range map[string]func(fiber.Ctx) (string, error){
		"FromCookie": FromCookie("csrf_"), "FromHeader": FromHeader("X-Csrf-Token"), "FromForm": FromForm("t"),
		"FromQuery": FromQuery("t"), "FromParam": FromParam("t"),
		"configDefault(cookie:csrf_)": configDefault(Config{KeyLookup: "cookie:csrf_"}).Extractor,
	} {
		if isFromCookie(ex) {
			t.Errorf("isFromCookie(%s) = true", name)
		}
	}

	// token extracted from cookie "tok", CSRF cookie is "csrf_": the double-submit comparison is still made
	app := fiber.New()
	app.Use(New(Config{Extractor: FromCookie("tok"), CookieName: "csrf_"}))
	app.All("/", func(c fiber.Ctx) error { return c.SendStatus(fiber.StatusOK) })
	resp, err := app.Test(httptest.NewRequest(fiber.MethodGet, "/", nil))
	if err != nil {
		t.Fatal(err)
	}
	token := ""
	for _, ck := range resp.Cookies() {
		if ck.Name == "csrf_" {
			token = ck.Value
		}
	}
	if token == "" {
		t.Fatal("no token issued")
	}
	req := httptest.NewRequest(fiber.MethodPost, "/", nil)
	req.Header.Set("Cookie", "tok="+token) // live token, presented through the configured extractor only
	resp, err = app.Test(req)
	if err != nil {
		t.Fatal(err)
	}
	if resp.StatusCode != fiber.StatusForbidden {
		t.Errorf("token only in the extractor's cookie: status %d, the comparison with the CSRF cookie was skipped", resp.StatusCode)
	}
	req = httptest.NewRequest(fiber.MethodPost, "/", nil)
	req.Header.Set("Cookie", "tok="+token+"; csrf_="+token)
	resp, err = app.Test(req)
	if err != nil {
		t.Fatal(err)
	}
	if resp.StatusCode != fiber.StatusOK {
		t.Errorf("token in both cookies: status %d", resp.StatusCode)
	}
}
