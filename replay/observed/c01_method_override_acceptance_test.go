// place in: .
package fiber

// Triage replay C01-a. Property C01: "after a handler overrides the path or method (as rewrite and
// method-override middleware do) the rest of the chain is the later-registered routes matching the new path and
// method". c.Method(new) switches the per-method table that next() scans but keeps the scan cursor, which is an
// index into the bucket of the OLD method.
//   part 1 (reported; fails on the unchanged library): Post("/a", next), Use(POST->GET), Get("/a", g): POST /a -> 404
//   part 2 (other direction): an unrelated GET route before a GET->POST override
//   part 3 (guards for any repair; pass on the unchanged library): the same override middleware in an app with a
//           mounted sub-app (processSubAppsRoutes renumbers Route.pos per method stack: all positions of one
//           method's stack lie below those of the next method's), and the middleware must run once only.

import (
	"testing"

	"github.com/valyala/fasthttp"
)

func TestFVCTriageC01a(t *testing.T) {
	serve := func(app *App, method, path string) (int, string) {
		h := app.Handler()
		fctx := &fasthttp.RequestCtx{}
		fctx.Request.Header.SetMethod(method)
		fctx.Request.SetRequestURI(path)
		h(fctx)
		return fctx.Response.StatusCode(), string(fctx.Response.Body())
	}
	override := func(from, to string, runs *int) Handler {
		return func(c Ctx) error {
			*runs++
			if c.Method() == from {
				c.Method(to)
			}
			return c.Next()
		}
	}
	next := func(c Ctx) error { return c.Next() }

	// part 1: POST -> GET, an earlier POST route shifts the cursor
	{
		runs := 0
		app := New()
		app.Post("/a", next)
		app.Use(override(MethodPost, MethodGet, &runs))
		app.Get("/a", func(c Ctx) error { return c.SendString("get") })
		if st, body := serve(app, MethodPost, "/a"); st != StatusOK || body != "get" || runs != 1 {
			t.Errorf("part 1: POST /a overridden to GET behind an earlier POST /a that passes on: got %d %q (override ran %d times), want 200 \"get\" (1)", st, body, runs)
		}
	}
	// part 2: GET -> POST, an earlier GET route shifts the cursor
	{
		runs := 0
		app := New()
		app.Get("/a", next)
		app.Use(override(MethodGet, MethodPost, &runs))
		app.Post("/a", func(c Ctx) error { return c.SendString("post") })
		if st, body := serve(app, MethodGet, "/a"); st != StatusOK || body != "post" || runs != 1 {
			t.Errorf("part 2: GET /a overridden to POST behind an earlier GET /a that passes on: got %d %q (override ran %d times), want 200 \"post\" (1)", st, body, runs)
		}
	}
	// part 3: guards with a mounted sub-app (same number of sub-app routes in both method stacks: works today)
	for _, dir := range [][2]string{{MethodPost, MethodGet}, {MethodGet, MethodPost}} {
		runs := 0
		sub := New()
		sub.Get("/x", func(c Ctx) error { return c.SendString("subget") })
		sub.Post("/x", func(c Ctx) error { return c.SendString("subpost") })
		app := New()
		app.Use("/sub", sub)
		app.Use(override(dir[0], dir[1], &runs))
		app.Add([]string{dir[1]}, "/a", func(c Ctx) error { return c.SendString("target") })
		app.startupProcess()
		if st, body := serve(app, dir[0], "/a"); st != StatusOK || body != "target" || runs != 1 {
			t.Errorf("part 3 (mounted sub-app, %s->%s): got %d %q (override ran %d times), want 200 \"target\" (1)", dir[0], dir[1], st, body, runs)
		}
	}
}
