// place in: middleware/cache
package cache

// OBSERVATION outside the domain of property C14 as proved (the proof assumes a storage whose operations do not
// fail: precondition reliable-storage / stReliable). With the faithful contract of fiber.Storage.Delete (an error
// leaves the value in place) the clause cache.(*manager).del/post:still-coupled and, in the handler, the lock
// invariant every-entry-tracked-by-heap cannot be proved: the handler ignores the error of Storage.Delete.
// History (external storage, MaxBytes > 0): GET /a is cached (heap idx 0). GET /a?inv=1&fail=1: the entry is
// invalidated, deleteKey fails silently (the storage keeps the entry), its heap slot is released, the origin answers
// 500 (not cacheable, nothing re-stored). GET /a?inv=1: the entry is still in the storage, is invalidated again and
// its heap slot is released a second time: index out of range in container/heap (or, if the idx was handed out again
// in the meantime, another key's slot goes and the accounting is off).

import (
	"errors"
	"testing"
	"time"

	"github.com/gofiber/fiber/v3"
	"github.com/valyala/fasthttp"
)

type c14FaultyDeleteStore struct{ m map[string][]byte }

func (s *c14FaultyDeleteStore) Get(key string) ([]byte, error) { return s.m[key], nil }
func (s *c14FaultyDeleteStore) Set(key string, val []byte, _ time.Duration) error {
	s.m[key] = append([]byte(nil), val...)
	return nil
}
func (*c14FaultyDeleteStore) Delete(string) error { return errors.New("connection lost") }
func (*c14FaultyDeleteStore) Reset() error        { return nil }
func (*c14FaultyDeleteStore) Close() error        { return nil }

func TestFVCObservedC14DeleteFault(t *testing.T) {
	app := fiber.New()
	app.Use(New(Config{
		Storage:          &c14FaultyDeleteStore{m: map[string][]byte{}},
		MaxBytes:         100,
		CacheInvalidator: func(c fiber.Ctx) bool { return fiber.Query[bool](c, "inv") },
	}))
	app.Get("/*", func(c fiber.Ctx) error {
		if fiber.Query[bool](c, "fail") {
			return c.SendStatus(fiber.StatusInternalServerError)
		}
		return c.SendString("8 bytes!")
	})
	h := app.Handler()
	do := func(uri string) {
		t.Helper()
		defer func() {
			if p := recover(); p != nil {
				t.Fatalf("GET %s made the cache middleware panic: %v", uri, p)
			}
		}()
		ctx := &fasthttp.RequestCtx{}
		ctx.Request.Header.SetMethod(fiber.MethodGet)
		ctx.Request.SetRequestURI(uri)
		h(ctx)
	}
	do("/a")
	do("/a?inv=1&fail=1")
	do("/a?inv=1")
}
