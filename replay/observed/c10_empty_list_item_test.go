// place in: .
package fiber

// Trusted side of property C10 ("a peer inside the proxy set gets the documented forwarded values"; IP() with
// EnableIPValidation is documented to "return the first valid IP address" of the proxy header): an EMPTY list item
// in the header hides the address behind it. extractIPFromHeader starts scanning for the next comma one byte behind
// the start of an item, so the comma that closes an empty item becomes the first byte of the next item
// (",2.2.2.2"), which then fails validation; extractIPsFromHeader skips that comma, extractIPFromHeader does not.
// IP() answers the proxy's own address although IPs() lists a valid client address.
// No contract clause states "first valid" (utils.IsIPv4/IsIPv6 are uninterpreted), so this is reported as an
// observation with a failing input, not as a failing obligation.

import (
	"net"
	"testing"

	"github.com/valyala/fasthttp"
)

func TestFVCObservedC10EmptyListItem(t *testing.T) {
	app := New(Config{
		TrustProxy:         true,
		ProxyHeader:        HeaderXForwardedFor,
		EnableIPValidation: true,
		TrustProxyConfig:   TrustProxyConfig{Proxies: []string{"10.0.0.1"}},
	})
	for _, tc := range []struct{ header, want string }{
		{",1.1.1.1", "1.1.1.1"},
		{"unknown,,2.2.2.2", "2.2.2.2"},
		{"unknown, ,2.2.2.2", "2.2.2.2"}, // passes today: the blank is skipped
	} {
		fctx := &fasthttp.RequestCtx{}
		fctx.Request.SetRequestURI("http://real.example/")
		fctx.Request.Header.Set(HeaderXForwardedFor, tc.header)
		fctx.SetRemoteAddr(&net.TCPAddr{IP: net.ParseIP("10.0.0.1"), Port: 1}) // the trusted proxy
		c := app.AcquireCtx(fctx)
		ip, ips := c.IP(), c.IPs()
		app.ReleaseCtx(c)
		if len(ips) == 0 || ips[0] != tc.want {
			t.Errorf("X-Forwarded-For %q: IPs() = %q, want first element %q", tc.header, ips, tc.want)
		}
		if ip != tc.want {
			t.Errorf("X-Forwarded-For %q: IP() = %q, but the first valid address of the header (and IPs()[0]) is %q", tc.header, ip, tc.want)
		}
	}
}
