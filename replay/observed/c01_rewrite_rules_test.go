// place in: middleware/rewrite
package rewrite

// OBSERVATIONS on what the rewrite middleware computes (property C01 only says what happens AFTER the path was
// overridden; the contracts of New / captureTokens / New$1 state exactly what is computed). Both PASS on the current
// code (they record the behaviour).
//  1. A rule is anchored at the END of the path only: "pattern" is compiled to pattern' + "$" (New/post:every-rule-compiled,
//     ruleExpr) and searched with FindAllStringSubmatch, so the rule "/old" -> "/new" also rewrites "/x/old" (to "/new").
//  2. "$<n>" is substituted with strings.Replacer semantics (old strings are compared in argument order): with ten or
//     more wildcards "$10" is never replaced by the tenth capture - "$1" matches first - so "$10" yields the first
//     capture followed by "0". The documentation promises "$1, $2 and so on".

import (
	"io"
	"net/http/httptest"
	"testing"

	"github.com/gofiber/fiber/v3"
)

func TestFVCObservedC01RewriteRules(t *testing.T) {
	path := func(rules map[string]string, target string) string {
		app := fiber.New()
		app.Use(New(Config{Rules: rules}))
		app.Use(func(c fiber.Ctx) error { return c.SendString(c.Path()) })
		resp, err := app.Test(httptest.NewRequest(fiber.MethodGet, target, nil))
		if err != nil {
			t.Fatal(err)
		}
		b, err := io.ReadAll(resp.Body)
		if err != nil {
			t.Fatal(err)
		}
		return string(b)
	}
	if got := path(map[string]string{"/old": "/new"}, "/x/old"); got != "/new" {
		t.Errorf("rule /old -> /new on /x/old: path %q (rules are now anchored at the start: update the contract of New)", got)
	}
	if got := path(map[string]string{"/*/*/*/*/*/*/*/*/*/*": "/t/$10/$1"}, "/a/b/c/d/e/f/g/h/i/j"); got != "/t/a0/a" {
		t.Errorf("$10 with ten wildcards: path %q (expected /t/a0/a on the current code, /t/j/a if $10 means the tenth capture)", got)
	}
}
