// place in: .
package fiber

import (
	"net"
	"testing"

	"github.com/valyala/fasthttp"
)

// C10-a: a trusted peer that sends an EMPTY X-Forwarded-Proto header: the scheme stays a scheme
// (http for a plain connection) and the base URL stays well-formed.
func TestFVCTriageC10a(t *testing.T) {
	app := New(Config{TrustProxy: true, TrustProxyConfig: TrustProxyConfig{Proxies: []string{"10.0.0.1"}}})

	fctx := &fasthttp.RequestCtx{}
	fctx.Init(&fasthttp.Request{}, &net.TCPAddr{IP: net.ParseIP("10.0.0.1"), Port: 1234}, nil)
	fctx.Request.Header.SetHost("example.com")
	fctx.Request.Header.Set(HeaderXForwardedProto, "")
	c := app.AcquireCtx(fctx)
	defer app.ReleaseCtx(c)

	if !c.IsProxyTrusted() {
		t.Fatal("set-up: peer should be trusted")
	}
	if got := c.Scheme(); got != "http" {
		t.Errorf("Scheme() = %q, want http", got)
	}
	if got := c.BaseURL(); got != "http://example.com" {
		t.Errorf("BaseURL() = %q, want http://example.com", got)
	}
	if c.Secure() != (c.Scheme() == "https") {
		t.Errorf("Secure() = %v with Scheme() = %q", c.Secure(), c.Scheme())
	}
}
