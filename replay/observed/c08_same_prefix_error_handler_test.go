// place in: .
package fiber

import (
	"errors"
	"io"
	"net/http/httptest"
	"testing"
)

// C08-c: two sub-apps mounted at the same prefix, only the first with an error handler: an error of
// a request under the prefix goes to the handler of a mounted sub-app that configured one.
func TestFVCTriageC08c(t *testing.T) {
	root := New(Config{ErrorHandler: func(c Ctx, _ error) error { return c.Status(500).SendString("root") }})
	first := New(Config{ErrorHandler: func(c Ctx, _ error) error { return c.Status(500).SendString("first") }})
	first.Get("/a", func(Ctx) error { return errors.New("boom") })
	second := New()
	second.Get("/b", func(Ctx) error { return errors.New("boom") })
	root.Use("/api", first)
	root.Use("/api", second)

	resp, err := root.Test(httptest.NewRequest(MethodGet, "/api/a", nil))
	if err != nil {
		t.Fatal(err)
	}
	body, _ := io.ReadAll(resp.Body)
	if string(body) != "first" {
		t.Errorf("error of first's route /api/a was handled by %q, want first", body)
	}
}
