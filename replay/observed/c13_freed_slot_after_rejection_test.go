// place in: middleware/limiter
package limiter

// OBSERVATION about property C13 with Skip* options (not one of the two defects fixed by fd0e10e / 64d9488, and in the
// conservative direction: the limiter rejects more than it must, it never admits more than Max).
// The limiter counts a REJECTED request as a hit too (currHits++ happens before the budget test) and never takes
// that hit back. Without Skip* options this is invisible: a request is rejected only when Max requests are counted
// (lemma fixed-rejected-only-when-budget-used-up). With SkipFailedRequests / SkipSuccessfulRequests a slot that an
// un-count frees AFTER a rejection is not handed out again in that window: the counter is Max+1 at the rejection,
// Max after the un-count, and the next request sees Max+1 again - although only Max-1 requests are counted.
// This is why the counting theorem with Skip* options is proved as an upper bound only (fwInvSkip, lemmas
// fixed-with-skip-*), and not the clause "no request is rejected while the budget is not exhausted".
//
// Schedule (fixed window, Max 2, SkipFailedRequests, one key, all inside one window):
//   A admitted (hits 1), its handler blocks;  B admitted, 200 (hits 2);  C rejected, 429 (hits 3);
//   A answers 400 and is un-counted (hits 2);  D: hits 3 > 2, rejected - but only B is counted against the budget of 2.

import (
	"net/http"
	"net/http/httptest"
	"testing"
	"time"

	"github.com/gofiber/fiber/v3"
)

func TestFVCObservedC13FreedSlotAfterRejection(t *testing.T) {
	release := make(chan struct{})
	started := make(chan struct{})

	app := fiber.New()
	app.Use(New(Config{
		Max:                2,
		Expiration:         time.Minute,
		SkipFailedRequests: true,
		LimiterMiddleware:  FixedWindow{},
		KeyGenerator:       func(fiber.Ctx) string { return "k" },
	}))
	app.Get("/slow-fail", func(c fiber.Ctx) error {
		close(started)
		<-release
		return c.SendStatus(fiber.StatusBadRequest)
	})
	app.Get("/ok", func(c fiber.Ctx) error { return c.SendStatus(fiber.StatusOK) })

	do := func(path string) int {
		resp, err := app.Test(httptest.NewRequest(http.MethodGet, path, nil), fiber.TestConfig{Timeout: 0})
		if err != nil {
			t.Error(err)
			return 0
		}
		return resp.StatusCode
	}

	aDone := make(chan int, 1)
	go func() { aDone <- do("/slow-fail") }()
	<-started

	if got := do("/ok"); got != fiber.StatusOK {
		t.Fatalf("B: status %d, want 200", got)
	}
	if got := do("/ok"); got != fiber.StatusTooManyRequests {
		t.Fatalf("C: status %d, want 429 (A and B use the budget of 2)", got)
	}
	close(release)
	if got := <-aDone; got != fiber.StatusBadRequest {
		t.Fatalf("A: status %d, want 400", got)
	}
	// A failed and is skipped: one request (B) is counted against Max 2
	if got := do("/ok"); got != fiber.StatusOK {
		t.Fatalf("D: status %d, want 200: A was un-counted, only B is counted against Max 2 (the hit of the rejected request C stays counted)", got)
	}
}
