package fiber

// Replay of the failing safety obligations of the pattern parser (property C03, kernel part: index/slice bounds of the
// hand-written parsers): fiber.(*routeParser).parseRoute/pre:(*routeParser).analyseConstantPart:has-literal-byte and
// fiber.(*routeParser).analyseParameterPart/safety:bounds:strslice#6, #10, #11.
// A malformed pattern must be refused with a message (register panics deliberately for a missing handler or an
// invalid method), not make the parser index out of range:
//   "/:a\"        a dangling escape character leaves an empty literal, addParameterMetaInfo reads Const[-1]
//   "/:a>b<c"     '>' before '<': pattern[start+1:end] with end < start+1
//   "/:a<x)y(>"   ')' before '(' inside a constraint: c[start+1:end] with end < start+1 (splitNonEscaped argument)
//   "/:a<regex)y(>"  the same slice expression on the regex branch

import (
	"runtime"
	"testing"
)

func TestFVCKnownC03MalformedPatternPanics(t *testing.T) {
	for _, pattern := range []string{"/:a\\", "/:a>b<c", "/:a<x)y(>", "/:a<regex)y(>"} {
		func() {
			defer func() {
				if r := recover(); r != nil {
					if re, ok := r.(runtime.Error); ok {
						t.Errorf("Get(%q): the pattern parser fails with a run-time error: %v", pattern, re)
					}
				}
			}()
			New().Get(pattern, func(c Ctx) error { return nil })
		}()
	}
}
