// place in: middleware/encryptcookie
package encryptcookie

// OBSERVATION, property C20 (examined because the claim left "binding of a ciphertext to its cookie name" and
// "duplicate cookie names" undecided). Not a violation of the statement as written - see the end of this comment.
//
// 1. SWAP. The ciphertext is base64(nonce ++ AES-GCM(key, nonce, value)) with no additional data: nothing of the cookie
//    NAME goes into it (Encryptor/Decryptor do not even receive the name). A ciphertext the server issued for cookie A
//    is therefore accepted as the value of any other non-excepted cookie B: a client that may choose the content of one
//    cookie (here "nick") can present it as another one (here "role"). Same for an OLD value of the same cookie (replay)
//    and for cookies of another application that uses the same key.
//    What the code guarantees (contract clause New$1$1/post:value-depends-only-on-presented-ciphertext-not-on-name):
//    the handler reads, for every non-excepted name, plain(K, v) if v is ANY box issued under K, "" otherwise.
// (Duplicate cookie names: see replay_1_test.go / fix_1.diff - a genuine finding.)
//
// C20's statement demands rejection of values "not issued by the server under the current key"; a swapped value WAS
// issued under the current key, and an honest client's cookie still "reaches the next handler with its original value".
// So the statement holds; what does not hold is the stronger reading suggested by its title ("handlers see authentic
// plaintext"): authenticity is of the value, not of the (name, value) pair.
// This test PASSES on the current code (it records the behaviour).

import (
	"net/http/httptest"
	"testing"

	"github.com/gofiber/fiber/v3"
)

func TestFVCObservedC20CiphertextNotBoundToName(t *testing.T) {
	key := GenerateKey(32)
	app := fiber.New()
	app.Use(New(Config{Key: key}))
	app.Get("/login", func(c fiber.Ctx) error {
		c.Cookie(&fiber.Cookie{Name: "role", Value: "user"})
		c.Cookie(&fiber.Cookie{Name: "nick", Value: c.Query("nick")}) // chosen by the client
		return nil
	})
	var role, nick string
	app.Get("/whoami", func(c fiber.Ctx) error {
		role, nick = c.Cookies("role"), c.Cookies("nick")
		return nil
	})

	resp, err := app.Test(httptest.NewRequest(fiber.MethodGet, "/login?nick=admin", nil))
	if err != nil {
		t.Fatal(err)
	}
	enc := map[string]string{}
	for _, ck := range resp.Cookies() {
		enc[ck.Name] = ck.Value
	}
	if enc["role"] == "" || enc["nick"] == "" || enc["role"] == "user" || enc["nick"] == "admin" {
		t.Fatalf("cookies not encrypted: %v", enc)
	}

	// honest client
	req := httptest.NewRequest(fiber.MethodGet, "/whoami", nil)
	req.Header.Set("Cookie", "role="+enc["role"]+"; nick="+enc["nick"])
	if _, err := app.Test(req); err != nil {
		t.Fatal(err)
	}
	if role != "user" || nick != "admin" {
		t.Fatalf("round trip: role=%q nick=%q", role, nick)
	}

	// 1. swap: the ciphertext issued for "nick" presented as "role"
	req = httptest.NewRequest(fiber.MethodGet, "/whoami", nil)
	req.Header.Set("Cookie", "role="+enc["nick"])
	if _, err := app.Test(req); err != nil {
		t.Fatal(err)
	}
	t.Logf("ciphertext of nick presented as role: handler reads role=%q", role)
	if role != "admin" {
		t.Errorf("the ciphertext is now bound to its cookie name: role=%q (update the C20 claim)", role)
	}
}
