// place in: middleware/csrf
package csrf

import (
	"strings"
	"sync"
	"sync/atomic"
	"testing"
	"time"

	"github.com/gofiber/fiber/v3"
	"github.com/valyala/fasthttp"
)

// barrierStorage is an in-memory fiber.Storage whose Get, once armed, waits until two Gets are in
// flight (or a timeout passes, so that an implementation that serialises lookup+consumption does
// not deadlock). That makes the interleaving get,get,del,del deterministic.
type barrierStorage struct {
	mu    sync.Mutex
	data  map[string][]byte
	armed atomic.Bool
	gets  atomic.Int32
	both  chan struct{}
	once  sync.Once
}

func (s *barrierStorage) Get(key string) ([]byte, error) {
	s.mu.Lock()
	v := s.data[key]
	s.mu.Unlock()
	if s.armed.Load() {
		if s.gets.Add(1) == 2 {
			s.once.Do(func() { close(s.both) })
		}
		select {
		case <-s.both:
		case <-time.After(500 * time.Millisecond):
		}
	}
	return v, nil
}

func (s *barrierStorage) Set(key string, val []byte, _ time.Duration) error {
	s.mu.Lock()
	s.data[key] = val
	s.mu.Unlock()
	return nil
}

func (s *barrierStorage) Delete(key string) error {
	s.mu.Lock()
	delete(s.data, key)
	s.mu.Unlock()
	return nil
}
func (*barrierStorage) Reset() error { return nil }
func (*barrierStorage) Close() error { return nil }

// C16-b: with SingleUseToken a token may carry at most one unsafe request to the handler,
// also when two requests present it at the same time.
func TestFVCTriageC16b(t *testing.T) {
	st := &barrierStorage{data: map[string][]byte{}, both: make(chan struct{})}
	var ran atomic.Int32
	app := fiber.New()
	app.Use(New(Config{SingleUseToken: true, Storage: st}))
	app.Post("/", func(c fiber.Ctx) error {
		ran.Add(1)
		return c.SendStatus(fiber.StatusOK)
	})
	h := app.Handler()

	ctx := &fasthttp.RequestCtx{}
	ctx.Request.Header.SetMethod(fiber.MethodGet)
	h(ctx)
	token := string(ctx.Response.Header.Peek(fiber.HeaderSetCookie))
	token = strings.Split(strings.Split(token, ";")[0], "=")[1]
	if token == "" {
		t.Fatal("no token issued")
	}

	st.armed.Store(true)
	var wg sync.WaitGroup
	codes := make([]int, 2)
	for i := range codes {
		wg.Add(1)
		go func() {
			defer wg.Done()
			rc := &fasthttp.RequestCtx{}
			rc.Request.Header.SetMethod(fiber.MethodPost)
			rc.Request.Header.Set(HeaderName, token)
			rc.Request.Header.SetCookie(ConfigDefault.CookieName, token)
			h(rc)
			codes[i] = rc.Response.StatusCode()
		}()
	}
	wg.Wait()
	if n := ran.Load(); n != 1 {
		t.Fatalf("single-use token carried %d unsafe requests to the handler (statuses %v), want 1", n, codes)
	}
}
