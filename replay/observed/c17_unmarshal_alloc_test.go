// place in: middleware/idempotency
package idempotency

// OBSERVATION (outside property C17: the bytes handed to (*response).UnmarshalMsg come from the middleware's own store,
// not from the request): the generated decoder allocates by the counts the input ANNOUNCES, before reading any
// element - make([]string, n) for a header's value list (array32 header, n up to 2^32-1) and make(map, n) for the
// header map (map32 header). A stored value of 12 bytes makes it allocate 16 bytes per announced string
// (n = 2^24: 256 MiB; n = 2^32-1: 64 GiB, i.e. the process dies with "out of memory"). The contract therefore states
// `allocbound 4294967295`, not `allocbound len(bts)` (obligation (*response).UnmarshalMsg/alloc:proportional-to-input
// fails). Relevant when the store is shared with other writers or can be corrupted.
// This test PASSES on the current code (it records the behaviour).

import (
	"runtime"
	"testing"
)

func TestFVCObservedC17UnmarshalAllocatesByAnnouncedCount(t *testing.T) {
	const n = 1 << 24
	// {"hs": {"x": array32 of n strings, no element follows
	in := []byte{0x83, 0xa2, 'h', 's', 0x81, 0xa1, 'x', 0xdd, byte(n >> 24), byte(n >> 16 & 0xff), byte(n >> 8 & 0xff), byte(n & 0xff)}
	var before, after runtime.MemStats
	runtime.ReadMemStats(&before)
	var res response
	_, err := res.UnmarshalMsg(in)
	runtime.ReadMemStats(&after)
	if err == nil {
		t.Fatal("truncated input accepted")
	}
	got := after.TotalAlloc - before.TotalAlloc
	t.Logf("input %d bytes, allocated %d bytes (%d per input byte), error: %v", len(in), got, got/uint64(len(in)), err)
	if got < n*16 {
		t.Errorf("allocation is now bounded: %d bytes for an announced list of %d strings", got, n)
	}

	// the header map is made with the announced entry count as size hint
	const m = 1 << 20
	in = []byte{0x83, 0xa2, 'h', 's', 0xdf, byte(m >> 24), byte(m >> 16 & 0xff), byte(m >> 8 & 0xff), byte(m & 0xff)}
	runtime.ReadMemStats(&before)
	var res2 response
	_, err = res2.UnmarshalMsg(in)
	runtime.ReadMemStats(&after)
	if err == nil {
		t.Fatal("truncated input accepted")
	}
	got = after.TotalAlloc - before.TotalAlloc
	t.Logf("input %d bytes, allocated %d bytes for the header map, error: %v", len(in), got, err)
	if got < m*16 {
		t.Errorf("map allocation is now bounded: %d bytes for an announced count of %d", got, m)
	}
}
