// place in: .
package fiber

// Replay for property C03: "Params returns exactly those values ... percent-decoding applies only with UnescapePath".
// With UnescapePath the path was decoded with fasthttp.AppendUnquotedArg, the decoder for QUERY arguments, which also
// turns '+' into a blank: a path value "a+b" (no percent-encoding in it) was reported as "a b", and RoutePatternMatch
// decoded the same way.

import (
	"testing"

	"github.com/valyala/fasthttp"
)

func TestFVCReplayC03PlusInPath(t *testing.T) {
	app := New(Config{UnescapePath: true})
	var got string
	app.Get("/v/:v", func(c Ctx) error { got = c.Params("v"); return nil })
	for _, tc := range []struct{ path, want string }{
		{"/v/a+b", "a+b"},
		{"/v/a%2Bb", "a+b"},
		{"/v/a%20b", "a b"},
		{"/v/100%", "100%"},
		{"/v/%zz", "%zz"},
	} {
		got = "<not run>"
		fctx := &fasthttp.RequestCtx{}
		fctx.Request.Header.SetMethod(MethodGet)
		fctx.Request.SetRequestURI(tc.path)
		app.Handler()(fctx)
		if got != tc.want {
			t.Errorf("GET %s: Params(\"v\") = %q, want %q", tc.path, got, tc.want)
		}
	}
	if !RoutePatternMatch("/lit/a+b", "/lit/a+b", Config{UnescapePath: true}) {
		t.Errorf("RoutePatternMatch(\"/lit/a+b\", \"/lit/a+b\") with UnescapePath = false: the '+' of the path was decoded to a blank")
	}
}
