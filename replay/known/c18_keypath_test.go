package client

import (
	"testing"

	"github.com/valyala/fasthttp"
)

// C18 / parseCookiesFromResp$1: post one-entry-per-key-and-path.
// The stored cookie is searched by the REQUEST path, not by the cookie's own Path attribute: a cookie with
// Path=/ that is refreshed by a response to /account is not found and stored a second time, so the jar
// returns the cookie twice - once with the stale value.
func TestFVCKnownC18KeyPath(t *testing.T) {
	jar := &CookieJar{}
	c := &fasthttp.Cookie{}
	c.SetKey("token")
	c.SetPath("/")
	resp := fasthttp.AcquireResponse()
	for _, v := range []string{"old", "new"} {
		c.SetValue(v)
		resp.Header.SetCookie(c)
		jar.parseCookiesFromResp([]byte("example.com"), []byte("/account"), resp)
	}
	u := fasthttp.AcquireURI()
	if err := u.Parse(nil, []byte("http://example.com/account")); err != nil {
		t.Fatal(err)
	}
	got := jar.Get(u)
	if len(got) != 1 {
		t.Errorf("cookie token (Path=/) refreshed by a second response is returned %d times, want once", len(got))
	}
	for _, g := range got {
		if string(g.Value()) != "new" {
			t.Errorf("stale value %q of cookie token is returned, want \"new\"", g.Value())
		}
	}
}
