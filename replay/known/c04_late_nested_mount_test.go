// place in: .
package fiber

import (
	"errors"
	"io"
	"net/http/httptest"
	"testing"
)

// C08 / C04, finding late-mount-once-spent (nested mount): a sub-app mounted INTO an already mounted application after the
// root was started. The root's start-up steps are spent (sync.Once) and nothing tells the root about the new mount:
//   C08: the root's prefix -> app list is never completed (appendSubAppLists does not run again), so App.ErrorHandler
//        does not consider the new sub-app: errors under its prefix go to the outer handler, not the innermost one;
//   C04: the sub-app's routes are never spliced into the root (404), a Group registered at the same moment is served.
// The same mount made BEFORE the first start is handled (seed C08-4's demo; appendSubAppLists completes the list).
func TestFVCKnownC08LateNestedMount(t *testing.T) {
	get := func(app *App, target string) (int, string) {
		t.Helper()
		resp, err := app.Test(httptest.NewRequest(MethodGet, target, nil))
		if err != nil {
			t.Fatal(err)
		}
		body, err := io.ReadAll(resp.Body)
		if err != nil {
			t.Fatal(err)
		}
		return resp.StatusCode, string(body)
	}
	hello := func(c Ctx) error { return c.SendString("hello " + c.Route().Path) }

	root := New(Config{ErrorHandler: func(c Ctx, _ error) error { return c.Status(StatusTeapot).SendString("root") }})
	api := New()
	api.Get("/ping", hello)
	root.Use("/api", api)
	if code, body := get(root, "/api/ping"); code != StatusOK || body != "hello /api/ping" { // first start of the root
		t.Fatalf("first start: %d %q", code, body)
	}
	v1 := New(Config{ErrorHandler: func(c Ctx, _ error) error { return c.Status(StatusConflict).SendString("v1") }})
	v1.Get("/hello", hello)
	v1.Get("/fail", func(Ctx) error { return errors.New("boom") })
	api.Use("/v1", v1) // mounted into the mounted application, after the root was started

	// C08: the framework's own 404 under /api/v1 belongs to v1's handler (innermost configured handler whose prefix
	// contains the path), whatever the routing does with the request
	if code, body := get(root, "/api/v1/missing"); code != StatusConflict || body != "v1" {
		t.Errorf("C08: GET /api/v1/missing: got %d %q, want 409 \"v1\"", code, body)
	}
	// C04: the twin registers the same routes through groups at the same moments
	twin := New()
	g := twin.Group("/api")
	g.Get("/ping", hello)
	get(twin, "/api/ping")
	g.Group("/v1").Get("/hello", hello)
	codeA, bodyA := get(root, "/api/v1/hello")
	codeB, bodyB := get(twin, "/api/v1/hello")
	if codeA != codeB || bodyA != bodyB {
		t.Errorf("C04: GET /api/v1/hello: mounted after the start %d %q, group registered after the start %d %q", codeA, bodyA, codeB, bodyB)
	}
}
