package fiber

import (
	"fmt"
	"testing"

	"github.com/valyala/fasthttp"
)

// C04 / (*App).mount: joined-prefixes-distinct (requires of the C08 contract) / (*App).processSubAppsRoutes:
// markers-of-sub-app-already-spliced. Two sub-applications mounted under the same prefix (the twin: two groups
// with the same prefix) share one key of mountFields.appList: the second replaces the first. If the first has a
// mount of its own it is no longer reachable from the list, its own splice never runs, its mount marker is cloned
// into the parent (copyRoute drops Route.group) and start-up dereferences the nil group.
func TestFVCKnownC04SamePrefixMounts(t *testing.T) {
	h := func(name string) Handler { return func(c Ctx) error { return c.SendString(name) } }
	observe := func(build func() *App, path string) (res string) {
		defer func() {
			if r := recover(); r != nil {
				res = fmt.Sprintf("panic: %v", r)
			}
		}()
		var fctx fasthttp.RequestCtx
		fctx.Request.Header.SetMethod(MethodGet)
		fctx.Request.SetRequestURI(path)
		build().Handler()(&fctx)
		return fmt.Sprintf("%d %s", fctx.Response.StatusCode(), fctx.Response.Body())
	}
	mounted := func() *App {
		leaf := New()
		leaf.Get("/x", h("leaf"))
		s1 := New()
		s1.Use("/b", leaf)
		s2 := New()
		s2.Get("/y", h("s2"))
		app := New()
		app.Use("/a", s1)
		app.Use("/a", s2)
		return app
	}
	twin := func() *App {
		app := New()
		app.Group("/a").Group("/b").Get("/x", h("leaf"))
		app.Group("/a").Get("/y", h("s2"))
		return app
	}
	for _, path := range []string{"/a/b/x", "/a/y"} {
		if m, g := observe(mounted, path), observe(twin, path); m != g {
			t.Errorf("GET %s: two mounts under \"/a\" answer %q, two groups \"/a\" answer %q", path, m, g)
		}
	}
}
