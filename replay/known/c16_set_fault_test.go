package csrf

// Replay of the counterexample to csrf.(*storageManager).setRaw/post:stored (property C16): a safe request
// leaves a valid token cookie (and if the token store fails the request is rejected).
// Counterexample: Storage.Set returns an error (allowed by the assumed Storage contract; nothing is stored).
// setRaw discards the error: the GET is answered 200 with a CSRF cookie whose token was never stored, so the
// token the client was given is refused on the following POST.

import (
	"errors"
	"strings"
	"sync"
	"testing"
	"time"

	"github.com/gofiber/fiber/v3"
	"github.com/valyala/fasthttp"
)

type c16SetFaultStore struct {
	mu      sync.Mutex
	m       map[string][]byte
	failSet bool
}

func (s *c16SetFaultStore) Get(key string) ([]byte, error) {
	s.mu.Lock()
	defer s.mu.Unlock()
	return s.m[key], nil
}

func (s *c16SetFaultStore) Set(key string, val []byte, _ time.Duration) error {
	s.mu.Lock()
	defer s.mu.Unlock()
	if s.failSet {
		return errors.New("storage: connection lost")
	}
	s.m[key] = val
	return nil
}

func (s *c16SetFaultStore) Delete(key string) error {
	s.mu.Lock()
	defer s.mu.Unlock()
	delete(s.m, key)
	return nil
}
func (*c16SetFaultStore) Reset() error { return nil }
func (*c16SetFaultStore) Close() error { return nil }

func TestFVCKnownC16SetFault(t *testing.T) {
	store := &c16SetFaultStore{m: map[string][]byte{}}
	app := fiber.New()
	app.Use(New(Config{Storage: store}))
	app.All("/", func(c fiber.Ctx) error { return c.SendStatus(fiber.StatusOK) })
	h := app.Handler()

	store.failSet = true // the store fails while the token is being issued
	ctx := &fasthttp.RequestCtx{}
	ctx.Request.Header.SetMethod(fiber.MethodGet)
	h(ctx)
	getStatus := ctx.Response.StatusCode()
	cookie := string(ctx.Response.Header.Peek(fiber.HeaderSetCookie))
	store.failSet = false

	if getStatus != fiber.StatusOK || !strings.HasPrefix(cookie, ConfigDefault.CookieName+"=") {
		return // the request was rejected or no token was handed out: nothing invalid was left behind
	}
	token := strings.Split(strings.Split(cookie, ";")[0], "=")[1]

	ctx.Request.Reset()
	ctx.Response.Reset()
	ctx.Request.Header.SetMethod(fiber.MethodPost)
	ctx.Request.Header.Set(HeaderName, token)
	ctx.Request.Header.SetCookie(ConfigDefault.CookieName, token)
	h(ctx)
	if st := ctx.Response.StatusCode(); st != fiber.StatusOK {
		t.Fatalf("GET was answered %d with CSRF cookie token %q although Storage.Set failed; that token is not valid: "+
			"the POST presenting it gets %d", getStatus, token, st)
	}
}
