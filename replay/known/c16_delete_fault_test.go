package csrf

// Replay of the counterexample to csrf.(*storageManager).delRaw/post:deleted (property C16): a single-use
// token is consumed by the request that uses it, and if the token store fails the request is rejected.
// Counterexample: Storage.Delete returns an error (the assumed Storage contract allows that; the store is
// then unchanged). delRaw discards the error, the request is let through, and the token stays live: the same
// single-use token passes a second time.

import (
	"errors"
	"strings"
	"sync"
	"testing"
	"time"

	"github.com/gofiber/fiber/v3"
	"github.com/valyala/fasthttp"
)

type c16DelFaultStore struct {
	mu         sync.Mutex
	m          map[string][]byte
	failDelete bool
}

func (s *c16DelFaultStore) Get(key string) ([]byte, error) {
	s.mu.Lock()
	defer s.mu.Unlock()
	return s.m[key], nil
}

func (s *c16DelFaultStore) Set(key string, val []byte, _ time.Duration) error {
	s.mu.Lock()
	defer s.mu.Unlock()
	s.m[key] = val
	return nil
}

func (s *c16DelFaultStore) Delete(key string) error {
	s.mu.Lock()
	defer s.mu.Unlock()
	if s.failDelete {
		return errors.New("storage: connection lost")
	}
	delete(s.m, key)
	return nil
}
func (*c16DelFaultStore) Reset() error { return nil }
func (*c16DelFaultStore) Close() error { return nil }

func TestFVCKnownC16DeleteFault(t *testing.T) {
	store := &c16DelFaultStore{m: map[string][]byte{}}
	app := fiber.New()
	app.Use(New(Config{Storage: store, SingleUseToken: true}))
	app.All("/", func(c fiber.Ctx) error { return c.SendStatus(fiber.StatusOK) })
	h := app.Handler()

	ctx := &fasthttp.RequestCtx{}
	ctx.Request.Header.SetMethod(fiber.MethodGet)
	h(ctx)
	token := string(ctx.Response.Header.Peek(fiber.HeaderSetCookie))
	token = strings.Split(strings.Split(token, ";")[0], "=")[1]

	post := func() int {
		ctx.Request.Reset()
		ctx.Response.Reset()
		ctx.Request.Header.SetMethod(fiber.MethodPost)
		ctx.Request.Header.Set(HeaderName, token)
		ctx.Request.Header.SetCookie(ConfigDefault.CookieName, token)
		h(ctx)
		return ctx.Response.StatusCode()
	}

	store.failDelete = true // the store fails while the token is being consumed
	first := post()
	store.failDelete = false
	second := post() // replay of the same single-use token

	if first == fiber.StatusOK && second == fiber.StatusOK {
		t.Fatalf("single-use token accepted twice (statuses %d, %d): the failed Storage.Delete was ignored, "+
			"the first request was not rejected and the token was not consumed", first, second)
	}
}
