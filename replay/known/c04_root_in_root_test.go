package fiber

import (
	"fmt"
	"testing"

	"github.com/valyala/fasthttp"
)

// C04 / (*App).mount: joined-prefixes-distinct. A sub-application mounted at "/" that itself mounts a
// sub-application at "/": both get the key "/" in the root's mountFields.appList (getGroupPath("/", "") and
// getGroupPath("/", "/")), and which of the two survives depends on the iteration order of the map. When the inner
// one survives, the middle application's splice never runs and start-up dereferences the nil group of its cloned
// mount marker. 64 fresh constructions: the property demands the twin's answer every time.
func TestFVCKnownC04RootInRoot(t *testing.T) {
	h := func(c Ctx) error { return c.SendString("leaf") }
	observe := func(build func() *App) (res string) {
		defer func() {
			if r := recover(); r != nil {
				res = fmt.Sprintf("panic: %v", r)
			}
		}()
		var fctx fasthttp.RequestCtx
		fctx.Request.Header.SetMethod(MethodGet)
		fctx.Request.SetRequestURI("/x")
		build().Handler()(&fctx)
		return fmt.Sprintf("%d %s", fctx.Response.StatusCode(), fctx.Response.Body())
	}
	mounted := func() *App {
		leaf := New()
		leaf.Get("/x", h)
		mid := New()
		mid.Use("/", leaf)
		app := New()
		app.Use("/", mid)
		return app
	}
	twin := func() *App {
		app := New()
		app.Group("/").Group("/").Get("/x", h)
		return app
	}
	want := observe(twin)
	bad := 0
	first := ""
	for i := 0; i < 64; i++ {
		if got := observe(mounted); got != want {
			bad++
			if first == "" {
				first = got
			}
		}
	}
	if bad > 0 {
		t.Errorf("GET /x: mount \"/\" inside mount \"/\" answered %q in %d of 64 constructions, Group(\"/\").Group(\"/\") answers %q", first, bad, want)
	}
}
