// place in: client
package client

import (
	"testing"

	"github.com/gofiber/fiber/v3"
	"github.com/valyala/fasthttp"
)

// C18-e: a cookie set by the response of b.example (reached through a redirect from a.example) must be
// filed under b.example; it must never be returned for / sent to a.example.
func TestFVCTriageC18e(t *testing.T) {
	app, dial, start := createHelperServer(t)
	app.Get("/start", func(c fiber.Ctx) error {
		return c.Redirect().Status(fiber.StatusFound).To("http://b.example/land")
	})
	app.Get("/land", func(c fiber.Ctx) error {
		c.Cookie(&fiber.Cookie{Name: "sid", Value: "issued-by-" + c.Hostname(), Path: "/"})
		return c.SendString("landed on " + c.Hostname())
	})
	app.Get("/echo", func(c fiber.Ctx) error {
		return c.SendString(c.Hostname() + " sid=" + c.Cookies("sid"))
	})
	go start()

	jar := AcquireCookieJar()
	defer ReleaseCookieJar(jar)
	cl := New().SetDial(dial).SetCookieJar(jar)

	resp, err := cl.R().SetMaxRedirects(1).Get("http://a.example/start")
	if err != nil {
		t.Fatal(err)
	}
	if got := resp.String(); got != "landed on b.example" {
		t.Fatalf("redirect not followed: %q", got)
	}
	resp.Close()

	get := func(u string) []string {
		uri := fasthttp.AcquireURI()
		defer fasthttp.ReleaseURI(uri)
		if err := uri.Parse(nil, []byte(u)); err != nil {
			t.Fatal(err)
		}
		var out []string
		for _, ck := range jar.Get(uri) {
			out = append(out, string(ck.Key())+"="+string(ck.Value()))
		}
		return out
	}

	if got := get("http://a.example/"); len(got) != 0 {
		t.Errorf("jar returns for a.example a cookie that b.example set: %v", got)
	}
	if got := get("http://b.example/"); len(got) != 1 || got[0] != "sid=issued-by-b.example" {
		t.Errorf("jar for b.example: %v, want [sid=issued-by-b.example]", got)
	}

	resp, err = cl.R().Get("http://a.example/echo")
	if err != nil {
		t.Fatal(err)
	}
	if got := resp.String(); got != "a.example sid=" {
		t.Errorf("cookie of b.example sent to a.example: server saw %q", got)
	}
	resp.Close()

	resp, err = cl.R().Get("http://b.example/echo")
	if err != nil {
		t.Fatal(err)
	}
	if got := resp.String(); got != "b.example sid=issued-by-b.example" {
		t.Errorf("cookie of b.example not sent back to b.example: server saw %q", got)
	}
	resp.Close()
}
