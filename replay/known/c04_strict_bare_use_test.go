package fiber

import (
	"fmt"
	"testing"

	"github.com/valyala/fasthttp"
)

// C04 / (*App).addPrefixToRoute: path-is-prefix-joined with an EMPTY registered path / bounded stand-in finding
// strict-bare-use. With Config.StrictRouting, middleware that the sub-application registered without a path
// (sub.Use(mw): registered path "/") is spliced as "/api/" and no longer covers the mount prefix "/api" itself;
// the same middleware registered through Group("/api").Use(mw) is registered as "/api" and does.
func TestFVCKnownC04StrictBareUse(t *testing.T) {
	build := func(mounted bool) fasthttp.RequestHandler {
		mw := func(c Ctx) error { c.Set("X-Mw", "ran"); return c.Next() }
		app := New(Config{StrictRouting: true})
		if mounted {
			sub := New(Config{StrictRouting: true})
			sub.Use(mw)
			app.Use("/api", sub)
		} else {
			app.Group("/api").Use(mw)
		}
		app.Get("/api", func(c Ctx) error { return c.SendString("root handler") })
		return app.Handler()
	}
	observe := func(h fasthttp.RequestHandler, path string) string {
		var fctx fasthttp.RequestCtx
		fctx.Request.Header.SetMethod(MethodGet)
		fctx.Request.SetRequestURI(path)
		h(&fctx)
		return fmt.Sprintf("%d %s mw=%q", fctx.Response.StatusCode(), fctx.Response.Body(), fctx.Response.Header.Peek("X-Mw"))
	}
	mounted, twin := build(true), build(false)
	for _, path := range []string{"/api", "/api/"} {
		if m, g := observe(mounted, path), observe(twin, path); m != g {
			t.Errorf("StrictRouting, GET %s: sub-app with Use(mw) mounted under \"/api\" answers %q, Group(\"/api\").Use(mw) answers %q", path, m, g)
		}
	}
}
