// place in: .
package fiber

// Replay for property C05 (no obligation: the state is one app-wide field written by crypto/tls's handshake callback,
// outside any function the generator models a history for).
// Property: "Everything a handler can observe through the context ... depend only on the current request ... never on
// which requests were served earlier or concurrently by the same pooled context, connection or worker."
// TLSHandler.GetClientInfo stores the ClientHello of the latest handshake in ONE field of the app's TLS handler and
// c.ClientHelloInfo() returns that field: a request on connection 1 that is handled after connection 2's handshake
// observes connection 2's ClientHello (server name, cipher list). The write is also unsynchronised.

import (
	"bufio"
	"crypto/tls"
	"net"
	"net/http"
	"testing"
	"time"
)

func TestFVCReplayC05ClientHelloAppWide(t *testing.T) {
	cert, err := tls.LoadX509KeyPair("./.github/testdata/ssl.pem", "./.github/testdata/ssl.key")
	if err != nil {
		t.Fatal(err)
	}
	app := New()
	h := &TLSHandler{}
	app.SetTLSHandler(h)
	app.Get("/", func(c Ctx) error {
		if chi := c.ClientHelloInfo(); chi != nil {
			return c.SendString(chi.ServerName)
		}
		return c.SendString("<nil>")
	})
	// the configuration app.Listen builds (listen.go): the handler's callback is installed as GetCertificate
	ln, err := tls.Listen("tcp", "127.0.0.1:0", &tls.Config{ //nolint:gosec // test
		Certificates:   []tls.Certificate{cert},
		GetCertificate: h.GetClientInfo,
	})
	if err != nil {
		t.Fatal(err)
	}
	go func() { _ = app.Listener(ln, ListenConfig{DisableStartupMessage: true}) }() //nolint:errcheck // test
	defer func() { _ = app.Shutdown() }()                                            //nolint:errcheck // test
	time.Sleep(200 * time.Millisecond)

	dial := func(sni string) (net.Conn, *bufio.Reader) {
		c, err := tls.Dial("tcp", ln.Addr().String(), &tls.Config{ServerName: sni, InsecureSkipVerify: true}) //nolint:gosec // test
		if err != nil {
			t.Fatal(err)
		}
		return c, bufio.NewReader(c)
	}
	get := func(c net.Conn, r *bufio.Reader) string {
		if _, err := c.Write([]byte("GET / HTTP/1.1\r\nHost: x\r\n\r\n")); err != nil {
			t.Fatal(err)
		}
		resp, err := http.ReadResponse(r, nil)
		if err != nil {
			t.Fatal(err)
		}
		defer resp.Body.Close() //nolint:errcheck // test
		b := make([]byte, 64)
		n, _ := resp.Body.Read(b) //nolint:errcheck // test
		return string(b[:n])
	}
	c1, r1 := dial("one.example")
	defer c1.Close() //nolint:errcheck // test
	if got := get(c1, r1); got != "one.example" {
		t.Fatalf("reference: first request of connection 1 saw %q", got)
	}
	c2, r2 := dial("two.example")
	defer c2.Close() //nolint:errcheck // test
	if got := get(c2, r2); got != "two.example" {
		t.Fatalf("reference: first request of connection 2 saw %q", got)
	}
	if got := get(c1, r1); got != "one.example" {
		t.Errorf("second request on connection 1 (ClientHello server name one.example) observed ClientHelloInfo().ServerName = %q: the handshake of another connection", got)
	}
}
