// place in: .
package fiber

// Replay for property C01 (no obligation: found by analysis next to replay_1; the registration position `pos` is
// not comparable across method stacks, so the cursor clause of Path cannot simply be repeated for Method).
// Property: "whether a route handles a path never depends on which other routes exist, and after a handler
// overrides the path or method (as rewrite and method-override middleware do) the rest of the chain is the
// later-registered routes matching the new path and method".
// c.Method(new) switches c.methodInt, i.e. the per-method table that next() scans, but keeps the scan cursor
// c.indexRoute, which is an index into the bucket of the OLD method. An unrelated POST route registered before a
// method-override middleware shifts the cursor by one and the GET endpoint registered after the middleware is
// skipped.

import (
	"testing"

	"github.com/valyala/fasthttp"
)

func TestFVCReplayC01MethodOverrideScanPosition(t *testing.T) {
	serve := func(app *App, method, path string) (int, string) {
		h := app.Handler()
		fctx := &fasthttp.RequestCtx{}
		fctx.Request.Header.SetMethod(method)
		fctx.Request.SetRequestURI(path)
		h(fctx)
		return fctx.Response.StatusCode(), string(fctx.Response.Body())
	}
	postAsGet := func(c Ctx) error {
		if c.Method() == MethodPost {
			c.Method(MethodGet)
		}
		return c.Next()
	}
	build := func(withUnrelatedPost bool) *App {
		app := New()
		if withUnrelatedPost {
			app.Post("/a", func(c Ctx) error { return c.Next() })
		}
		app.Use(postAsGet)
		app.Get("/a", func(c Ctx) error { return c.SendString("get") })
		return app
	}
	if st, body := serve(build(false), MethodPost, "/a"); st != StatusOK || body != "get" {
		t.Fatalf("reference: POST /a overridden to GET: %d %q, want 200 \"get\"", st, body)
	}
	if st, body := serve(build(true), MethodPost, "/a"); st != StatusOK || body != "get" {
		t.Errorf("POST /a overridden to GET with an earlier POST /a route that passes on: got %d %q, want 200 \"get\" (the GET endpoint registered after the override middleware)", st, body)
	}
}
