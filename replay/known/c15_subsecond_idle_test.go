package session

// Observation for property C15 (not decided by a contract clause: fiber.Storage honouring its TTL is an
// assumption of the session contracts, fiber_storage.spec). The default store of the session package,
// internal/storage/memory, computes expiry as uint32(exp.Seconds()) + utils.Timestamp() and treats
// expiry <= Timestamp() as expired: a TTL below one second becomes "expires now", and any TTL is cut to
// whole seconds of a clock that ticks once per second (an entry can expire up to about 1 s + fraction early).
// With IdleTimeout = 900ms a saved session is gone immediately.

import (
	"testing"
	"time"

	"github.com/gofiber/fiber/v3"
	"github.com/valyala/fasthttp"
)

func TestFVCKnownC15SubSecondIdle(t *testing.T) {
	store := NewStore(Config{IdleTimeout: 900 * time.Millisecond})
	app := fiber.New()
	ctx := app.AcquireCtx(&fasthttp.RequestCtx{})
	sess, err := store.Get(ctx)
	if err != nil {
		t.Fatal(err)
	}
	sess.Set("k", "v")
	id := sess.ID()
	if err := sess.Save(); err != nil {
		t.Fatal(err)
	}
	sess.Release()
	app.ReleaseCtx(ctx)

	time.Sleep(50 * time.Millisecond) // far below the idle timeout
	got, err := store.GetByID(id)
	if err != nil || got == nil {
		t.Fatalf("C15 violated: 50ms after Save, with IdleTimeout=900ms, the session is gone: err=%v", err)
	}
	if got.Get("k") != "v" {
		t.Fatalf("C15 violated: saved data not seen: %v", got.Get("k"))
	}
}
