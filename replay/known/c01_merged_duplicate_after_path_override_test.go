// place in: .
package fiber

// Replay for property C01 (observation of a fifth-generation seed-writing agent, confirmed by this test).
// Property: "whether a route handles a path never depends on which other routes exist, and after a handler overrides the
// path ... the rest of the chain is the later-registered routes matching the new path and method".
// register() merges a route whose method and path equal those of the route registered just before it into that route
// (its handlers are appended). When the first handler overrides the path, Next() runs the merged second handler although
// its route "/a" does not match the new path "/b"; with an unrelated route registered in between (no merge) it is skipped.

import (
	"strings"
	"testing"

	"github.com/valyala/fasthttp"
)

func TestFVCReplayC01MergedDuplicateRunsAfterPathOverride(t *testing.T) {
	run := func(separate bool) string {
		var trace []string
		app := New()
		app.Get("/a", func(c Ctx) error { trace = append(trace, "a1"); c.Path("/b"); return c.Next() })
		if separate {
			app.Get("/unrelated", func(c Ctx) error { return c.Next() })
		}
		app.Get("/a", func(c Ctx) error { trace = append(trace, "a2"); return c.Next() })
		app.Get("/b", func(c Ctx) error { trace = append(trace, "b"); return nil })
		fctx := &fasthttp.RequestCtx{}
		fctx.Request.Header.SetMethod(MethodGet)
		fctx.Request.SetRequestURI("/a")
		app.Handler()(fctx)
		return strings.Join(trace, ",")
	}
	if got := run(true); got != "a1,b" {
		t.Fatalf("reference (no merge): chain %q, want a1,b", got)
	}
	if got := run(false); got != "a1,b" {
		t.Errorf("GET /a with Get(/a, a1: Path(/b)), Get(/a, a2), Get(/b, b): chain %q, want a1,b (a2's route /a does not match the new path /b)", got)
	}
}
