package fiber

// Replay of the bounded stand-in TestFVCBoundedC03Patterns (property C03), finding star-trailing-slash:
// the pattern "/*/" ('*' delimited by the literal "/") filled with "a" gives the path "/a/": the route must
// match and Params("*") must return exactly "a". Without StrictRouting the pattern is cut to "/*" at registration,
// which makes it the star route whose value is the whole rest of the RAW path: "a/".
// (With StrictRouting the same route reports "a".)

import (
	"testing"

	"github.com/valyala/fasthttp"
)

func TestFVCKnownC03StarTrailingSlash(t *testing.T) {
	get := func(cfg Config, path string) (int, string) {
		app := New(cfg)
		app.Get("/*/", func(c Ctx) error { return c.SendString(c.Params("*")) })
		h := app.Handler()
		fctx := &fasthttp.RequestCtx{}
		fctx.Request.Header.SetMethod(MethodGet)
		fctx.Request.SetRequestURI(path)
		h(fctx)
		return fctx.Response.StatusCode(), string(fctx.Response.Body())
	}
	if st, v := get(Config{StrictRouting: true}, "/a/"); st != StatusOK || v != "a" {
		t.Fatalf("setup: StrictRouting Get(\"/*/\") + GET /a/: %d %q", st, v)
	}
	if st, v := get(Config{}, "/a/"); st != StatusOK || v != "a" {
		t.Errorf("Get(\"/*/\") + GET /a/: got %d Params(\"*\") == %q, want 200 \"a\" (the value that was put in)", st, v)
	}
}
