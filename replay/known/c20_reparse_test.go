package encryptcookie

// Known finding, property C20, obligation encryptcookie.New$1$2/post:ciphertext-opens-to-handler-value:
// the response-side visitor does not encrypt the value the handler set but the value it gets by
// re-parsing the serialised Set-Cookie line (Response().Header.Cookie -> Cookie.ParseBytes). fasthttp's
// parser trims spaces, strips one pair of enclosing double quotes and cuts at ';', so for such values
// the ciphertext handed to the client opens to a different text and the next handler does not get the
// original value back (e.g. " lead" comes back as "lead", "\"q\"" as "q", "a;b" as "a").

import (
	"net/http/httptest"
	"testing"

	"github.com/gofiber/fiber/v3"
)

func TestFVCKnownC20Reparse(t *testing.T) {
	key := GenerateKey(32)
	for _, v := range []string{"plain", "", " lead", "trail ", "\"q\"", "a;b"} {
		app := fiber.New()
		app.Use(New(Config{Key: key}))
		got, seen := "", false
		app.Get("/set", func(c fiber.Ctx) error {
			c.Cookie(&fiber.Cookie{Name: "n", Value: v})
			return nil
		})
		app.Get("/get", func(c fiber.Ctx) error {
			got, seen = c.Cookies("n"), true
			return nil
		})
		resp, err := app.Test(httptest.NewRequest(fiber.MethodGet, "/set", nil))
		if err != nil {
			t.Fatal(err)
		}
		enc := ""
		for _, ck := range resp.Cookies() {
			if ck.Name == "n" {
				enc = ck.Value
			}
		}
		// the client must only see ciphertext that opens to the handler's value under the key
		if dec, err := DecryptCookie(enc, key); err != nil || dec != v {
			t.Errorf("handler set %q: the client's cookie %q opens to %q (err %v)", v, enc, dec, err)
		}
		req := httptest.NewRequest(fiber.MethodGet, "/get", nil)
		req.Header.Set("Cookie", "n="+enc)
		if _, err := app.Test(req); err != nil {
			t.Fatal(err)
		}
		if !seen || got != v {
			t.Errorf("handler set %q: sent back, the next handler read %q", v, got)
		}
	}
}
