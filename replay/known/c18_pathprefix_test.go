package client

import (
	"testing"

	"github.com/valyala/fasthttp"
)

// C18 / getByHostAndPath: taken-path-is-prefix-of-request-path, matching-taken.
// The jar tests HasPrefix(cookiePath, requestPath) instead of HasPrefix(requestPath, cookiePath):
// a cookie for /shop is withheld from /shop/cart, a cookie for /shop/cart/admin is sent to /shop/cart.
func TestFVCKnownC18PathPrefix(t *testing.T) {
	jar := &CookieJar{}
	host := fasthttp.AcquireURI()
	if err := host.Parse(nil, []byte("http://example.com/shop/cart")); err != nil {
		t.Fatal(err)
	}
	mk := func(k, path string) *fasthttp.Cookie {
		c := &fasthttp.Cookie{}
		c.SetKey(k)
		c.SetValue("v")
		c.SetPath(path)
		return c
	}
	jar.Set(host, mk("parent", "/shop"), mk("deeper", "/shop/cart/admin"), mk("exact", "/shop/cart"))

	got := map[string]bool{}
	for _, c := range jar.Get(host) { // request path /shop/cart
		got[string(c.Key())] = true
	}
	if !got["exact"] {
		t.Errorf("cookie with path /shop/cart not returned for /shop/cart")
	}
	if !got["parent"] {
		t.Errorf("cookie with path /shop (a prefix of the request path /shop/cart) is not returned")
	}
	if got["deeper"] {
		t.Errorf("cookie with path /shop/cart/admin (not a prefix of the request path /shop/cart) is returned")
	}
}
