package fiber

// Known finding for property C12 (obligation
// fiber.(*Redirect).processFlashMessages/atcall:(*DefaultCtx).Cookie:value-is-cookie-safe):
// "Messages ... are delivered, for all keys and values [and levels], over a real HTTP exchange".
// The cookie value is the raw MessagePack encoding. It contains bytes that are not cookie-octets
// (RFC 6265 4.1.1): with the DEFAULT level 0 the encoding contains a NUL byte, and the server's own
// request parser (fasthttp) rejects the request of a client that faithfully replays the Set-Cookie value;
// Go's net/http client refuses to parse the redirect response in the first place.
// (';' in a key or value truncates the cookie, CR/LF splits the header line.)
// Not repairable without changing the wire format, which redirect_test.go pins.

import (
	"io"
	"net/http/httptest"
	"strings"
	"testing"
)

func TestFVCKnownC12CookieUnsafe(t *testing.T) {
	app := New()
	app.Get("/redirect", func(c Ctx) error {
		return c.Redirect().With("note", "saved").To("/") // default level 0
	})
	app.Get("/", func(c Ctx) error {
		return c.SendString(c.Redirect().Message("note").Value)
	})

	resp, err := app.Test(httptest.NewRequest(MethodGet, "/redirect", nil))
	if err != nil {
		// net/http's response parser already refuses the Set-Cookie line (NUL byte in a header value)
		t.Fatalf("C12 violated: With(\"note\",\"saved\") (level 0): a standards-conforming client cannot even parse the redirect response: %v", err)
	}
	setCookie := resp.Header.Get("Set-Cookie")
	if !strings.HasPrefix(setCookie, "fiber_flash=") {
		t.Fatalf("no flash cookie issued: %q", setCookie)
	}
	value, _, _ := strings.Cut(strings.TrimPrefix(setCookie, "fiber_flash="), "; ")

	req := httptest.NewRequest(MethodGet, "/", nil)
	req.Header.Set("Cookie", "fiber_flash="+value)
	resp, err = app.Test(req)
	if err != nil {
		t.Fatalf("C12 violated: replaying the issued cookie %q breaks the exchange: %v", value, err)
	}
	body, _ := io.ReadAll(resp.Body)
	if resp.StatusCode != StatusOK || string(body) != "saved" {
		t.Fatalf("C12 violated: With(\"note\",\"saved\") (level 0) is not delivered: replaying the issued cookie %q gives status %d body %q", value, resp.StatusCode, body)
	}
}
