// place in: client
package client

// Replay for property C18 (observation of a fifth-generation seed-writing agent, confirmed by this test).
// Property: "Every ... path parameter ... configured on a client or request arrives at the server with that value".
// replacePathParams substitutes the request-level parameters into the URL with strings.ReplaceAll and then runs the
// client-level parameters over the ALREADY SUBSTITUTED text: a request-level value that contains ":<client key>" is
// substituted a second time and the configured value does not arrive.

import (
	"testing"

	"github.com/gofiber/fiber/v3"
)

func TestFVCReplayC18PathParamValueSubstitutedAgain(t *testing.T) {
	server := startTestServer(t, func(app *fiber.App) {
		app.Get("/u/:x", func(c fiber.Ctx) error { return c.SendString(c.Params("x")) })
	})
	defer server.stop()
	cl := New().SetDial(server.dial())
	cl.SetPathParam("id", "CLIENT")
	resp, err := cl.R().SetPathParam("name", ":id").Get("http://h.test/u/:name")
	if err != nil {
		t.Fatal(err)
	}
	defer resp.Close()
	if got := resp.String(); got != ":id" {
		t.Errorf("request-level path parameter name=\":id\" (client-level id=\"CLIENT\"), URL /u/:name: the server saw %q, want \":id\"", got)
	}
}
