package fiber

// Replay of the bounded stand-in TestFVCBoundedC03Patterns (property C03), finding trimmed-literal-search:
// pattern "/*/ab/:x/a:y" (every parameter delimited by a literal starting with '/' or by the end), values
// * = "-", x = "-", y = "B": the path "/-/ab/-/aB" contains the literal "/ab/" that follows '*' exactly once
// (no additional occurrence), so the route must match and Params must return the values. Observed (default
// configuration, case-insensitive): 404. Cause: the end of '*' is searched with the following literal cut of its
// trailing slash ("/ab", addParameterMetaInfo/ComparePart); the folded path "/-/ab/-/ab" contains "/ab" twice while
// the pattern's literals account for one occurrence (PartCount), and the right-to-left search (findGreedyParamLen)
// cuts at the wrong one.

import (
	"testing"

	"github.com/valyala/fasthttp"
)

func TestFVCKnownC03TrimmedLiteralSearch(t *testing.T) {
	get := func(cfg Config, path string) (int, string) {
		app := New(cfg)
		app.Get("/*/ab/:x/a:y", func(c Ctx) error {
			return c.SendString(c.Params("*") + "|" + c.Params("x") + "|" + c.Params("y"))
		})
		h := app.Handler()
		fctx := &fasthttp.RequestCtx{}
		fctx.Request.Header.SetMethod(MethodGet)
		fctx.Request.SetRequestURI(path)
		h(fctx)
		return fctx.Response.StatusCode(), string(fctx.Response.Body())
	}
	if st, v := get(Config{CaseSensitive: true}, "/-/ab/-/aB"); st != StatusOK || v != "-|-|B" {
		t.Fatalf("setup: CaseSensitive GET /-/ab/-/aB: %d %q", st, v)
	}
	if st, v := get(Config{}, "/-/ab/-/aB"); st != StatusOK || v != "-|-|B" {
		t.Errorf("Get(\"/*/ab/:x/a:y\") + GET /-/ab/-/aB: got %d %q, want 200 \"-|-|B\"", st, v)
	}
}
