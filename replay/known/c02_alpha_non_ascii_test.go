// place in: .
package fiber

// Replay for fiber.(*Constraint).CheckConstraint/post:alpha-as-documented (property C02): docs/guide/routing.md
// documents the constraint alpha as "String must consist of one or more alphabetical characters, a-z and
// case-insensitive"; the implementation asks unicode.IsLetter for every rune, so values outside a-z/A-Z
// ("é", "ß", "中") satisfy :name<alpha> and reach the handler.

import (
	"net/http/httptest"
	"testing"
)

func TestFVCReplayC02AlphaNonASCII(t *testing.T) {
	for _, v := range []string{"é", "straße", "中"} {
		if (&Constraint{ID: alphaConstraint}).CheckConstraint(v) {
			t.Errorf("alpha constraint holds for %q, documented as a-z (case-insensitive) only", v)
		}
		if RoutePatternMatch("/name/"+v, "/name/:n<alpha>") {
			t.Errorf("RoutePatternMatch(/name/%s, /name/:n<alpha>) is true", v)
		}
	}
	app := New(Config{UnescapePath: true})
	app.Get("/name/:n<alpha>", func(c Ctx) error { return c.SendString(c.Params("n")) })
	resp, err := app.Test(httptest.NewRequest("GET", "/name/%C3%A9", nil))
	if err != nil {
		t.Fatal(err)
	}
	if resp.StatusCode != StatusNotFound {
		t.Errorf("GET /name/%%C3%%A9 on /name/:n<alpha> with UnescapePath: status %d, want 404 (value \"é\" is not a-z)", resp.StatusCode)
	}
	// values the documentation lists keep matching
	if !(&Constraint{ID: alphaConstraint}).CheckConstraint("Rick") {
		t.Errorf("alpha constraint rejects %q", "Rick")
	}
}
