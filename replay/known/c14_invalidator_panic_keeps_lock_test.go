// place in: middleware/cache
package cache

// Replay for property C14 (observation of a fifth-generation seed-writing agent, confirmed by this test).
// Property: "no interleaving of concurrent requests makes the middleware panic, deadlock or corrupt its accounting".
// The first critical section of the handler takes the mutex without a deferred unlock and calls the user callback
// Config.CacheInvalidator inside it. When that callback panics and a recover middleware in front turns the panic into a
// 500, the mutex stays locked: every later request through this cache instance blocks for good. (The contract of
// Config.CacheInvalidator in the verified model is "returns normally" - panics of callbacks are outside the model.)

import (
	"net/http/httptest"
	"testing"
	"time"

	"github.com/gofiber/fiber/v3"
	recoverer "github.com/gofiber/fiber/v3/middleware/recover"
)

func TestFVCReplayC14PanickingInvalidatorKeepsTheLock(t *testing.T) {
	app := fiber.New()
	app.Use(recoverer.New())
	app.Use(New(Config{CacheInvalidator: func(c fiber.Ctx) bool {
		if c.Query("boom") != "" {
			panic("boom")
		}
		return false
	}, KeyGenerator: func(fiber.Ctx) string { return "k" }}))
	app.Get("/", func(c fiber.Ctx) error { return c.SendString("ok") })
	get := func(target string) (int, error) {
		resp, err := app.Test(httptest.NewRequest(fiber.MethodGet, target, nil), fiber.TestConfig{Timeout: 2 * time.Second, FailOnTimeout: true})
		if err != nil {
			return 0, err
		}
		return resp.StatusCode, nil
	}
	if st, err := get("/"); err != nil || st != 200 {
		t.Fatalf("first request: %d %v", st, err)
	}
	if st, err := get("/?boom=1"); err != nil || st != 500 {
		t.Fatalf("request whose invalidator panics (recovered): %d %v, want 500", st, err)
	}
	if st, err := get("/"); err != nil || st != 200 {
		t.Errorf("request after a recovered panic of CacheInvalidator: status %d err %v - the cache mutex is still held, want 200", st, err)
	}
}
