// place in: client
package client

// Replay for property C18 (observation of a fifth-generation seed-writing agent, confirmed by this test).
// Property: the cookie jar returns "exactly the unexpired cookies ... never ... one the server expired".
// A server expires a cookie with `Max-Age=0` (RFC 6265 5.2.2: Max-Age has precedence over Expires). The jar only looks
// at Expire(): the stored cookie stays and an empty-valued twin is added; both are returned for the URL.

import (
	"testing"

	"github.com/gofiber/fiber/v3"
	"github.com/valyala/fasthttp"
)

func TestFVCReplayC18MaxAgeZeroExpiresTheCookie(t *testing.T) {
	server := startTestServer(t, func(app *fiber.App) {
		app.Get("/maxage0", func(c fiber.Ctx) error {
			c.Set("Set-Cookie", "sid=; Max-Age=0; Path=/")
			return c.SendString("ok")
		})
	})
	defer server.stop()
	uri := func(s string) *fasthttp.URI {
		u := fasthttp.AcquireURI()
		if err := u.Parse(nil, []byte(s)); err != nil {
			t.Fatal(err)
		}
		return u
	}
	jar := &CookieJar{}
	cl := New().SetDial(server.dial()).SetCookieJar(jar)
	ck := fasthttp.AcquireCookie()
	ck.SetKey("sid")
	ck.SetValue("s1")
	ck.SetPath("/")
	jar.Set(uri("http://h.test/"), ck)
	resp, err := cl.Get("http://h.test/maxage0")
	if err != nil {
		t.Fatal(err)
	}
	resp.Close()
	for _, c := range jar.Get(uri("http://h.test/")) {
		if string(c.Key()) == "sid" {
			t.Errorf("after Set-Cookie: sid=; Max-Age=0; Path=/ the jar still returns sid=%q for http://h.test/", c.Value())
		}
	}
}
