package csrf

// Replay of the counterexample to csrf.createOrExtendTokenInStorage/post:live-afterwards (property C16,
// session back end): a safe request leaves a valid token cookie (and if the token store fails the request is
// rejected).
// Counterexample: the session store cannot save (its Storage.Set fails) while the token is being issued.
// sessionManager.setRaw only logs the error: the GET is answered 200 with a CSRF cookie whose token is in no
// session, so the token the client was given is refused on the following POST.

import (
	"errors"
	"strings"
	"sync"
	"testing"
	"time"

	"github.com/gofiber/fiber/v3"
	"github.com/gofiber/fiber/v3/middleware/session"
	"github.com/valyala/fasthttp"
)

type c16SessFaultStoreS struct {
	mu      sync.Mutex
	m       map[string][]byte
	failSet bool
}

func (s *c16SessFaultStoreS) Get(key string) ([]byte, error) {
	s.mu.Lock()
	defer s.mu.Unlock()
	return s.m[key], nil
}

func (s *c16SessFaultStoreS) Set(key string, val []byte, _ time.Duration) error {
	s.mu.Lock()
	defer s.mu.Unlock()
	if s.failSet {
		return errors.New("storage: connection lost")
	}
	s.m[key] = append([]byte(nil), val...)
	return nil
}

func (s *c16SessFaultStoreS) Delete(key string) error {
	s.mu.Lock()
	defer s.mu.Unlock()
	delete(s.m, key)
	return nil
}
func (*c16SessFaultStoreS) Reset() error { return nil }
func (*c16SessFaultStoreS) Close() error { return nil }

func TestFVCKnownC16SessionSetFault(t *testing.T) {
	backing := &c16SessFaultStoreS{m: map[string][]byte{}}
	store := session.NewStore(session.Config{Storage: backing})
	app := fiber.New()
	app.Use(New(Config{Session: store}))
	app.All("/", func(c fiber.Ctx) error { return c.SendStatus(fiber.StatusOK) })
	h := app.Handler()

	backing.failSet = true // the session store fails while the token is being issued
	ctx := &fasthttp.RequestCtx{}
	ctx.Request.Header.SetMethod(fiber.MethodGet)
	h(ctx)
	getStatus := ctx.Response.StatusCode()
	var token, sessionID string
	ctx.Response.Header.VisitAllCookie(func(k, v []byte) {
		val := strings.Split(strings.SplitN(string(v), "=", 2)[1], ";")[0]
		switch string(k) {
		case ConfigDefault.CookieName:
			token = val
		case "session_id":
			sessionID = val
		}
	})
	backing.failSet = false

	if getStatus != fiber.StatusOK || token == "" {
		return // the request was rejected or no token was handed out: nothing invalid was left behind
	}

	ctx.Request.Reset()
	ctx.Response.Reset()
	ctx.Request.Header.SetMethod(fiber.MethodPost)
	ctx.Request.Header.Set(HeaderName, token)
	ctx.Request.Header.SetCookie(ConfigDefault.CookieName, token)
	if sessionID != "" {
		ctx.Request.Header.SetCookie("session_id", sessionID)
	}
	h(ctx)
	if st := ctx.Response.StatusCode(); st != fiber.StatusOK {
		t.Fatalf("GET was answered %d with CSRF cookie token %q although the session could not be saved; that token "+
			"is not valid: the POST presenting it (session %q) gets %d", getStatus, token, sessionID, st)
	}
}
