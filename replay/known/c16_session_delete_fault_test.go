package csrf

// Replay of the counterexample to csrf.deleteTokenFromStorage/post:dead-afterwards (property C16, session
// back end): a single-use token is consumed by the request that uses it, and if the token store fails the
// request is rejected.
// Counterexample: the session store cannot save (its Storage.Set fails) while the token is being consumed.
// sessionManager.delRaw only logs the error; the request is let through and the session keeps the token, so
// the same single-use token passes a second time.

import (
	"errors"
	"strings"
	"sync"
	"testing"
	"time"

	"github.com/gofiber/fiber/v3"
	"github.com/gofiber/fiber/v3/middleware/session"
	"github.com/valyala/fasthttp"
)

type c16SessFaultStoreD struct {
	mu      sync.Mutex
	m       map[string][]byte
	failSet bool
}

func (s *c16SessFaultStoreD) Get(key string) ([]byte, error) {
	s.mu.Lock()
	defer s.mu.Unlock()
	return s.m[key], nil
}

func (s *c16SessFaultStoreD) Set(key string, val []byte, _ time.Duration) error {
	s.mu.Lock()
	defer s.mu.Unlock()
	if s.failSet {
		return errors.New("storage: connection lost")
	}
	s.m[key] = append([]byte(nil), val...)
	return nil
}

func (s *c16SessFaultStoreD) Delete(key string) error {
	s.mu.Lock()
	defer s.mu.Unlock()
	delete(s.m, key)
	return nil
}
func (*c16SessFaultStoreD) Reset() error { return nil }
func (*c16SessFaultStoreD) Close() error { return nil }

func TestFVCKnownC16SessionDeleteFault(t *testing.T) {
	backing := &c16SessFaultStoreD{m: map[string][]byte{}}
	store := session.NewStore(session.Config{Storage: backing})
	app := fiber.New()
	app.Use(New(Config{Session: store, SingleUseToken: true}))
	app.All("/", func(c fiber.Ctx) error { return c.SendStatus(fiber.StatusOK) })
	h := app.Handler()

	// issue a token: the response carries the session cookie and the CSRF cookie
	ctx := &fasthttp.RequestCtx{}
	ctx.Request.Header.SetMethod(fiber.MethodGet)
	h(ctx)
	var token, sessionID string
	ctx.Response.Header.VisitAllCookie(func(k, v []byte) {
		val := strings.Split(strings.SplitN(string(v), "=", 2)[1], ";")[0]
		switch string(k) {
		case ConfigDefault.CookieName:
			token = val
		case "session_id":
			sessionID = val
		}
	})
	if token == "" || sessionID == "" {
		t.Fatalf("setup: token %q session %q", token, sessionID)
	}

	post := func() int {
		ctx.Request.Reset()
		ctx.Response.Reset()
		ctx.Request.Header.SetMethod(fiber.MethodPost)
		ctx.Request.Header.Set(HeaderName, token)
		ctx.Request.Header.SetCookie(ConfigDefault.CookieName, token)
		ctx.Request.Header.SetCookie("session_id", sessionID)
		h(ctx)
		return ctx.Response.StatusCode()
	}

	backing.failSet = true // the session store fails while the token is being consumed
	first := post()
	backing.failSet = false
	second := post() // replay of the same single-use token

	if first == fiber.StatusOK && second == fiber.StatusOK {
		t.Fatalf("single-use token accepted twice (statuses %d, %d): the failed session save was only logged, "+
			"the first request was not rejected and the token was not consumed", first, second)
	}
}
