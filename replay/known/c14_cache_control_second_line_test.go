// place in: middleware/cache
package cache

// Replay for property C14 (observation of a fifth-generation seed-writing agent, confirmed by this test).
// Property: a cached response "is never served ... to a no-cache request; no-store requests bypass the cache entirely".
// hasRequestDirective reads c.Get("Cache-Control"): only the FIRST Cache-Control line of the request. Directives sent in
// a second line (equivalent to one comma-joined line, RFC 9110 5.3) are ignored and the request is served from the cache.

import (
	"io"
	"net/http/httptest"
	"strconv"
	"testing"

	"github.com/gofiber/fiber/v3"
)

func TestFVCReplayC14NoStoreInSecondCacheControlLine(t *testing.T) {
	app := fiber.New()
	app.Use(New())
	calls := 0
	app.Get("/", func(c fiber.Ctx) error { calls++; return c.SendString(strconv.Itoa(calls)) })
	do := func(lines ...string) (string, string) {
		req := httptest.NewRequest(fiber.MethodGet, "/", nil)
		for _, l := range lines {
			req.Header.Add("Cache-Control", l)
		}
		resp, err := app.Test(req)
		if err != nil {
			t.Fatal(err)
		}
		b, _ := io.ReadAll(resp.Body)
		return resp.Header.Get("X-Cache"), string(b)
	}
	if x, b := do(); x != "miss" || b != "1" {
		t.Fatalf("first request: X-Cache %q body %q, want miss 1", x, b)
	}
	if x, b := do("max-age=0, no-store"); x == "hit" || b != "2" {
		t.Fatalf("reference (one line): X-Cache %q body %q, want a bypass with body 2", x, b)
	}
	if x, b := do("max-age=0", "no-store"); x == "hit" || b == "1" {
		t.Errorf("Cache-Control: max-age=0 + Cache-Control: no-store (two lines): X-Cache %q body %q - served from the cache, want a bypass", x, b)
	}
	if x, b := do("max-age=0", "no-cache"); x == "hit" || b == "1" {
		t.Errorf("Cache-Control: max-age=0 + Cache-Control: no-cache (two lines): X-Cache %q body %q - served from the cache", x, b)
	}
}
