package fiber

// Replay for property C07 (no cookie field a handler passes to a response helper adds a header line):
// counterexample to the clause `cookie-fields-one-line` at the call of fasthttp's
// (*ResponseHeader).SetCookie in (*DefaultCtx).Cookie and `name-one-line` at DelClientCookie in ClearCookie
// (contracts of these two functions live in zz_contracts_c12_verif.go). fasthttp's Cookie.AppendBytes writes
// key, value, path and domain verbatim. Counterexample: any of the four fields = "...\r\nX-Evil: 1".

import (
	"bufio"
	"bytes"
	"net/http"
	"testing"

	"github.com/valyala/fasthttp"
)

func TestFVCKnownC07CookieCRLF(t *testing.T) {
	evil := "x\r\nX-Evil: 1"
	cases := []struct {
		name string
		h    Handler
	}{
		{"Cookie.Value", func(c Ctx) error { c.Cookie(&Cookie{Name: "a", Value: "b" + evil}); return nil }},
		{"Cookie.Name", func(c Ctx) error { c.Cookie(&Cookie{Name: "a" + evil, Value: "b"}); return nil }},
		{"Cookie.Path", func(c Ctx) error { c.Cookie(&Cookie{Name: "a", Value: "b", Path: "/" + evil}); return nil }},
		{"Cookie.Domain", func(c Ctx) error { c.Cookie(&Cookie{Name: "a", Value: "b", Domain: "d" + evil}); return nil }},
		{"ClearCookie(name)", func(c Ctx) error { c.ClearCookie("a" + evil); return nil }},
	}
	for _, tc := range cases {
		app := New()
		app.Get("/", tc.h)
		fctx := &fasthttp.RequestCtx{}
		fctx.Request.Header.SetMethod(MethodGet)
		fctx.Request.SetRequestURI("/")
		app.Handler()(fctx)

		var wire bytes.Buffer
		bw := bufio.NewWriter(&wire)
		if err := fctx.Response.Write(bw); err != nil {
			t.Fatal(err)
		}
		_ = bw.Flush()
		resp, err := http.ReadResponse(bufio.NewReader(bytes.NewReader(wire.Bytes())), nil)
		if err != nil {
			t.Errorf("%s: a strict client cannot parse the response: %v\n%q", tc.name, err, wire.String())
			continue
		}
		if v := resp.Header.Get("X-Evil"); v != "" {
			t.Errorf("%s: the handler's value added the header line \"X-Evil: %s\"\n%q", tc.name, v, wire.String())
		}
		_ = resp.Body.Close()
	}
}
