package fiber

// Replay of the counterexample to (*App).ErrorHandler/inv:loop1.preserve:best-handler#4 and
// .../inv:loop1.preserve:no-longer-scoped-seen#3 (property C08):
// the error goes to the innermost mounted sub-app THAT CONFIGURED a handler.
// Counterexample: root -> "/api" (own ErrorHandler) -> "/api/v1" (no ErrorHandler); request path
// "/api/v1/x". When the map iteration visits "/api/v1" (3 parts, no handler) before "/api" (2 parts),
// the rank is raised to 3 without a handler and "/api" is then rejected: the root handler receives an
// error that belongs to the "/api" sub-tree. The outcome depends on map iteration order.

import (
	"errors"
	"net/http/httptest"
	"testing"
)

func TestFVCKnownC08DeeperWithoutHandler(t *testing.T) {
	const runs = 400
	wrong := 0
	for i := 0; i < runs; i++ {
		got := ""
		v1 := New() // no error handler of its own
		v1.Get("/x", func(Ctx) error { return errors.New("boom") })
		api := New(Config{ErrorHandler: func(c Ctx, _ error) error {
			got = "api"
			return c.SendStatus(StatusTeapot)
		}})
		api.Use("/v1", v1)
		app := New(Config{ErrorHandler: func(c Ctx, _ error) error {
			got = "root"
			return c.SendStatus(StatusTeapot)
		}})
		app.Use("/api", api)

		if _, err := app.Test(httptest.NewRequest(MethodGet, "/api/v1/x", nil)); err != nil {
			t.Fatal(err)
		}
		if got != "api" {
			wrong++
		}
	}
	if wrong != 0 {
		t.Fatalf("error raised under /api/v1/x: in %d of %d fresh apps it was not delivered to the /api handler (innermost configured one) but to the root handler", wrong, runs)
	}
}
