// place in: client
package client

import (
	"bytes"
	"context"
	"errors"
	"sync"
	"testing"
	"time"

	"github.com/gofiber/fiber/v3"
	"github.com/valyala/fasthttp"
)

// C18 (d_client, defect 1): core.execFunc, timeout/cancel branch. The worker goroutine takes the completion flag
// (CompareAndSwap 0->1), THEN copies its answer into the caller's Response and sends on the error channel. When the
// context fires in between, the caller's atomic.SwapInt32(&done, 1) returns 1 - the worker owns the completion - but the
// result is ignored: the caller gives the Response and the error channel back to their pools while the worker is still
// going to write both. The next request that gets the pooled channel finds a completion in it and returns at once - with
// a Response that holds the answer of the request that "timed out".
//
// The schedule is forced without touching the library: a fasthttp RoundTripper signals when the worker has the answer in
// hand, the answer is large (copying it takes milliseconds), and the test cancels the context while that copy runs.
// sync.Pool may hand out any object that was Put: the test replaces the two pools by pools that record what they made,
// and afterwards lets them hand out exactly the objects execFunc gave back.

type fvcSignalRT struct {
	mu   sync.Mutex
	done chan struct{}
}

func (s *fvcSignalRT) RoundTrip(hc *fasthttp.HostClient, req *fasthttp.Request, resp *fasthttp.Response) (bool, error) {
	retry, err := fasthttp.DefaultTransport.RoundTrip(hc, req, resp)
	s.mu.Lock()
	if s.done != nil && bytes.HasSuffix(req.URI().Path(), []byte("/big")) {
		close(s.done)
		s.done = nil
	}
	s.mu.Unlock()
	return retry, err
}

func TestFVCReplayC18TimeoutWhileWorkerCompletes(t *testing.T) {
	const bigSize = 48 << 20
	big := bytes.Repeat([]byte{'A'}, bigSize)

	app, dial, start := createHelperServer(t)
	app.Get("/big", func(c fiber.Ctx) error { return c.Send(big) })
	app.Get("/slow", func(c fiber.Ctx) error {
		time.Sleep(400 * time.Millisecond)
		return c.SendString("second")
	})
	go start()

	// recording pools (restored at the end)
	oldErrPool, oldRespPool := errChanPool, responsePool
	defer func() { errChanPool, responsePool = oldErrPool, oldRespPool }()
	var mu sync.Mutex
	var chans []chan error
	var resps []*Response
	errChanPool = &sync.Pool{New: func() any {
		ch := make(chan error, 1)
		mu.Lock()
		chans = append(chans, ch)
		mu.Unlock()
		return ch
	}}
	responsePool = &sync.Pool{New: func() any {
		r := &Response{cookie: []*fasthttp.Cookie{}, RawResponse: fasthttp.AcquireResponse()}
		mu.Lock()
		resps = append(resps, r)
		mu.Unlock()
		return r
	}}

	rt := &fvcSignalRT{}
	cl := New().SetDial(dial)
	cl.fasthttp.ConfigureClient = func(hc *fasthttp.HostClient) error {
		hc.Transport = rt
		return nil
	}

	var polluted chan error
	for attempt := 0; attempt < 40 && polluted == nil; attempt++ {
		ctx, cancel := context.WithCancel(context.Background())
		sig := make(chan struct{})
		rt.mu.Lock()
		rt.done = sig
		rt.mu.Unlock()
		go func(d time.Duration) {
			<-sig // the worker's Do is returning: next it takes the flag and copies 48 MB into the caller's Response
			time.Sleep(d)
			cancel()
		}(time.Duration(200+attempt*150) * time.Microsecond)

		resp, err := cl.R().SetContext(ctx).Get("http://example.com/big")
		cancel()
		if err == nil {
			resp.Close() // the completion won the race: not the schedule under test
			continue
		}
		if !errors.Is(err, ErrTimeoutOrCancel) {
			t.Fatalf("unexpected error: %v", err)
		}
		// the request was reported as timed out/cancelled; give its worker time to finish
		time.Sleep(300 * time.Millisecond)
		mu.Lock()
		for _, ch := range chans {
			if len(ch) > 0 {
				polluted = ch
			}
		}
		mu.Unlock()
	}
	if polluted == nil {
		t.Log("the schedule (context fires between the worker's CompareAndSwap and its send) was not hit, or the code waits for the worker: no pooled channel holds a completion")
	} else {
		t.Errorf("execFunc returned ErrTimeoutOrCancel and gave its error channel back to the pool, and afterwards the worker of that request sent its completion into the pooled channel (len=%d)", len(polluted))
	}

	// Consequence for the next request. The pools hand out what execFunc gave back (every recorded object was Put again:
	// no request is in flight).
	mu.Lock()
	backCh := append([]chan error(nil), chans...)
	backResp := append([]*Response(nil), resps...)
	mu.Unlock()
	if polluted != nil {
		backCh = []chan error{polluted}
	}
	for i, r := range backResp { // the Response the late worker wrote into first
		if len(r.RawResponse.Body()) == bigSize {
			backResp[0], backResp[i] = backResp[i], backResp[0]
		}
	}
	errChanPool = &sync.Pool{New: func() any {
		if len(backCh) > 0 {
			ch := backCh[0]
			backCh = backCh[1:]
			return ch
		}
		return make(chan error, 1)
	}}
	responsePool = &sync.Pool{New: func() any {
		if len(backResp) > 0 {
			r := backResp[0]
			backResp = backResp[1:]
			return r
		}
		return &Response{cookie: []*fasthttp.Cookie{}, RawResponse: fasthttp.AcquireResponse()}
	}}

	begin := time.Now()
	resp, err := cl.R().Get("http://example.com/slow")
	took := time.Since(begin)
	if err != nil {
		t.Fatalf("second request: %v", err)
	}
	body := resp.Body()
	if string(body) != "second" {
		show := body
		if len(show) > 16 {
			show = show[:16]
		}
		t.Errorf("the response handed back for GET /slow is not the answer to that request: after %v (the handler sleeps 400ms) got %d bytes %q..., want \"second\"", took, len(body), show)
	}
	time.Sleep(600 * time.Millisecond) // let the worker of the second request finish before the pools are restored
}
