// place in: .
package fiber

// Replay for property C07: "whatever it writes back is a well-formed HTTP/1.1 response that a strict client parses".
// Oracle: Go's net/http response parser plus the field-value grammar of RFC 9110 5.5 (no control byte other than HTAB).
// A handler echoes a percent-decoded query value into a response header helper; fasthttp replaces only CR and LF, so a
// NUL/VT/DEL reached the wire and net/http refused the whole reply ("malformed MIME header line").

import (
	"bufio"
	"bytes"
	"net/http"
	"testing"

	"github.com/valyala/fasthttp"
)

func TestFVCReplayC07HeaderControlBytes(t *testing.T) {
	type tcase struct {
		name  string
		query string
		h     Handler
	}
	check := func(t *testing.T, cases []tcase) {
		t.Helper()
		for _, tc := range cases {
			resp, wire, err := replayC07HeaderCtlServe(t, tc.query, tc.h)
			if err != nil {
				t.Errorf("%s: a strict client cannot parse the response: %v\n%q", tc.name, err, wire)
				continue
			}
			for k, vs := range resp.Header {
				for _, v := range vs {
					for i := 0; i < len(v); i++ {
						if (v[i] < 0x20 && v[i] != '\t') || v[i] == 0x7f {
							t.Errorf("%s: header %s carries control byte %#02x: not a field-value (RFC 9110 5.5)\n%q", tc.name, k, v[i], wire)
							break
						}
					}
				}
			}
		}
	}
	set := func(c Ctx) error { c.Set("X-Echo", c.Query("v")); return nil }
	loc := func(c Ctx) error { c.Location(c.Query("v")); return nil }

	check(t, []tcase{
		{"Set value with NUL", "v=a%00b", set},
		{"Set value with VT", "v=a%0bb", set},
		{"Set value with DEL", "v=a%7fb", set},
		{"Append value with NUL", "v=a%00b", func(c Ctx) error { c.Append("X-Echo", c.Query("v")); return nil }},
		{"Location with NUL", "v=/x%00y", loc},
		{"Location with VT", "v=/x%0by", loc},
		{"Redirect target with NUL", "v=/x%00y", func(c Ctx) error { return c.Redirect().To(c.Query("v")) }},
		{"Attachment name with NUL", "v=a%00b.txt", func(c Ctx) error { c.Attachment(c.Query("v")); return nil }},
		{"Type charset with NUL", "v=utf-8%00", func(c Ctx) error { c.Type("html", c.Query("v")); return nil }},
		{"JSON ctype with NUL", "v=application/x%00y", func(c Ctx) error { return c.JSON(1, c.Query("v")) }},
	})
}

func replayC07HeaderCtlServe(t *testing.T, query string, h Handler) (*http.Response, string, error) {
	t.Helper()
	app := New()
	app.Get("/", h)
	fctx := &fasthttp.RequestCtx{}
	fctx.Request.Header.SetMethod(MethodGet)
	fctx.Request.SetRequestURI("/?" + query)
	app.Handler()(fctx)
	var wire bytes.Buffer
	bw := bufio.NewWriter(&wire)
	if err := fctx.Response.Write(bw); err != nil {
		t.Fatal(err)
	}
	_ = bw.Flush()
	resp, err := http.ReadResponse(bufio.NewReader(bytes.NewReader(wire.Bytes())), nil)
	if err == nil {
		_ = resp.Body.Close()
	}
	return resp, wire.String(), err
}
