package fiber

import (
	"fmt"
	"testing"

	"github.com/valyala/fasthttp"
)

// C04 / (*App).addPrefixToRoute: star-as-registered. A wildcard route "/*" of a sub-application mounted at "/"
// keeps the key "/*", for which direct registration sets Route.star; addPrefixToRoute clears the flag, so the
// wildcard is captured by the route parser on the detection path (trailing slash removed) instead of the star
// shortcut on the request path: the handler sees a different value.
func TestFVCKnownC04StarTrailingSlash(t *testing.T) {
	h := func(c Ctx) error { return c.SendString("*=" + c.Params("*")) }
	observe := func(app *App, path string) string {
		var fctx fasthttp.RequestCtx
		fctx.Request.Header.SetMethod(MethodGet)
		fctx.Request.SetRequestURI(path)
		app.Handler()(&fctx)
		return fmt.Sprintf("%d %s", fctx.Response.StatusCode(), fctx.Response.Body())
	}
	sub := New()
	sub.Get("/*", h)
	mounted := New()
	mounted.Use("/", sub)
	twin := New()
	twin.Group("/").Get("/*", h)
	for _, path := range []string{"/a", "/a/", "/a/x/"} {
		if m, g := observe(mounted, path), observe(twin, path); m != g {
			t.Errorf("GET %s: sub-app with Get(\"/*\") mounted at \"/\" answers %q, Group(\"/\").Get(\"/*\") answers %q", path, m, g)
		}
	}
}
