// place in: .
package fiber

import (
	"io"
	"net/http/httptest"
	"testing"
)

// C02-e: the parameter values of the running route are those captured from the request path; a
// handler that overrides the path (for a later internal re-route) must not see them rewritten.
func TestFVCTriageC02e(t *testing.T) {
	app := New()
	app.Get("/ov/:name", func(c Ctx) error {
		c.Path("/ov/zzzzz")
		return c.SendString(c.Params("name"))
	})
	// the value reported while the handler runs also has to satisfy the declared constraint
	app.Get("/id/:id<int>", func(c Ctx) error {
		c.Path("/id/abcde/x")
		return c.SendString(c.Params("id"))
	})
	// shorter override: the value must not become a mix of both paths
	app.Get("/sh/:name", func(c Ctx) error {
		c.Path("/sh/bob")
		return c.SendString(c.Params("name"))
	})

	for _, tc := range []struct{ path, want string }{
		{"/ov/alice", "alice"},
		{"/id/12345", "12345"},
		{"/sh/alice", "alice"},
	} {
		resp, err := app.Test(httptest.NewRequest(MethodGet, tc.path, nil))
		if err != nil {
			t.Fatal(err)
		}
		body, _ := io.ReadAll(resp.Body)
		if resp.StatusCode != 200 || string(body) != tc.want {
			t.Errorf("GET %s: status %d, handler saw parameter %q, want %q", tc.path, resp.StatusCode, body, tc.want)
		}
	}
}
