// place in: middleware/cache
package cache

import (
	"net/http"
	"net/http/httptest"
	"testing"
	"time"

	"github.com/gofiber/fiber/v3"
)

// C14-c: MaxBytes 10, bodies of 4 bytes. /a is cached, then refreshed by a no-cache request: the cache
// holds ONE copy of /a (4 bytes). Storing /b (4 bytes) fits (8 <= 10): nothing has to be evicted and /a
// must still be a hit. With the orphan heap entry the accounting says 8 bytes after the refresh, /b
// "does not fit", the orphan is evicted and takes the fresh /a with it.
// Second half: 30 refreshes of one 4-byte key must not use up the byte budget of the other keys.
func TestFVCTriageC14c(t *testing.T) {
	t.Run("memory", func(t *testing.T) { triageC14c(t, nil) })
	t.Run("storage", func(t *testing.T) { triageC14c(t, &triageC14cStorage{m: map[string][]byte{}}) })
}

// minimal external storage
type triageC14cStorage struct{ m map[string][]byte }

func (s *triageC14cStorage) Get(key string) ([]byte, error) { return s.m[key], nil }
func (s *triageC14cStorage) Set(key string, val []byte, _ time.Duration) error {
	s.m[key] = append([]byte(nil), val...)
	return nil
}
func (s *triageC14cStorage) Delete(key string) error { delete(s.m, key); return nil }
func (s *triageC14cStorage) Reset() error            { s.m = map[string][]byte{}; return nil }
func (s *triageC14cStorage) Close() error            { return nil }

func triageC14c(t *testing.T, storage fiber.Storage) {
	t.Helper()
	app := fiber.New()
	app.Use(New(Config{Expiration: time.Hour, MaxBytes: 10, Storage: storage}))
	calls := map[string]int{}
	app.Get("/:name", func(c fiber.Ctx) error {
		calls[c.Params("name")]++
		return c.SendString("4444")
	})

	get := func(path string, noCache bool) string {
		req := httptest.NewRequest(http.MethodGet, path, nil)
		if noCache {
			req.Header.Set(fiber.HeaderCacheControl, "no-cache")
		}
		resp, err := app.Test(req)
		if err != nil {
			t.Fatal(err)
		}
		return resp.Header.Get("X-Cache")
	}

	if got := get("/a", false); got != "miss" {
		t.Fatalf("first /a: %q", got)
	}
	if got := get("/a", true); got != "miss" {
		t.Fatalf("no-cache /a: %q, want miss (not served from the cache)", got)
	}
	if got := get("/b", false); got != "miss" {
		t.Fatalf("first /b: %q", got)
	}
	// held: /a (4) + /b (4) = 8 <= 10
	if got := get("/a", false); got != "hit" {
		t.Errorf("/a after storing /b: %q, want hit: 8 of 10 bytes are held, yet the refreshed /a was evicted (its old heap entry was left behind and counted)", got)
	}
	if got := get("/b", false); got != "hit" {
		t.Errorf("/b: %q, want hit", got)
	}

	// refreshing one key over and over must not crowd out the other one
	get("/a", false) // make sure /a is cached again (miss or hit)
	get("/b", false)
	for i := 0; i < 30; i++ {
		get("/a", true)
	}
	if got := get("/b", false); got != "hit" {
		t.Errorf("/b after 30 no-cache refreshes of /a: %q, want hit (held bytes never exceeded 8 of 10)", got)
	}
}
