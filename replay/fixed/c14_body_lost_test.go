package cache

// Replay of the counterexample to cache.New$4/atcall:(*Response).SetBodyRaw:hit-external-body-exists
// (property C14: a response served from the cache is identical in status, BODY, ... to what the origin
// produced). With an external Storage the body lives under key+"_body", separately from the entry. The
// two values are written one after the other with the same TTL, so the body entry expires first; the
// assumed Storage contract also lets a Get fail. manager.getRaw ignores both: when the entry is still
// there but its body is gone, the handler serves a cache hit with the cached status and an EMPTY body.
// History: GET / is cached ("hello"); the store expires "/_GET_body"; GET / again.

import (
	"sync"
	"testing"
	"time"

	"github.com/gofiber/fiber/v3"
	"github.com/valyala/fasthttp"
)

func TestFVCKnownC14BodyLost(t *testing.T) {
	store := &c14BodyStore{m: map[string][]byte{}}
	app := fiber.New()
	app.Use(New(Config{Storage: store}))
	calls := 0
	app.Get("/", func(c fiber.Ctx) error {
		calls++
		return c.SendString("hello")
	})
	h := app.Handler()
	do := func() (string, string) {
		ctx := &fasthttp.RequestCtx{}
		ctx.Request.Header.SetMethod(fiber.MethodGet)
		ctx.Request.SetRequestURI("/")
		h(ctx)
		return string(ctx.Response.Body()), string(ctx.Response.Header.Peek("X-Cache"))
	}
	if body, _ := do(); body != "hello" {
		t.Fatalf("first response: %q", body)
	}
	store.expire("/_GET_body")
	body, xcache := do()
	if body != "hello" {
		t.Fatalf("second response has body %q (X-Cache: %s, origin called %d time(s)); the origin produced %q", body, xcache, calls, "hello")
	}
}

// map-backed fiber.Storage whose entries can be expired individually (helper of c14_body_lost_test.go)
type c14BodyStore struct {
	mu sync.Mutex
	m  map[string][]byte
}

func (s *c14BodyStore) Get(key string) ([]byte, error) {
	s.mu.Lock()
	defer s.mu.Unlock()
	return s.m[key], nil
}

func (s *c14BodyStore) Set(key string, val []byte, _ time.Duration) error {
	s.mu.Lock()
	defer s.mu.Unlock()
	s.m[key] = append([]byte(nil), val...)
	return nil
}

func (s *c14BodyStore) Delete(key string) error {
	s.mu.Lock()
	defer s.mu.Unlock()
	delete(s.m, key)
	return nil
}
func (*c14BodyStore) Reset() error { return nil }
func (*c14BodyStore) Close() error { return nil }
func (s *c14BodyStore) expire(key string) {
	s.mu.Lock()
	defer s.mu.Unlock()
	delete(s.m, key)
}
