// place in: .
package fiber

import (
	"errors"
	"fmt"
	"io"
	"net/http/httptest"
	"strings"
	"testing"
)

// C08 / (*App).ErrorHandler: pre:(*routeParser).getMatch:wf-parser.
// A mount prefix with maxParams (30) parameters is routed (the sub-app's route /x adds none), but ErrorHandler
// matches the prefix continued by "/*": 31 parameters, getMatch writes params[30] of a [30]string - the error
// handler selection panics instead of delivering the error.
func TestFVCReplayC08MaxParamsMountPrefix(t *testing.T) {
	var pre, path strings.Builder
	for i := 1; i <= maxParams; i++ {
		fmt.Fprintf(&pre, "/:p%d", i)
		fmt.Fprintf(&path, "/v%d", i)
	}
	root := New(Config{ErrorHandler: func(c Ctx, _ error) error { return c.Status(500).SendString("root") }})
	sub := New(Config{ErrorHandler: func(c Ctx, _ error) error { return c.Status(500).SendString("sub") }})
	sub.Get("/x", func(c Ctx) error { return errors.New("boom " + c.Params("p30")) })
	root.Use(pre.String(), sub)

	// without the repair the serving goroutine panics (index out of range [30] with length 30): the test binary dies
	resp, err := root.Test(httptest.NewRequest(MethodGet, path.String()+"/x", nil))
	if err != nil {
		t.Fatalf("the request failed: %v", err)
	}
	body, _ := io.ReadAll(resp.Body)
	if string(body) != "sub" && string(body) != "root" {
		t.Errorf("error not delivered to an error handler: %q", body)
	}
}
