package fiber

// Replay of the counterexample to fiber.acceptsOfferType/post:plain-offer-covered-any-case-is-accepted (property C09):
// media types are case-insensitive (RFC 9110 8.3.1), so the range Text/HTML accepts the offer text/html
// (and the extension html). acceptsOfferType compares the range with the offer's type byte by byte.

import (
	"testing"

	"github.com/valyala/fasthttp"
)

func TestFVCKnownC09MediaTypeCase(t *testing.T) {
	app := New()
	c := app.AcquireCtx(&fasthttp.RequestCtx{})
	defer app.ReleaseCtx(c)

	c.Request().Header.Set(HeaderAccept, "text/html")
	if got := c.Accepts("text/html"); got != "text/html" {
		t.Fatalf(`Accept: text/html: Accepts("text/html") = %q, want "text/html"`, got)
	}
	c.Request().Header.Set(HeaderAccept, "Text/HTML")
	if got := c.Accepts("text/html"); got != "text/html" {
		t.Fatalf(`Accept: Text/HTML: Accepts("text/html") = %q, want "text/html"`, got)
	}
}
