package fiber

// Replay of the counterexamples to (*DefaultCtx).Type / JSON / CBOR
// /pre:(*ResponseHeader).SetContentType:value-one-line#2 (property C07: a content-type parameter supplied by
// the handler must not add a header line). fasthttp's SetContentType stores the bytes verbatim.
// Counterexample: charset / ctype = "...\r\nX-Evil: 1".

import (
	"bufio"
	"bytes"
	"net/http"
	"testing"

	"github.com/valyala/fasthttp"
)

func TestFVCKnownC07ContentTypeCRLF(t *testing.T) {
	evil := "x\r\nX-Evil: 1"
	cases := []struct {
		name string
		h    Handler
	}{
		{"Type(ext, charset)", func(c Ctx) error { c.Type("html", "utf-8"+evil); return nil }},
		{"JSON(data, ctype)", func(c Ctx) error { return c.JSON(1, "application/problem+json"+evil) }},
		{"CBOR(data, ctype)", func(c Ctx) error { return c.CBOR(1, "application/cbor"+evil) }},
	}
	for _, tc := range cases {
		app := New()
		app.Get("/", tc.h)
		fctx := &fasthttp.RequestCtx{}
		fctx.Request.Header.SetMethod(MethodGet)
		fctx.Request.SetRequestURI("/")
		app.Handler()(fctx)

		var wire bytes.Buffer
		bw := bufio.NewWriter(&wire)
		if err := fctx.Response.Write(bw); err != nil {
			t.Fatal(err)
		}
		_ = bw.Flush()
		resp, err := http.ReadResponse(bufio.NewReader(bytes.NewReader(wire.Bytes())), nil)
		if err != nil {
			t.Errorf("%s: a strict client cannot parse the response: %v\n%q", tc.name, err, wire.String())
			continue
		}
		if v := resp.Header.Get("X-Evil"); v != "" {
			t.Errorf("%s: the handler's value added the header line \"X-Evil: %s\"\n%q", tc.name, v, wire.String())
		}
		_ = resp.Body.Close()
	}
}
