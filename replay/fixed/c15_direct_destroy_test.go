// place in: middleware/session
package session

// Replay for property C15: "After Destroy, Regenerate or Reset the previous id no longer yields data ... otherwise it
// sees an empty fresh session under a server-generated id".
// A handler running under the session middleware destroys the session through the exported Session object
// (m.Session.Destroy(), m.Session is an exported field and Destroy an exported method; also what sess :=
// session.FromContext(c).Session; sess.Destroy() does). Session.Destroy removes the id from the store and expires
// the cookie, but only (*Middleware).Destroy sets the middleware's `destroyed` flag: after the handler the middleware
// saves the session again - under the SAME id - and re-announces that id to the client. The destroyed id is live
// again: the next request presenting it is not given a fresh server-generated id.

import (
	"strings"
	"testing"

	"github.com/gofiber/fiber/v3"
	"github.com/valyala/fasthttp"
)

func TestFVCReplayC15DirectDestroyResurrectsID(t *testing.T) {
	handler, store := NewWithStore()
	app := fiber.New()
	app.Use(handler)
	app.Get("/login", func(c fiber.Ctx) error {
		FromContext(c).Set("user", "alice")
		return nil
	})
	app.Get("/logout", func(c fiber.Ctx) error {
		return FromContext(c).Session.Destroy()
	})
	var seenFresh bool
	var seenID string
	app.Get("/whoami", func(c fiber.Ctx) error {
		m := FromContext(c)
		seenFresh, seenID = m.Fresh(), m.ID()
		return nil
	})
	h := app.Handler()
	serve := func(path, cookie string) *fasthttp.RequestCtx {
		fctx := &fasthttp.RequestCtx{}
		fctx.Request.Header.SetMethod(fiber.MethodGet)
		fctx.Request.SetRequestURI(path)
		if cookie != "" {
			fctx.Request.Header.SetCookie("session_id", cookie)
		}
		h(fctx)
		return fctx
	}
	// 1. log in: the server issues an id
	r1 := serve("/login", "")
	ck := fasthttp.AcquireCookie()
	ck.SetKey("session_id")
	if !r1.Response.Header.Cookie(ck) || len(ck.Value()) == 0 {
		t.Fatalf("no session cookie after login")
	}
	id := string(ck.Value())
	if raw, err := store.Storage.Get(id); err != nil || raw == nil {
		t.Fatalf("session not stored after login: %v %v", raw, err)
	}
	// 2. log out through the Session object of the middleware
	r2 := serve("/logout", id)
	if r2.Response.StatusCode() != fiber.StatusOK {
		t.Fatalf("logout: status %d", r2.Response.StatusCode())
	}
	raw, err := store.Storage.Get(id)
	if err != nil {
		t.Fatal(err)
	}
	if raw != nil {
		t.Errorf("after Destroy the id %q is in the store again (%d bytes): the middleware saved the destroyed session", id, len(raw))
	}
	var live []string
	r2.Response.Header.VisitAllCookie(func(k, v []byte) {
		if string(k) == "session_id" && strings.Contains(string(v), "session_id="+id) {
			live = append(live, string(v))
		}
	})
	if len(live) > 0 {
		t.Errorf("after Destroy the response announces the destroyed id as the live session cookie again: %q", live)
	}
	// 3. the destroyed id is presented again: the property asks for a fresh session under a new server-generated id
	serve("/whoami", id)
	if seenID == id || !seenFresh {
		t.Errorf("request presenting the destroyed id: handler sees id %q (destroyed id %q), fresh=%v; want a fresh session under a new id", seenID, id, seenFresh)
	}
}
