package fiber

// Replay for fiber.(*App).addRoute/post:merge-never-writes-shared-array (property C01): whether a route's
// handlers run never depends on which other routes exist. Routes registered together through Add share one
// handler slice; merging a later duplicate registration into one of them must not overwrite the other's.

import (
	"net/http/httptest"
	"testing"
)

func TestFVCReplayC01SharedHandlers(t *testing.T) {
	for n := 1; n <= 8; n++ {
		app := New()
		next := func(c Ctx) error { return c.Next() }
		hs := make([]Handler, n)
		for i := range hs {
			hs[i] = next
		}
		app.Add([]string{MethodGet, MethodPost}, "/x", hs[0], hs[1:]...)
		var ran string
		app.Get("/x", func(c Ctx) error { ran = "get"; return nil })
		app.Post("/x", func(c Ctx) error { ran = "post"; return nil })
		if _, err := app.Test(httptest.NewRequest(MethodGet, "/x", nil)); err != nil {
			t.Fatal(err)
		}
		if ran != "get" {
			t.Fatalf("%d shared handlers: GET /x ran the %q endpoint", n, ran)
		}
	}
}
