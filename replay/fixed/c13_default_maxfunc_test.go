package limiter

// Replay of the counterexample to limiter.configDefault/post:max-func-set#2 (property C13: the limit is the one
// returned by MaxFunc for that request; default MaxFunc returns Max = 5).
// Counterexample: New() is called without a Config. configDefault returns ConfigDefault unchanged, whose MaxFunc is
// nil; the handler's first statement `cfg.MaxFunc(c)` is a nil function call: every request panics.
// Expected: with the defaults, 5 requests per minute and key reach the handler and the 6th is answered 429.

import (
	"testing"

	"github.com/gofiber/fiber/v3"
	"github.com/valyala/fasthttp"
)

func TestFVCKnownC13DefaultConfigMaxFunc(t *testing.T) {
	reached := 0
	app := fiber.New()
	app.Use(New())
	app.Get("/", func(c fiber.Ctx) error { reached++; return c.SendStatus(fiber.StatusOK) })
	h := app.Handler()

	var last int
	func() {
		defer func() {
			if r := recover(); r != nil {
				t.Fatalf("limiter.New() without a Config: request panicked: %v", r)
			}
		}()
		for i := 1; i <= 6; i++ {
			ctx := &fasthttp.RequestCtx{}
			ctx.Request.Header.SetMethod(fiber.MethodGet)
			ctx.Request.SetRequestURI("/")
			h(ctx)
			last = ctx.Response.StatusCode()
		}
	}()
	if reached != 5 || last != fiber.StatusTooManyRequests {
		t.Fatalf("defaults (Max 5 per minute): %d of 6 requests reached the handler, the 6th was answered %d", reached, last)
	}
}
