package limiter

// Replay (C13: other keys are unaffected): the key returned by KeyGenerator may be a view of the request's header
// buffer (the documented example is `return c.Get("x-forwarded-for")`); the in-memory store keeps it as a map key.

import (
	"testing"
	"time"

	"github.com/gofiber/fiber/v3"
	"github.com/valyala/fasthttp"
)

func TestFVCReplayC13KeyAlias(t *testing.T) {
	app := fiber.New()
	app.Use(New(Config{
		Max:          1,
		Expiration:   time.Hour,
		KeyGenerator: func(c fiber.Ctx) string { return c.Get("X-Key") },
	}))
	app.Get("/", func(c fiber.Ctx) error { return c.SendStatus(200) })
	h := app.Handler()
	fctx := &fasthttp.RequestCtx{}
	do := func(key string) int {
		fctx.Request.Reset()
		fctx.Response.Reset()
		fctx.Request.Header.SetMethod("GET")
		fctx.Request.SetRequestURI("/")
		fctx.Request.Header.Set("X-Key", key)
		h(fctx)
		return fctx.Response.StatusCode()
	}
	if s := do("aaaa"); s != 200 {
		t.Fatalf("first request of key aaaa: %d", s)
	}
	if s := do("bbbb"); s != 200 {
		t.Fatalf("first request of key bbbb answered %d: it inherited the counter of key aaaa (the stored key is a view of the reused header buffer)", s)
	}
	if s := do("aaaa"); s != 429 {
		t.Fatalf("second request of key aaaa answered %d, want 429 (Max 1)", s)
	}
}
