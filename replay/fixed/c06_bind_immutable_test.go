// place in: .
package fiber

// Replay for property C06 ("Immutable option: values taken from the context stay valid forever ... and string
// fields filled by binding"): counterexample to binder.(*QueryBinding).Bind$1 / (*HeaderBinding).Bind$1 /
// (*CookieBinding).Bind$1 / (*FormBinding).Bind$1 / (*RespHeaderBinding).Bind$1
// atcall:formatBindData:[C06] immutable-copies-key-and-value.
// The binders convert fasthttp's key/value byte slices with utils.UnsafeString and hand them to the decoder,
// which stores the strings as they are (struct string fields, map keys and values). Nothing on that path is a
// copying conversion, whatever Config.Immutable says. The bytes live in the request's argument / header
// buffers, which fasthttp reuses for the next request on the same connection.
// History: request 1 binds name=alice (query, header, cookie, form); the handler keeps the bound strings;
// request 2 on the same fasthttp.RequestCtx carries name=bobby. The strings kept from request 1 now read "bobby".

import (
	"testing"

	"github.com/valyala/fasthttp"
)

type fvcC06Bound struct {
	Name string `query:"name" header:"X-Name" cookie:"name" form:"name"`
}

func fvcC06BindReplay(t *testing.T, source string, bind func(c Ctx, out any) error, fill func(req *fasthttp.Request, val string)) {
	t.Helper()
	app := New(Config{Immutable: true})
	var keptStruct []*fvcC06Bound
	var keptMap []map[string]string
	app.Post("/", func(c Ctx) error {
		s := new(fvcC06Bound)
		if err := bind(c, s); err != nil {
			return err
		}
		m := map[string]string{}
		if err := bind(c, &m); err != nil {
			return err
		}
		keptStruct = append(keptStruct, s)
		keptMap = append(keptMap, m)
		return nil
	})
	h := app.Handler()
	fctx := &fasthttp.RequestCtx{}
	do := func(val string) {
		fctx.Request.Reset()
		fctx.Response.Reset()
		fctx.Request.Header.SetMethod(MethodPost)
		fctx.Request.SetRequestURI("/")
		fill(&fctx.Request, val)
		h(fctx)
		if fctx.Response.StatusCode() != StatusOK {
			t.Fatalf("%s: setup: status %d", source, fctx.Response.StatusCode())
		}
	}
	do("alice")
	if len(keptStruct) != 1 || keptStruct[0].Name != "alice" {
		t.Fatalf("%s: setup: first request bound %+v", source, keptStruct)
	}
	mapKey := ""
	for k, v := range keptMap[0] {
		if v == "alice" {
			mapKey = string(append([]byte(nil), k...)) // a real copy of the key as bound by request 1
		}
	}
	if mapKey == "" {
		t.Fatalf("%s: setup: first request bound map %v", source, keptMap[0])
	}
	do("bobby")
	if got := keptStruct[0].Name; got != "alice" {
		t.Errorf("%s: Immutable: struct field bound by request 1 (\"alice\") reads %q after request 2 reused the buffers", source, got)
	}
	found := false
	for k, v := range keptMap[0] {
		if k == mapKey {
			found = true
			if v != "alice" {
				t.Errorf("%s: Immutable: map value bound by request 1 (\"alice\") reads %q after request 2 reused the buffers", source, v)
			}
		}
	}
	if !found {
		t.Errorf("%s: Immutable: map key %q bound by request 1 is gone after request 2: %v", source, mapKey, keptMap[0])
	}
}

func TestFVCKnownC06BindQuery(t *testing.T) {
	fvcC06BindReplay(t, "Bind().Query",
		func(c Ctx, out any) error { return c.Bind().Query(out) },
		func(req *fasthttp.Request, val string) { req.SetRequestURI("/?name=" + val) })
}

func TestFVCKnownC06BindHeader(t *testing.T) {
	fvcC06BindReplay(t, "Bind().Header",
		func(c Ctx, out any) error { return c.Bind().Header(out) },
		func(req *fasthttp.Request, val string) { req.Header.Set("X-Name", val) })
}

func TestFVCKnownC06BindCookie(t *testing.T) {
	fvcC06BindReplay(t, "Bind().Cookie",
		func(c Ctx, out any) error { return c.Bind().Cookie(out) },
		func(req *fasthttp.Request, val string) { req.Header.SetCookie("name", val) })
}

func TestFVCKnownC06BindForm(t *testing.T) {
	fvcC06BindReplay(t, "Bind().Form",
		func(c Ctx, out any) error { return c.Bind().Form(out) },
		func(req *fasthttp.Request, val string) {
			req.Header.SetContentType(MIMEApplicationForm)
			req.SetBodyString("name=" + val)
		})
}
