package client

import (
	"testing"

	"github.com/valyala/fasthttp"
)

// C18 / (*CookieJar).Get: "never a cookie stored for another host".
// The documentation of Get promises: "The CookieJar keeps its own copies of cookies, so it is safe to release
// the returned cookies after use." Get hands out the jar's OWN cookie objects, not copies. A caller that does
// what the documentation allows returns objects to fasthttp's pool that the jar still references; the next
// cookie that anybody stores - for any host - is written into such an object, and the jar then returns it
// for the first host as well.
func TestFVCKnownC18GetHandsOutJarObjects(t *testing.T) {
	jar := &CookieJar{}

	a := fasthttp.AcquireCookie()
	a.SetKey("sid")
	a.SetValue("a-session")
	jar.SetByHost([]byte("a.example"), a)

	ua := fasthttp.AcquireURI()
	if err := ua.Parse(nil, []byte("http://a.example/")); err != nil {
		t.Fatal(err)
	}
	for _, c := range jar.Get(ua) {
		fasthttp.ReleaseCookie(c) // "it is safe to release the returned cookies after use"
	}

	// a cookie for ANOTHER host is stored (fasthttp's pool hands out the object released above)
	b := &fasthttp.Cookie{}
	b.SetKey("token")
	b.SetValue("b-secret")
	jar.SetByHost([]byte("b.example"), b)

	for _, c := range jar.Get(ua) {
		if string(c.Key()) != "sid" || string(c.Value()) != "a-session" {
			t.Errorf("Get(http://a.example/) returns the cookie %s=%s, which was stored for b.example only", c.Key(), c.Value())
		}
	}
}
