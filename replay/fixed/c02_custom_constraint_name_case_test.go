// place in: .
package fiber

import (
	"io"
	"net/http/httptest"
	"strconv"
	"testing"
)

type fvcIsEven struct{}

func (fvcIsEven) Name() string { return "isEven" }
func (fvcIsEven) Execute(param string, _ ...string) bool {
	n, err := strconv.Atoi(param)
	return err == nil && n%2 == 0
}

// C02-c: a registered custom constraint is enforced under the default configuration also when its
// name contains an upper-case letter.
func TestFVCTriageC02c(t *testing.T) {
	for _, caseSensitive := range []bool{true, false} {
		app := New(Config{CaseSensitive: caseSensitive})
		app.RegisterCustomConstraint(fvcIsEven{})
		app.Get("/x/:p<isEven>", func(c Ctx) error { return c.SendString("p=" + c.Params("p")) })

		for _, tc := range []struct {
			path string
			want int
		}{
			{"/x/4", 200},
			{"/x/3", 404},
			{"/x/abc", 404},
		} {
			resp, err := app.Test(httptest.NewRequest(MethodGet, tc.path, nil))
			if err != nil {
				t.Fatal(err)
			}
			body, _ := io.ReadAll(resp.Body)
			if resp.StatusCode != tc.want {
				t.Errorf("CaseSensitive=%v GET %s: status %d body %q, want %d", caseSensitive, tc.path, resp.StatusCode, body, tc.want)
			}
		}
	}
}
