// place in: middleware/cache
package cache

import (
	"net/http"
	"net/http/httptest"
	"strings"
	"testing"
	"time"

	"github.com/gofiber/fiber/v3"
)

// C14 (transparency, stored headers): the values of a repeated header are put back on a hit by Del(name) followed
// by one Add per stored value, header after header in map order. fasthttp's Del moves the LAST line of the whole
// header into the gap it leaves. When a middleware in front of the cache has already set a line of a repeated stored
// header (here: Link), the Del of that header comes - in the map orders that visit Via first - after the Via lines
// were added, and moves the last Via line in front of the first one: the hit answers "Via: 1.1 second, 1.1 first"
// where the origin answered "Via: 1.1 first, 1.1 second" (the order of the lines of one field name is significant,
// RFC 9110 5.3). The map order is random: 200 fresh apps are tried.
func TestFVCKnownC14RepeatedHeaderOrder(t *testing.T) {
	changed := 0
	var origin, hit string
	for round := 0; round < 200; round++ {
		app := fiber.New()
		// a middleware in front of the cache that sets a response header line of its own
		app.Use(func(c fiber.Ctx) error {
			c.Response().Header.Add("Link", "<https://example.com/docs>; rel=help")
			return c.Next()
		})
		app.Use(New(Config{Expiration: time.Hour, StoreResponseHeaders: true}))
		app.Get("/", func(c fiber.Ctx) error {
			c.Response().Header.Add("Link", "<https://example.com/next>; rel=next")
			c.Response().Header.Add("Via", "1.1 first")
			c.Response().Header.Add("Via", "1.1 second")
			return c.SendString("ok")
		})
		var via [2]string
		for i := range via {
			resp, err := app.Test(httptest.NewRequest(http.MethodGet, "/", nil))
			if err != nil {
				t.Fatal(err)
			}
			if want := [2]string{"miss", "hit"}[i]; resp.Header.Get("X-Cache") != want {
				t.Fatalf("request %d: X-Cache %q, want %q", i, resp.Header.Get("X-Cache"), want)
			}
			via[i] = strings.Join(resp.Header.Values("Via"), ", ")
			if got := strings.Join(resp.Header.Values("Link"), ", "); got != "<https://example.com/docs>; rel=help, <https://example.com/next>; rel=next" {
				t.Fatalf("request %d: Link %q", i, got)
			}
		}
		if via[0] != via[1] {
			changed++
			origin, hit = via[0], via[1]
		}
	}
	if changed > 0 {
		t.Errorf("in %d of 200 rounds the hit carried the Via lines in another order than the origin's response: origin %q, hit %q", changed, origin, hit)
	}
}
