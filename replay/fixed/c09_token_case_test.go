package fiber

// Replay of the counterexample to fiber.acceptsOffer/post:named-offer-accepted-any-case (property C09):
// charset, content-coding and language tokens are case-insensitive (RFC 9110 8.3.2, 8.4.1, 8.5.1), so a
// range accepts the offer it names whatever the case. Counterexample: Accept-Encoding: GZIP, offer "gzip".

import (
	"testing"

	"github.com/valyala/fasthttp"
)

func TestFVCKnownC09TokenCase(t *testing.T) {
	app := New()
	c := app.AcquireCtx(&fasthttp.RequestCtx{})
	defer app.ReleaseCtx(c)

	c.Request().Header.Set(HeaderAcceptEncoding, "GZIP")
	if got := c.AcceptsEncodings("gzip"); got != "gzip" {
		t.Fatalf(`Accept-Encoding: GZIP: AcceptsEncodings("gzip") = %q, want "gzip"`, got)
	}
}
