package client

import (
	"strconv"
	"sync"
	"sync/atomic"
	"testing"
	"time"

	"github.com/valyala/fasthttp"
)

// C18 / (*CookieJar).getByHostAndPath: "each once ... never one the server expired", under concurrent use of
// one jar. getCookiesByHost hands the jar's own list (the slice stored in the map, the jar's array) to
// getByHostAndPath and releases the lock; getByHostAndPath then reads that array WITHOUT the lock. A second
// lookup for the same host that runs in between purges an expired cookie by shifting the array in place
// (append(cookies[:i], cookies[i+1:]...)): the first lookup sees a shifted array behind its old length and
// returns one cookie twice. (`go test -race` reports the pair cookiejar.go:100 write / cookiejar.go:78 read on
// the first iteration; without the race detector the schedule has to be hit, hence the loop.)
func TestFVCKnownC18ListReadAfterUnlock(t *testing.T) {
	jar := &CookieJar{}
	host := []byte("a.example")
	u := fasthttp.AcquireURI()
	if err := u.Parse(nil, []byte("http://a.example/")); err != nil {
		t.Fatal(err)
	}

	var twice atomic.Int64
	stop := make(chan struct{})
	var wg sync.WaitGroup

	// writers: a stream of cookies that expire almost at once, plus some that stay
	for w := 0; w < 2; w++ {
		wg.Add(1)
		go func(w int) {
			defer wg.Done()
			for i := 0; ; i++ {
				select {
				case <-stop:
					return
				default:
				}
				c := &fasthttp.Cookie{}
				c.SetKey("k" + strconv.Itoa(w) + "_" + strconv.Itoa(i%64))
				c.SetValue("v")
				if i%4 != 0 {
					c.SetExpire(time.Now().Add(50 * time.Microsecond))
				}
				jar.SetByHost(host, c)
			}
		}(w)
	}
	// readers: every result must hold each cookie object once
	for r := 0; r < 6; r++ {
		wg.Add(1)
		go func() {
			defer wg.Done()
			seen := map[*fasthttp.Cookie]bool{}
			for {
				select {
				case <-stop:
					return
				default:
				}
				clear(seen)
				for _, c := range jar.Get(u) {
					if seen[c] {
						twice.Add(1)
					}
					seen[c] = true
				}
			}
		}()
	}

	deadline := time.After(3 * time.Second)
	tick := time.NewTicker(10 * time.Millisecond)
	defer tick.Stop()
loop:
	for {
		select {
		case <-deadline:
			break loop
		case <-tick.C:
			if twice.Load() > 0 {
				break loop
			}
		}
	}
	close(stop)
	wg.Wait()
	if n := twice.Load(); n > 0 {
		t.Errorf("Get returned one cookie object twice in one result (%d times): its list is the jar's array, shifted by a concurrent purge", n)
	}
}
