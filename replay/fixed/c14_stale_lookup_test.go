package cache

// Replay of the counterexample to cache.New$4/pre:(*indexedHeap).remove:idx-in-use,
// .../atcall:(*indexedHeap).remove:expired-entry-slot-is-own and .../atcall:(*Response).SetBodyRaw:hit-entry-is-current
// (property C14): the handler calls manager.get(key) BEFORE mux.Lock(), so the entry (and its heapidx) it
// works with inside the critical section may be stale.
// History: one entry is cached and expires. Two requests A and B for its key arrive together; both look
// the entry up (outside the lock) before either of them removes it. A removes the entry and its heap slot;
// its origin answers 500, so nothing is stored again. B then removes "its" entry a second time, with the
// heap index A has already released: heap.Remove runs on an empty heap and the middleware panics.
// The storage below only enforces that interleaving: the first Delete waits (bounded) until both lookups
// have been answered. With the lookup inside the critical section the second lookup cannot happen before
// the Delete finishes; the wait times out and the test passes.

import (
	"fmt"
	"sync"
	"testing"
	"time"

	"github.com/gofiber/fiber/v3"
	"github.com/valyala/fasthttp"
)

type c14RaceStore struct {
	mu      sync.Mutex
	m       map[string][]byte
	armed   bool
	key     string
	gets    int
	bothGot chan struct{}
	waited  bool
}

func (s *c14RaceStore) Get(key string) ([]byte, error) {
	s.mu.Lock()
	defer s.mu.Unlock()
	v := s.m[key]
	if s.armed && key == s.key {
		s.gets++
		if s.gets == 2 {
			close(s.bothGot)
		}
	}
	return v, nil
}

func (s *c14RaceStore) Set(key string, val []byte, _ time.Duration) error {
	s.mu.Lock()
	defer s.mu.Unlock()
	s.m[key] = append([]byte(nil), val...)
	return nil
}

func (s *c14RaceStore) Delete(key string) error {
	s.mu.Lock()
	wait := s.armed && key == s.key && !s.waited
	if wait {
		s.waited = true
	}
	s.mu.Unlock()
	if wait {
		select {
		case <-s.bothGot:
		case <-time.After(1500 * time.Millisecond):
		}
	}
	s.mu.Lock()
	defer s.mu.Unlock()
	delete(s.m, key)
	return nil
}
func (*c14RaceStore) Reset() error { return nil }
func (*c14RaceStore) Close() error { return nil }

func TestFVCKnownC14StaleLookup(t *testing.T) {
	store := &c14RaceStore{m: map[string][]byte{}, key: "/a_GET", bothGot: make(chan struct{})}
	app := fiber.New()
	app.Use(New(Config{Storage: store, MaxBytes: 100, Expiration: 1 * time.Second}))
	var calls int
	var cmu sync.Mutex
	app.Get("/a", func(c fiber.Ctx) error {
		cmu.Lock()
		calls++
		n := calls
		cmu.Unlock()
		if n == 1 {
			return c.SendString("payload")
		}
		return c.Status(fiber.StatusInternalServerError).SendString("down")
	})
	h := app.Handler()
	do := func() (status int, panicked any) {
		defer func() { panicked = recover() }()
		ctx := &fasthttp.RequestCtx{}
		ctx.Request.Header.SetMethod(fiber.MethodGet)
		ctx.Request.SetRequestURI("/a")
		h(ctx)
		return ctx.Response.StatusCode(), nil
	}

	if st, p := do(); p != nil || st != 200 {
		t.Fatalf("priming request: status %d panic %v", st, p)
	}
	// let the entry expire (1 s) and the middleware's clock (300 ms ticks of whole seconds) notice it
	time.Sleep(2600 * time.Millisecond)

	store.mu.Lock()
	store.armed = true
	store.mu.Unlock()
	var wg sync.WaitGroup
	res := make([]string, 2)
	for i := 0; i < 2; i++ {
		wg.Add(1)
		go func() {
			defer wg.Done()
			st, p := do()
			if p != nil {
				res[i] = fmt.Sprintf("PANIC: %v", p)
			} else {
				res[i] = fmt.Sprintf("status %d", st)
			}
		}()
	}
	wg.Wait()
	for i, r := range res {
		if len(r) >= 5 && r[:5] == "PANIC" {
			t.Fatalf("request %d of two concurrent requests for an expired entry made the cache middleware panic: %s", i, r)
		}
	}
	t.Logf("concurrent requests: %v", res)
}
