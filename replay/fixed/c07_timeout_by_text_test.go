// place in: .
package fiber

// Triage replay C07-a: the status of the reply to a malformed request must be the mapped 4xx status of the
// KIND of error, not a function of bytes the client put into the request. fasthttp quotes the request bytes
// in its header-parse error text; serverErrorHandler maps every error whose text contains "timeout" to 408.
// (The request exactly as reported - the colon-less line being the LAST header line - is not answered at all by
// fasthttp 1.60: its scanner waits for more bytes. With any header line after it the parse error is immediate.)

import (
	"bufio"
	"net/http"
	"testing"
	"time"

	"github.com/valyala/fasthttp/fasthttputil"
)

func TestFVCTriageC07a(t *testing.T) {
	app := New()
	app.Get("/*", func(c Ctx) error { return c.SendString("ok") })

	ln := fasthttputil.NewInmemoryListener()
	go func() { _ = app.Listener(ln, ListenConfig{DisableStartupMessage: true}) }()
	defer func() { _ = app.Shutdown() }()

	status := func(path string) int {
		t.Helper()
		conn, err := ln.Dial()
		if err != nil {
			t.Fatal(err)
		}
		defer conn.Close() //nolint:errcheck // test
		raw := "GET " + path + " HTTP/1.1\r\nHost: x\r\nbad header line without colon\r\nA: b\r\n\r\n"
		go func() { _, _ = conn.Write([]byte(raw)) }()
		_ = conn.SetReadDeadline(time.Now().Add(5 * time.Second))
		resp, err := http.ReadResponse(bufio.NewReader(conn), nil)
		if err != nil {
			t.Fatalf("%s: no well-formed response: %v", path, err)
		}
		defer resp.Body.Close() //nolint:errcheck // test
		return resp.StatusCode
	}

	// a genuine read timeout (typed error, also the in-memory listener's) keeps its 408
	tapp := New(Config{ReadTimeout: 50 * time.Millisecond})
	tapp.Get("/*", func(c Ctx) error { return c.SendString("ok") })
	tln := fasthttputil.NewInmemoryListener()
	go func() { _ = tapp.Listener(tln, ListenConfig{DisableStartupMessage: true}) }()
	defer func() { _ = tapp.Shutdown() }()
	tconn, err := tln.Dial()
	if err != nil {
		t.Fatal(err)
	}
	defer tconn.Close() //nolint:errcheck // test
	go func() { _, _ = tconn.Write([]byte("GET /slow HTTP/1.1\r\nHost: x\r\n")) }()
	_ = tconn.SetReadDeadline(time.Now().Add(5 * time.Second))
	tresp, err := http.ReadResponse(bufio.NewReader(tconn), nil)
	if err != nil {
		t.Fatalf("stalled request: no well-formed response: %v", err)
	}
	_ = tresp.Body.Close()
	if tresp.StatusCode != StatusRequestTimeout {
		t.Fatalf("stalled request: status %d, want 408", tresp.StatusCode)
	}

	other := status("/other")
	timeout := status("/timeout")
	if other != StatusBadRequest {
		t.Fatalf("malformed header line on /other: status %d, want the mapped 400", other)
	}
	if timeout != other {
		t.Fatalf("the same malformed request answered %d on /timeout and %d on /other: the request bytes selected the status", timeout, other)
	}
}
