// place in: .
package fiber

import (
	"bufio"
	"strings"
	"testing"

	"github.com/valyala/fasthttp"
)

// C09-b: RFC 9110 5.6.3: OWS = *( SP / HTAB ). A horizontal tab around the list comma
// (or around ";") is optional whitespace and must not be part of the range.
func TestFVCTriageC09b(t *testing.T) {
	app := New()

	// the header as it arrives from the wire (fasthttp keeps the TAB inside the value)
	var fctx fasthttp.RequestCtx
	raw := "GET / HTTP/1.1\r\nHost: x\r\nAccept: text/html,\ttext/plain\r\n\r\n"
	if err := fctx.Request.Read(bufio.NewReader(strings.NewReader(raw))); err != nil {
		t.Fatal(err)
	}
	if got := string(fctx.Request.Header.Peek(HeaderAccept)); got != "text/html,\ttext/plain" {
		t.Fatalf("set-up: the parsed header is %q", got)
	}
	c := app.AcquireCtx(&fctx)
	defer app.ReleaseCtx(c)

	if got := c.Accepts("text/plain"); got != "text/plain" {
		t.Errorf(`Accept "text/html,\ttext/plain", offer text/plain: got %q, want "text/plain"`, got)
	}

	c.Request().Header.Set(HeaderAccept, "text/html\t,\ttext/plain")
	if got := c.Accepts("text/html"); got != "text/html" {
		t.Errorf(`Accept "text/html\t,\ttext/plain", offer text/html: got %q, want "text/html"`, got)
	}

	c.Request().Header.Set(HeaderAcceptLanguage, "de,\ten")
	if got := c.AcceptsLanguages("en"); got != "en" {
		t.Errorf(`Accept-Language "de,\ten", offer en: got %q, want "en"`, got)
	}

	// control
	c.Request().Header.Set(HeaderAccept, "text/html, text/plain")
	if got := c.Accepts("text/plain"); got != "text/plain" {
		t.Errorf("control: got %q", got)
	}
}
