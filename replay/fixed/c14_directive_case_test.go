package cache

// Replay of the counterexample to cache.hasRequestDirective/post:directive-is-case-insensitive (property
// C14: no-store requests bypass the cache entirely). Cache-Control directives are case-insensitive (RFC 9111
// section 5.2), but hasRequestDirective uses strings.Contains on the raw header value: a request with
// "Cache-Control: No-Store" is not recognised, its response is stored, and the next such request is served
// from the cache instead of reaching the origin.

import (
	"testing"

	"github.com/gofiber/fiber/v3"
	"github.com/valyala/fasthttp"
)

func TestFVCKnownC14DirectiveCase(t *testing.T) {
	app := fiber.New()
	app.Use(New())
	calls := 0
	app.Get("/", func(c fiber.Ctx) error {
		calls++
		return c.SendString("fresh")
	})
	h := app.Handler()
	do := func() string {
		ctx := &fasthttp.RequestCtx{}
		ctx.Request.Header.SetMethod(fiber.MethodGet)
		ctx.Request.SetRequestURI("/")
		ctx.Request.Header.Set("Cache-Control", "No-Store")
		h(ctx)
		return string(ctx.Response.Header.Peek("X-Cache"))
	}
	x1 := do()
	x2 := do()
	if calls != 2 || x2 == "hit" {
		t.Fatalf("two requests with Cache-Control: No-Store: origin called %d time(s), X-Cache %q then %q; a no-store request must bypass the cache", calls, x1, x2)
	}
}
