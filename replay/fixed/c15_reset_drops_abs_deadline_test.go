package session

// Known finding, property C15, obligation session.(*Session).Reset/post:abs-deadline-after-reset:
// Session.Reset (and Middleware.Reset, which calls it) clears the data map, which also holds the absolute
// deadline (absExpirationKey), and does not stamp a new one. getSession only stamps a deadline on sessions
// it creates itself. A session that a handler resets (the usual step at login) is therefore stored without
// any deadline: with AbsoluteTimeout configured it never ends as long as it is used within IdleTimeout.
// A session that is not reset ends after AbsoluteTimeout (control).

import (
	"net/http/httptest"
	"strings"
	"testing"
	"time"

	"github.com/gofiber/fiber/v3"
)

func TestFVCKnownC15ResetDropsAbsDeadline(t *testing.T) {
	const timeout = 3 * time.Second
	app := fiber.New()
	app.Use(New(Config{IdleTimeout: timeout, AbsoluteTimeout: timeout}))
	stamped := true
	app.Get("/login", func(c fiber.Ctx) error {
		m := FromContext(c)
		if err := m.Reset(); err != nil { // new id for the authenticated session
			return err
		}
		_, stamped = m.Session.Get(absExpirationKey).(time.Time)
		m.Set("user", "alice")
		return c.SendString("ok")
	})
	app.Get("/plain", func(c fiber.Ctx) error { // control: same, without Reset
		FromContext(c).Set("user", "bob")
		return c.SendString("ok")
	})
	app.Get("/whoami", func(c fiber.Ctx) error {
		u, _ := FromContext(c).Get("user").(string)
		return c.SendString("user=" + u)
	})

	do := func(path, cookie string) (body, setCookie string) {
		req := httptest.NewRequest(fiber.MethodGet, path, nil)
		if cookie != "" {
			req.Header.Set("Cookie", "session_id="+cookie)
		}
		resp, err := app.Test(req)
		if err != nil {
			t.Fatal(err)
		}
		buf := make([]byte, 256)
		n, _ := resp.Body.Read(buf)
		for _, c := range resp.Cookies() {
			if c.Name == "session_id" && c.MaxAge >= 0 && c.Value != "" {
				setCookie = c.Value
			}
		}
		return strings.TrimSpace(string(buf[:n])), setCookie
	}

	start := time.Now()
	_, alice := do("/login", "")
	_, bob := do("/plain", "")
	if alice == "" || bob == "" {
		t.Fatalf("no session cookie issued (alice=%q bob=%q)", alice, bob)
	}
	if !stamped {
		t.Errorf("C15 violated: after Reset the session carries no absolute deadline although AbsoluteTimeout=%v", timeout)
	}
	// keep both sessions alive w.r.t. the idle timeout (gaps well below IdleTimeout, below 1 s so that the
	// one-second clock of the memory storage cannot expire them), until the absolute timeout has passed
	for _, at := range []time.Duration{800 * time.Millisecond, 1600 * time.Millisecond, 2400 * time.Millisecond} {
		time.Sleep(time.Until(start.Add(at)))
		if b, _ := do("/whoami", alice); b != "user=alice" {
			t.Fatalf("alice's session lost before the absolute timeout at %v: %q", at, b)
		}
		if b, _ := do("/whoami", bob); b != "user=bob" {
			t.Fatalf("bob's session lost before the absolute timeout at %v: %q", at, b)
		}
	}
	time.Sleep(time.Until(start.Add(timeout + 250*time.Millisecond)))
	if b, _ := do("/whoami", bob); b != "user=" {
		t.Fatalf("control: the session that was not reset survived the absolute timeout: %q", b)
	}
	if b, _ := do("/whoami", alice); b != "user=" {
		t.Errorf("C15 violated: %v after it was created by Reset, with AbsoluteTimeout=%v, the session still yields its data: %q",
			time.Since(start).Round(100*time.Millisecond), timeout, b)
	}
}
