// place in: middleware/encryptcookie
package encryptcookie

// FINDING, property C20 ("a cookie value that was not issued by the server under the current key ... reaches the handler
// as empty ..., never as any other text"), duplicate cookie names - left undecided by the claim, whose ghost model of a
// request header is a map name -> value.
// A request may carry the same cookie name twice ("Cookie: role=X; role=Y"). The request-side visitor is called for
// both pairs, but RequestHeader.SetCookie / SetCookieBytesKV rewrite the FIRST entry of that name each time; the second
// entry keeps the raw bytes the client sent. c.Cookies("role") reads the first entry (decryption of the last pair, or
// ""), but a handler that enumerates the request cookies (RequestHeader.VisitAllCookie, Cookies()) is handed the
// client's raw text "role=admin" - a value that was never issued by the server.
// Fails on the unchanged code, passes with fix_1.diff.

import (
	"net/http/httptest"
	"testing"

	"github.com/gofiber/fiber/v3"
)

func TestFVCKnownC20DuplicateNameRawValue(t *testing.T) {
	key := GenerateKey(32)
	app := fiber.New()
	app.Use(New(Config{Key: key, Except: []string{"plain"}}))
	var got []string
	var role string
	app.Get("/", func(c fiber.Ctx) error {
		got = got[:0]
		role = c.Cookies("role")
		c.Request().Header.VisitAllCookie(func(k, v []byte) { got = append(got, string(k)+"="+string(v)) })
		return nil
	})
	issued, err := EncryptCookie("user", key)
	if err != nil {
		t.Fatal(err)
	}
	for _, tc := range []struct{ header, wantRole string }{
		{"role=" + issued + "; role=admin", ""},                   // authentic, then forged text
		{"role=admin; role=" + issued, "user"},                    // forged text, then authentic
		{"plain=p; role=" + issued + "; role=admin; plain=q", ""}, // excepted names pass through
	} {
		req := httptest.NewRequest(fiber.MethodGet, "/", nil)
		req.Header.Set("Cookie", tc.header)
		if _, err := app.Test(req); err != nil {
			t.Fatal(err)
		}
		if role != tc.wantRole {
			t.Errorf("Cookie: %s: Cookies(role) = %q, want %q", tc.header, role, tc.wantRole)
		}
		for _, kv := range got {
			// every role value the handler can see is empty or the plaintext of an issued ciphertext
			if len(kv) > 5 && kv[:5] == "role=" && kv != "role=user" {
				t.Errorf("Cookie: %s: the handler is handed %q (all cookies: %q)", tc.header, kv, got)
			}
		}
	}
}
