package limiter

// Replay of the counterexamples to limiter.(*manager).get/post:item-is-entry#5 and
// limiter.(*manager).set/post:entry-stored (property C13): for each key the number of requests that reach the
// protected handler never exceeds Max per window, for every storage back end.
// Counterexample (allowed by the assumed fiber.Storage contract): Storage.Get / Storage.Set returns an error.
//   get: manager.get returns a blank item when Storage.Get fails, the handler takes it for "no entry", starts a new
//        window with currHits = 1 and overwrites the stored count: the exhausted key is admitted again.
//   set: manager.set discards the error of Storage.Set: the hit is never recorded, every request is admitted.
// A request whose counter cannot be read or written must not reach the handler (it is answered with the error).

import (
	"errors"
	"sync"
	"testing"
	"time"

	"github.com/gofiber/fiber/v3"
	"github.com/valyala/fasthttp"
)

type c13FaultStore struct {
	mu      sync.Mutex
	m       map[string][]byte
	failGet bool
	failSet bool
}

func (s *c13FaultStore) Get(key string) ([]byte, error) {
	s.mu.Lock()
	defer s.mu.Unlock()
	if s.failGet {
		return nil, errors.New("storage: connection lost")
	}
	return s.m[key], nil
}

func (s *c13FaultStore) Set(key string, val []byte, _ time.Duration) error {
	s.mu.Lock()
	defer s.mu.Unlock()
	if s.failSet {
		return errors.New("storage: connection lost")
	}
	s.m[key] = append([]byte(nil), val...)
	return nil
}

func (s *c13FaultStore) Delete(key string) error {
	s.mu.Lock()
	defer s.mu.Unlock()
	delete(s.m, key)
	return nil
}
func (*c13FaultStore) Reset() error { return nil }
func (*c13FaultStore) Close() error { return nil }

func c13FaultRun(t *testing.T, mw Handler, store *c13FaultStore, fault func(i int), n, limit int) {
	t.Helper()
	reached := 0
	app := fiber.New()
	app.Use(New(Config{Max: limit, Expiration: time.Hour, Storage: store, LimiterMiddleware: mw,
		KeyGenerator: func(fiber.Ctx) string { return "k" }}))
	app.Get("/", func(c fiber.Ctx) error { reached++; return c.SendStatus(fiber.StatusOK) })
	h := app.Handler()
	for i := 1; i <= n; i++ {
		fault(i)
		ctx := &fasthttp.RequestCtx{}
		ctx.Request.Header.SetMethod(fiber.MethodGet)
		ctx.Request.SetRequestURI("/")
		h(ctx)
	}
	if reached > limit {
		t.Fatalf("Max %d per window (one hour), %d requests of one key: %d reached the handler", limit, n, reached)
	}
}

func TestFVCKnownC13GetFaultFixed(t *testing.T) {
	store := &c13FaultStore{m: map[string][]byte{}}
	// requests 1 and 2 use up the budget; the store cannot be read while request 3 is served
	c13FaultRun(t, FixedWindow{}, store, func(i int) { store.failGet = i == 3 }, 3, 2)
}

func TestFVCKnownC13GetFaultSliding(t *testing.T) {
	store := &c13FaultStore{m: map[string][]byte{}}
	c13FaultRun(t, SlidingWindow{}, store, func(i int) { store.failGet = i == 3 }, 3, 2)
}

func TestFVCKnownC13SetFaultFixed(t *testing.T) {
	store := &c13FaultStore{m: map[string][]byte{}}
	// the store cannot be written while request 1 is served: its hit is lost, requests 2 and 3 fill the budget again
	c13FaultRun(t, FixedWindow{}, store, func(i int) { store.failSet = i == 1 }, 3, 2)
}

func TestFVCKnownC13SetFaultSliding(t *testing.T) {
	store := &c13FaultStore{m: map[string][]byte{}}
	c13FaultRun(t, SlidingWindow{}, store, func(i int) { store.failSet = i == 1 }, 3, 2)
}
