// place in: .
package fiber

import (
	"io"
	"net/http/httptest"
	"strconv"
	"testing"
)

type fvcEven struct{}

func (fvcEven) Name() string { return "even" }
func (fvcEven) Execute(param string, _ ...string) bool {
	n, err := strconv.Atoi(param)
	return err == nil && n%2 == 0
}

// C02-d: a route of a sub-app keeps the custom constraints it was declared with when the sub-app is
// mounted (also through a second level of mounting).
func TestFVCTriageC02d(t *testing.T) {
	h := func(c Ctx) error { return c.SendString("p=" + c.Params("p")) }

	inner := New()
	inner.RegisterCustomConstraint(fvcEven{})
	inner.Get("/y/:p<even>", h)

	sub := New()
	sub.RegisterCustomConstraint(fvcEven{})
	sub.Get("/x/:p<even>", h)
	sub.Use("/in", inner)

	app := New()
	app.Use("/m", sub)

	check := func(a *App, path string, want int) {
		t.Helper()
		resp, err := a.Test(httptest.NewRequest(MethodGet, path, nil))
		if err != nil {
			t.Fatal(err)
		}
		body, _ := io.ReadAll(resp.Body)
		if resp.StatusCode != want {
			t.Errorf("GET %s: status %d body %q, want %d", path, resp.StatusCode, body, want)
		}
	}
	check(app, "/m/x/4", 200)
	check(app, "/m/x/3", 404)
	check(app, "/m/x/abc", 404)
	check(app, "/m/in/y/4", 200)
	check(app, "/m/in/y/abc", 404)
}
