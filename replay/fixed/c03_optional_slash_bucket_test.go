package fiber

// Replay of the bounded stand-in TestFVCBoundedC03Patterns (property C03), finding optional-slash-bucket:
// the pattern "/a/:id?" filled with the empty value gives "/a/", and a trailing slash is ignored without
// StrictRouting, so GET /a must be answered by the route with Params("id") == "" - exactly as Get("/ab/:id?")
// answers GET /ab. Observed: 404. Cause: buildTree files a route under the hash of the first three bytes of its
// first literal ("/a/"), while the request's detection path "/a" has only two bytes and selects bucket 0
// (router.go buildTree / ctx.go configDependentPaths). Candidate repair: /verif/fixes/c03_optional_slash_bucket.diff.

import (
	"testing"

	"github.com/valyala/fasthttp"
)

func TestFVCKnownC03OptionalSlashBucket(t *testing.T) {
	get := func(pattern, path string) (int, string) {
		app := New()
		app.Get(pattern, func(c Ctx) error { return c.SendString("id=" + c.Params("id")) })
		h := app.Handler()
		fctx := &fasthttp.RequestCtx{}
		fctx.Request.Header.SetMethod(MethodGet)
		fctx.Request.SetRequestURI(path)
		h(fctx)
		return fctx.Response.StatusCode(), string(fctx.Response.Body())
	}
	if st, body := get("/ab/:id?", "/ab"); st != StatusOK || body != "id=" {
		t.Fatalf("setup: Get(\"/ab/:id?\") + GET /ab: %d %q", st, body)
	}
	if st, body := get("/a/:id?", "/a/"); st != StatusOK || body != "id=" {
		t.Errorf("Get(\"/a/:id?\") + GET /a/ (the pattern filled with the empty value): got %d %q, want 200 \"id=\"", st, body)
	}
	if st, body := get("/a/:id?", "/a"); st != StatusOK || body != "id=" {
		t.Errorf("Get(\"/a/:id?\") + GET /a: got %d %q, want 200 \"id=\" (as Get(\"/ab/:id?\") + GET /ab)", st, body)
	}
}
