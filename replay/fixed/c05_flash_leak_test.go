package fiber

// Replay of the counterexample to fiber.(*DefaultCtx).release/post:no-stale-flash-behind-len (property C05:
// requests are isolated from each other despite context pooling).
// History: request A carries a valid fiber_flash cookie with the message {secret: "token-of-user-A"}; it is
// decoded into c.flashMessages of the pooled context. release() only re-slices c.flashMessages to length 0:
// the message stays in the backing array. Probe request B (another client, served by the same pooled context)
// sends the 2-byte cookie fiber_flash=\x91\x80 (msgpack: array of 1 element, element = empty map), or the
// 1-byte cookie \x91 (truncated). redirectionMsgs.UnmarshalMsg re-slices the pooled array to length 1 and fills
// no field, so c.Redirect().Messages() of request B returns request A's message. On a fresh app the same
// probe observes no message.

import (
	"bufio"
	"strings"
	"testing"

	"github.com/valyala/fasthttp"
)

func TestFVCKnownC05FlashLeak(t *testing.T) {
	const secret = "token-of-user-A"

	newApp := func() (*App, *[]FlashMessage) {
		app := New()
		seen := &[]FlashMessage{}
		app.Get("/", func(c Ctx) error {
			*seen = append((*seen)[:0], c.Redirect().Messages()...)
			return c.SendStatus(StatusOK)
		})
		return app, seen
	}
	serve := func(h fasthttp.RequestHandler, cookie []byte) {
		// the request as it arrives on the wire (the server looks for the cookie name in the raw header block)
		raw := "GET / HTTP/1.1\r\nHost: example.com\r\nCookie: " + FlashCookieName + "=" + string(cookie) + "\r\n\r\n"
		fctx := &fasthttp.RequestCtx{}
		if err := fctx.Request.Read(bufio.NewReader(strings.NewReader(raw))); err != nil {
			t.Fatalf("setup: cannot parse request: %v", err)
		}
		h(fctx)
	}

	// level 64: every byte of the encoded cookie is a legal header-value byte (fasthttp rejects control bytes)
	valid, err := redirectionMsgs{{key: "secret", value: secret, level: 64}}.MarshalMsg(nil)
	if err != nil {
		t.Fatal(err)
	}

	for _, probe := range [][]byte{{0x91, 0x80}, {0x91}} {
		// observation of the probe on a fresh app
		freshApp, freshSeen := newApp()
		serve(freshApp.Handler(), probe)
		fresh := append([]FlashMessage(nil), *freshSeen...)

		// the same probe after request A on the same app (sequential requests on one goroutine reuse the
		// pooled context; repeated to be independent of a GC emptying the pool in between)
		app, seen := newApp()
		h := app.Handler()
		for round := 0; round < 20; round++ {
			serve(h, valid)
			if len(*seen) != 1 || (*seen)[0].Value != secret {
				t.Fatalf("setup: request A did not see its own flash message: %v", *seen)
			}
			serve(h, probe)
			if len(*seen) != len(fresh) {
				t.Fatalf("probe cookie %x: on a fresh app the handler sees %d flash messages, after request A it sees %v "+
					"(flash message of the previous request surfaced through the pooled context)", probe, len(fresh), *seen)
			}
			for _, m := range *seen {
				if m.Value == secret || m.Key == "secret" {
					t.Fatalf("probe cookie %x: flash message of the previous request leaked: %+v", probe, m)
				}
			}
		}
	}
}
