package limiter

// Replay of the counterexample to
// limiter.(SlidingWindow).New$1/atcall:(*manager).set:skip-keeps-the-entry-for-the-next-window#2 (property C13:
// sliding window - weighted previous-plus-current hits at most Max).
// Counterexample: SkipFailedRequests, window of 4 s, Max 9. In window 1 eight requests succeed (counted), then a
// ninth fails; its skip section takes the hit back and writes the entry with TTL cfg.Expiration (4 s from now)
// instead of "until the end of the NEXT window" as the counting section does. The entry therefore disappears from
// the store when window 1 ends; window 2 starts with prevHits = 0 and admits 9 requests in its first second,
// although the 8 hits of window 1 still weigh 8*3/4 = 6 or more there: at most 3 may be admitted.

import (
	"testing"
	"time"

	"github.com/gofiber/fiber/v3"
	"github.com/gofiber/utils/v2"
	"github.com/valyala/fasthttp"
)

func TestFVCKnownC13SlidingSkipTTL(t *testing.T) {
	const window, limit = 4, 9
	fail := false
	reached := 0
	app := fiber.New()
	app.Use(New(Config{Max: limit, Expiration: window * time.Second, LimiterMiddleware: SlidingWindow{},
		SkipFailedRequests: true, KeyGenerator: func(fiber.Ctx) string { return "k" }}))
	app.Get("/", func(c fiber.Ctx) error {
		if fail {
			return c.SendStatus(fiber.StatusBadRequest)
		}
		reached++
		return c.SendStatus(fiber.StatusOK)
	})
	h := app.Handler()
	do := func() int {
		ctx := &fasthttp.RequestCtx{}
		ctx.Request.Header.SetMethod(fiber.MethodGet)
		ctx.Request.SetRequestURI("/")
		h(ctx)
		return ctx.Response.StatusCode()
	}

	// start at the beginning of a clock second
	for s := utils.Timestamp(); utils.Timestamp() == s; {
		time.Sleep(5 * time.Millisecond)
	}
	start := utils.Timestamp()
	for i := 0; i < limit-1; i++ {
		do() // 8 hits in window 1 = [start, start+4)
	}
	fail = true
	if st := do(); st != fiber.StatusBadRequest { // 9th hit fails: skip section -> 8 hits again, entry rewritten
		t.Fatalf("setup: failing request answered %d", st)
	}
	fail = false
	if utils.Timestamp() != start {
		t.Skip("clock second passed while filling window 1")
	}
	if reached != limit-1 {
		t.Fatalf("setup: %d requests reached the handler in window 1", reached)
	}

	// first second of window 2
	for utils.Timestamp() < start+window {
		time.Sleep(5 * time.Millisecond)
	}
	reached = 0
	for i := 0; i < limit; i++ {
		do()
	}
	if utils.Timestamp() > start+window+1 {
		t.Skip("too slow: more than one second into window 2")
	}
	if reached > 3 {
		t.Fatalf("sliding window, Max %d: window 1 had %d hits; in the first second of window 2 (they weigh >= 6) %d requests reached the handler",
			limit, limit-1, reached)
	}
}
