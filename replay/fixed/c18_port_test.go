package client

import (
	"testing"

	"github.com/valyala/fasthttp"
)

// C18 / Set atcall filed-where-get-looks, parseCookiesFromResp post filed-where-get-looks.
// Get/dumpCookiesToReq look a URL's cookies up under the host WITHOUT the port, Set and parseCookiesFromResp
// file them under uri.Host() WITH the port: cookies of a server on an explicit port are never sent back.
func TestFVCKnownC18Port(t *testing.T) {
	u := fasthttp.AcquireURI()
	if err := u.Parse(nil, []byte("http://example.com:8080/")); err != nil {
		t.Fatal(err)
	}

	jar := &CookieJar{}
	c := &fasthttp.Cookie{}
	c.SetKey("k")
	c.SetValue("v")
	jar.Set(u, c)
	if got := jar.Get(u); len(got) != 1 {
		t.Errorf("Set(%s, k=v) then Get(%s): %d cookies, want 1", u.FullURI(), u.FullURI(), len(got))
	}

	// the same through a response: Set-Cookie received from example.com:8080 must go out with the next request to it
	jar2 := &CookieJar{}
	resp := fasthttp.AcquireResponse()
	resp.Header.SetCookie(c)
	jar2.parseCookiesFromResp(u.Host(), u.Path(), resp)
	req := fasthttp.AcquireRequest()
	req.SetRequestURI("http://example.com:8080/")
	jar2.dumpCookiesToReq(req)
	if v := string(req.Header.Cookie("k")); v != "v" {
		t.Errorf("cookie k=v set by %s is not sent with the next request to it (Cookie k = %q)", u.Host(), v)
	}
}
