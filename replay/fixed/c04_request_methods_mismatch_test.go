// place in: .
package fiber

import (
	"fmt"
	"io"
	"net/http/httptest"
	"testing"
)

// C04-a: a parent with more RequestMethods than the mounted sub-app answers like the twin in which
// the sub-app's routes are registered through a group.
func TestFVCTriageC04a(t *testing.T) {
	methods := append(append([]string{}, DefaultMethods...), "PURGE")
	h := func(c Ctx) error { return c.SendString("h:" + c.Method() + ":" + c.Path()) }
	mw := func(c Ctx) error { c.Set("X-Mw", "1"); return c.Next() }

	mounted := New(Config{RequestMethods: methods})
	sub := New()
	sub.Use(mw)
	sub.Get("/x", h)
	mounted.Use("/s", sub)
	mounted.Add([]string{"PURGE"}, "/s/p", h)

	twin := New(Config{RequestMethods: methods})
	g := twin.Group("/s")
	g.Use(mw)
	g.Get("/x", h)
	twin.Add([]string{"PURGE"}, "/s/p", h)

	run := func(app *App, method, path string) (out string) {
		defer func() {
			if r := recover(); r != nil {
				out = fmt.Sprintf("panic: %v", r)
			}
		}()
		resp, err := app.Test(httptest.NewRequest(method, path, nil))
		if err != nil {
			return "error: " + err.Error()
		}
		body, _ := io.ReadAll(resp.Body)
		return fmt.Sprintf("%d %q mw=%s", resp.StatusCode, body, resp.Header.Get("X-Mw"))
	}
	for _, rq := range [][2]string{{MethodGet, "/s/x"}, {MethodPost, "/s/x"}, {"PURGE", "/s/p"}, {"PURGE", "/s/x"}, {MethodGet, "/zzz"}} {
		got, want := run(mounted, rq[0], rq[1]), run(twin, rq[0], rq[1])
		if got != want {
			t.Errorf("%s %s: mounted app: %s; grouped twin: %s", rq[0], rq[1], got, want)
		}
	}
}
