// place in: middleware/session
package session

// Replay for property C15: "data of different sessions never mix, in the middleware and the store API alike" /
// "sessionPool / dataPool / middlewarePool: recycled objects".
// The session middleware registers its pooled *Middleware object on the context (c.Locals) and hands the object back
// to middlewarePool when it returns - but leaves it registered. For the rest of the request (everything a middleware
// registered BEFORE session.New() does after c.Next(): access logs, metrics, audit trails reading the session)
// session.FromContext(c) returns an object that is in the pool: its Session is nil (any use panics), and once another
// request has taken it from the pool it is that request's session.

import (
	"testing"

	"github.com/gofiber/fiber/v3"
	"github.com/valyala/fasthttp"
)

func TestFVCReplayC15ReleasedMiddlewareStaysOnContext(t *testing.T) {
	handler, _ := NewWithStore()
	app := fiber.New()
	var stale *Middleware
	var panicked any
	app.Use(func(c fiber.Ctx) error { // e.g. an access logger that wants the session's user
		err := c.Next()
		if c.Path() == "/a" {
			if m := FromContext(c); m != nil {
				stale = m
				func() {
					defer func() { panicked = recover() }()
					_ = m.Get("user")
				}()
			}
		}
		return err
	})
	app.Use(handler)
	app.Get("/a", func(c fiber.Ctx) error { FromContext(c).Set("user", "alice"); return nil })
	var sameObject bool
	var seenThroughStale any
	app.Get("/b", func(c fiber.Ctx) error {
		m := FromContext(c)
		m.Set("user", "bob")
		if stale != nil {
			sameObject = m == stale
			seenThroughStale = stale.Get("user") // what request /a's logger would read now
		}
		return nil
	})
	h := app.Handler()
	serve := func(path string) {
		fctx := &fasthttp.RequestCtx{}
		fctx.Request.Header.SetMethod(fiber.MethodGet)
		fctx.Request.SetRequestURI(path)
		h(fctx)
	}
	serve("/a")
	if stale != nil {
		t.Errorf("after the session middleware returned, FromContext still yields the *Middleware it has released to the pool (%p); using it: panic=%v", stale, panicked)
	}
	serve("/b") // a later (in production: concurrent) request gets the pooled object
	if sameObject {
		t.Errorf("the object request /a still holds is now the middleware of request /b: through it /a reads user=%v", seenThroughStale)
	}
}
