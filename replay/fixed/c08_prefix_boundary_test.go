package fiber

// Replay of the counterexample to (*App).ErrorHandler/inv:loop1.preserve:best-is-scoped#4 (property C08):
// an error is delivered to a sub-app's handler only if the sub-app's mount prefix contains the request
// path on a segment boundary, otherwise to the root application's handler.
// Counterexample: one mount "/api" with its own ErrorHandler, request path "/apix/y" (a route of the
// ROOT app): strings.HasPrefix("/apix/y", "/api") holds, so the error of the root app's route is
// delivered to the handler of the sub-app (deterministically).

import (
	"errors"
	"net/http/httptest"
	"testing"
)

func TestFVCKnownC08PrefixBoundary(t *testing.T) {
	got := ""
	api := New(Config{ErrorHandler: func(c Ctx, _ error) error {
		got = "api"
		return c.SendStatus(StatusTeapot)
	}})
	app := New(Config{ErrorHandler: func(c Ctx, _ error) error {
		got = "root"
		return c.SendStatus(StatusTeapot)
	}})
	app.Use("/api", api)
	app.Get("/apix/y", func(Ctx) error { return errors.New("boom") })

	if _, err := app.Test(httptest.NewRequest(MethodGet, "/apix/y", nil)); err != nil {
		t.Fatal(err)
	}
	if got != "root" {
		t.Fatalf("error of the root route /apix/y was delivered to the %q handler (mount /api does not contain /apix/y)", got)
	}
}
