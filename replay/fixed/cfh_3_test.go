// place in: client
package client

import (
	"net"
	"testing"

	"github.com/gofiber/fiber/v3"
	"github.com/valyala/fasthttp/fasthttputil"
)

// C18 / (*FormData).Set post:key-has-exactly-this-value
// (fails once (*Args).Set is specified as fasthttp behaves: only the FIRST stored pair of the key is rewritten).
// SetFormData / SetFormDataWithMap are documented as "overriding any previously set value", but a form field that was
// given several values (AddFormData twice, AddFormDataWithMap) keeps all but the first of them: the body carries the
// new value AND the stale ones.
func TestFVCKnownC18SetFormDataKeepsStaleValues(t *testing.T) {
	ln := fasthttputil.NewInmemoryListener()
	app := fiber.New()
	app.Post("/", func(c fiber.Ctx) error {
		return c.SendString(string(c.Body()))
	})
	go func() { _ = app.Listener(ln, fiber.ListenConfig{DisableStartupMessage: true}) }() //nolint:errcheck // test server
	defer func() { _ = app.Shutdown() }()                                                 //nolint:errcheck // test server

	cl := New().SetDial(func(string) (net.Conn, error) { return ln.Dial() })

	req := AcquireRequest().SetClient(cl)
	req.AddFormData("f", "a").AddFormData("f", "b").SetFormData("f", "c")
	if got := req.FormData("f"); len(got) != 1 || got[0] != "c" {
		t.Errorf("Request.FormData(f) after AddFormData(a), AddFormData(b), SetFormData(c) = %q, want [c]", got)
	}
	resp, err := req.Post("http://example.com/")
	if err != nil {
		t.Fatal(err)
	}
	if got, want := resp.String(), "f=c"; got != want {
		t.Errorf("server received body %q, want %q", got, want)
	}
	resp.Close()

	req2 := AcquireRequest().SetClient(cl)
	req2.AddFormDataWithMap(map[string][]string{"g": {"a", "b"}}).SetFormDataWithMap(map[string]string{"g": "c"})
	if got := req2.FormData("g"); len(got) != 1 || got[0] != "c" {
		t.Errorf("Request.FormData(g) after AddFormDataWithMap(g: a, b), SetFormDataWithMap(g: c) = %q, want [c]", got)
	}
}
