// place in: middleware/cache
package cache

import (
	"net/http"
	"net/http/httptest"
	"reflect"
	"testing"
	"time"

	"github.com/gofiber/fiber/v3"
)

// C14-a: with StoreResponseHeaders a hit carries the same stored headers as the origin response - also
// when a header name occurs more than once (two X-Multi lines, two Set-Cookie lines).
func TestFVCTriageC14a(t *testing.T) {
	for _, st := range []struct {
		name    string
		storage fiber.Storage
	}{{"memory", nil}, {"storage", newTriageC14aStorage()}} {
		t.Run(st.name, func(t *testing.T) {
			app := fiber.New()
			app.Use(New(Config{Expiration: time.Hour, StoreResponseHeaders: true, Storage: st.storage}))
			calls := 0
			app.Get("/", func(c fiber.Ctx) error {
				calls++
				c.Response().Header.Add("X-Multi", "a")
				c.Response().Header.Add("X-Multi", "b")
				c.Response().Header.Add("X-Multi", "c")
				c.Set("X-Single", "s")
				c.Cookie(&fiber.Cookie{Name: "one", Value: "1"})
				c.Cookie(&fiber.Cookie{Name: "two", Value: "2"})
				return c.SendString("body")
			})

			get := func() http.Header {
				resp, err := app.Test(httptest.NewRequest(http.MethodGet, "/", nil))
				if err != nil {
					t.Fatal(err)
				}
				return resp.Header
			}

			origin := get()
			hit := get()
			if calls != 1 || hit.Get("X-Cache") != "hit" {
				t.Fatalf("second response is not a hit (handler calls %d, X-Cache %q)", calls, hit.Get("X-Cache"))
			}
			for _, name := range []string{"X-Multi", "Set-Cookie", "X-Single"} {
				if !reflect.DeepEqual(origin.Values(name), hit.Values(name)) {
					t.Errorf("%s: origin %q, hit %q", name, origin.Values(name), hit.Values(name))
				}
			}
			if want := []string{"a", "b", "c"}; !reflect.DeepEqual(origin.Values("X-Multi"), want) {
				t.Fatalf("origin X-Multi %q", origin.Values("X-Multi"))
			}
		})
	}
}

// minimal external storage (the cache serializes entries for it)
type triageC14aStorage struct{ m map[string][]byte }

func newTriageC14aStorage() *triageC14aStorage { return &triageC14aStorage{m: map[string][]byte{}} }

func (s *triageC14aStorage) Get(key string) ([]byte, error) { return s.m[key], nil }
func (s *triageC14aStorage) Set(key string, val []byte, _ time.Duration) error {
	s.m[key] = append([]byte(nil), val...)
	return nil
}
func (s *triageC14aStorage) Delete(key string) error { delete(s.m, key); return nil }
func (s *triageC14aStorage) Reset() error            { s.m = map[string][]byte{}; return nil }
func (s *triageC14aStorage) Close() error            { return nil }
