package fiber

// Replay (property C12, "only once"): the response that consumes a flash cookie has to expire it at the client.
// The cookie is issued for path "/" (fasthttp normalises the empty path). An expiry without a Path attribute is
// applied by an RFC 6265 client to the default path of the request that received it: for a follow-up request at
// /account/form that is /account, so the "/" cookie stays and the message is delivered again on the next request.

import (
	"net/http/httptest"
	"strings"
	"testing"
)

func TestFVCReplayC12ExpiryPath(t *testing.T) {
	app := New()
	app.Get("/account/form", func(c Ctx) error {
		return c.SendString(c.Redirect().Message("note").Value)
	})
	val, err := redirectionMsgs{{key: "note", value: "saved", level: 33}}.MarshalMsg(nil)
	if err != nil {
		t.Fatal(err)
	}
	req := httptest.NewRequest(MethodGet, "/account/form", nil)
	req.Header.Set("Cookie", FlashCookieName+"="+string(val))
	resp, err := app.Test(req)
	if err != nil {
		t.Fatal(err)
	}
	found := false
	for _, sc := range resp.Header.Values("Set-Cookie") {
		if !strings.HasPrefix(sc, FlashCookieName+"=") {
			continue
		}
		found = true
		low := strings.ToLower(sc)
		if !strings.Contains(low, "path=/;") && !strings.HasSuffix(low, "path=/") {
			t.Fatalf("the expiry of the consumed flash cookie does not name path=/ (a client applies it to /account and keeps the cookie): %q", sc)
		}
		if !strings.Contains(low, "expires=") && !strings.Contains(low, "max-age=0") {
			t.Fatalf("the consumed flash cookie is not expired: %q", sc)
		}
	}
	if !found {
		t.Fatal("the response that consumed the flash cookie carries no Set-Cookie for it")
	}
}
