package idempotency

// Replay of the counterexample to idempotency.New$1/post:hit-headers-same-as-original (property C17):
// a duplicate request must receive the same headers as the execution whose response was stored.
// Counterexample state: the response already carries a value for a stored header when the cached
// response is replayed (hdrCnt[h] > 0 at entry) -- e.g. any middleware in front of idempotency that
// sets a header before c.Next() (cors, helmet, requestid do). The header is captured with the first
// response and Add()ed again on replay, so the duplicate gets it twice.

import (
	"net/http/httptest"
	"reflect"
	"testing"

	"github.com/gofiber/fiber/v3"
)

func TestFVCKnownC17DupHeaders(t *testing.T) {
	app := fiber.New()
	app.Use(func(c fiber.Ctx) error {
		c.Set("Access-Control-Allow-Origin", "https://example.com")
		return c.Next()
	})
	app.Use(New())
	runs := 0
	app.Post("/", func(c fiber.Ctx) error {
		runs++
		return c.SendString("done")
	})
	var got [2][]string
	for i := range got {
		req := httptest.NewRequest(fiber.MethodPost, "/", nil)
		req.Header.Set("X-Idempotency-Key", "00000000-0000-0000-0000-000000000000")
		resp, err := app.Test(req)
		if err != nil {
			t.Fatal(err)
		}
		got[i] = resp.Header.Values("Access-Control-Allow-Origin")
	}
	if runs != 1 {
		t.Fatalf("handler ran %d times", runs)
	}
	if !reflect.DeepEqual(got[0], got[1]) {
		t.Fatalf("first answer carries Access-Control-Allow-Origin %q, the replayed answer %q", got[0], got[1])
	}
}
