// place in: middleware/cache
package cache

import (
	"net/http"
	"net/http/httptest"
	"sync"
	"testing"
	"time"

	"github.com/gofiber/fiber/v3"
)

// C14 (accounting): MaxBytes 10, bodies of 4 bytes, Expiration 1 s. /a is cached and then left alone until the
// storage has dropped it on its own (TTL). The expiry branch of the handler (deleteKey + heap.remove) never runs for
// such an entry - manager.get finds nothing - so its heap slot stays behind and the bytes stay counted. Storing /a
// again adds a SECOND slot for the key: 8 bytes are accounted for one 4-byte entry. Storing /b (4 bytes, 4 + 4 <= 10:
// nothing has to go) "does not fit", the orphaned slot of /a is evicted and deleteKey("/a") takes the fresh /a with it.
// Expected: miss miss hit hit; observed before the repair: miss miss MISS hit.
func TestFVCKnownC14ExpiredSlot(t *testing.T) {
	t.Run("memory", func(t *testing.T) { expiredSlotC14(t, nil) })
	t.Run("storage", func(t *testing.T) { expiredSlotC14(t, &ttlStorageC14{m: map[string]ttlValC14{}}) })
}

// minimal external storage that honours the TTL (as Redis & co. do)
type ttlValC14 struct {
	val []byte
	exp time.Time
}
type ttlStorageC14 struct {
	mu sync.Mutex
	m  map[string]ttlValC14
}

func (s *ttlStorageC14) Get(key string) ([]byte, error) {
	s.mu.Lock()
	defer s.mu.Unlock()
	v, ok := s.m[key]
	if !ok || (!v.exp.IsZero() && !time.Now().Before(v.exp)) {
		delete(s.m, key)
		return nil, nil
	}
	return v.val, nil
}

func (s *ttlStorageC14) Set(key string, val []byte, ttl time.Duration) error {
	s.mu.Lock()
	defer s.mu.Unlock()
	v := ttlValC14{val: append([]byte(nil), val...)}
	if ttl > 0 {
		v.exp = time.Now().Add(ttl)
	}
	s.m[key] = v
	return nil
}
func (s *ttlStorageC14) Delete(key string) error {
	s.mu.Lock()
	defer s.mu.Unlock()
	delete(s.m, key)
	return nil
}
func (s *ttlStorageC14) Reset() error {
	s.mu.Lock()
	s.m = map[string]ttlValC14{}
	s.mu.Unlock()
	return nil
}
func (s *ttlStorageC14) Close() error { return nil }

func expiredSlotC14(t *testing.T, storage fiber.Storage) {
	t.Helper()
	app := fiber.New()
	app.Use(New(Config{Expiration: time.Second, MaxBytes: 10, Storage: storage}))
	app.Get("/:name", func(c fiber.Ctx) error { return c.SendString("4444") })

	get := func(path string) string {
		resp, err := app.Test(httptest.NewRequest(http.MethodGet, path, nil))
		if err != nil {
			t.Fatal(err)
		}
		return resp.Header.Get("X-Cache")
	}

	if got := get("/a"); got != "miss" {
		t.Fatalf("first /a: %q", got)
	}
	time.Sleep(2500 * time.Millisecond) // the storage drops /a on its own (memory: gc / Get; external: TTL)
	if got := get("/a"); got != "miss" {
		t.Fatalf("/a after its expiry: %q, want miss", got)
	}
	if got := get("/b"); got != "miss" {
		t.Fatalf("first /b: %q", got)
	}
	// held: /a (4) + /b (4) = 8 <= 10: nothing had to be evicted
	if got := get("/a"); got != "hit" {
		t.Errorf("/a after storing /b: %q, want hit: 8 of 10 bytes are held, yet the fresh /a was evicted (the heap slot of the expired /a was left behind, counted, and its eviction deleted the key)", got)
	}
	if got := get("/b"); got != "hit" {
		t.Errorf("/b: %q, want hit", got)
	}
}
