// place in: client
package client

import (
	"strings"
	"testing"

	"github.com/gofiber/fiber/v3"
)

// C18-a: a Referer configured through the generic header setter must arrive, and a request without any
// configured referer must not carry a Referer header at all.
func TestFVCTriageC18a(t *testing.T) {
	app, dial, start := createHelperServer(t)
	app.Get("/", func(c fiber.Ctx) error {
		n := 0
		c.Request().Header.VisitAll(func(k, _ []byte) {
			if strings.EqualFold(string(k), "Referer") {
				n++
			}
		})
		return c.SendString(strings.Repeat("R", n) + "|" + c.Get("Referer"))
	})
	go start()

	cl := New().SetDial(dial)

	// 1. header setter
	resp, err := cl.R().SetHeader("Referer", "http://r.example/").Get("http://example.com")
	if err != nil {
		t.Fatal(err)
	}
	got := resp.String()
	resp.Close()
	if got != "R|http://r.example/" {
		t.Errorf("SetHeader(Referer, http://r.example/): server saw %q, want one Referer header with the configured value", got)
	}

	// 2. client-level header setter
	cl2 := New().SetDial(dial).SetHeader("Referer", "http://c.example/")
	resp, err = cl2.R().Get("http://example.com")
	if err != nil {
		t.Fatal(err)
	}
	got = resp.String()
	resp.Close()
	if got != "R|http://c.example/" {
		t.Errorf("Client.SetHeader(Referer, http://c.example/): server saw %q", got)
	}

	// 3. nothing configured: no Referer header on the wire
	resp, err = New().SetDial(dial).R().Get("http://example.com")
	if err != nil {
		t.Fatal(err)
	}
	got = resp.String()
	resp.Close()
	if got != "|" {
		t.Errorf("no referer configured: server saw %q, want no Referer header", got)
	}

	// 4. precedence stays: request-level SetReferer wins over client-level
	cl3 := New().SetDial(dial).SetReferer("http://client.example/")
	resp, err = cl3.R().SetReferer("http://req.example/").Get("http://example.com")
	if err != nil {
		t.Fatal(err)
	}
	got = resp.String()
	resp.Close()
	if got != "R|http://req.example/" {
		t.Errorf("SetReferer precedence: server saw %q", got)
	}
}
