package fiber

// Known finding for property C12 (obligations
// fiber.(*Redirect).parseAndClearFlashMessages/post:malformed-yields-none and
// .../pre:(*redirectionMsgs).UnmarshalMsg:zeroed-backing):
// "A cookie that is not a well-formed encoding yields no messages; requests without the cookie see none."
// The decoder re-slices the pooled backing array of c.flashMessages to the announced count BEFORE decoding,
// the decode error is ignored, and the element decoder only stores fields present in the input: the
// truncated cookie \x91 (and the well-formed-msgpack-but-empty \x91\x80) shows the flash message of the
// PREVIOUS request served by the same pooled context - to a different client.

import (
	"io"
	"net/http/httptest"
	"strings"
	"testing"
)

func TestFVCKnownC12Stale(t *testing.T) {
	app := New()
	app.Get("/redirect", func(c Ctx) error {
		return c.Redirect().With("secret", "s3cr3t", 33).To("/")
	})
	app.Get("/", func(c Ctx) error {
		var sb strings.Builder
		for _, m := range c.Redirect().Messages() {
			sb.WriteString(m.Key + "=" + m.Value + ";")
		}
		return c.SendString(sb.String())
	})

	// client A is redirected with a flash message ...
	resp, err := app.Test(httptest.NewRequest(MethodGet, "/redirect", nil))
	if err != nil {
		t.Fatal(err)
	}
	setCookie := resp.Header.Get("Set-Cookie")
	if !strings.HasPrefix(setCookie, "fiber_flash=") {
		t.Fatalf("no flash cookie issued: %q", setCookie)
	}
	value, _, _ := strings.Cut(strings.TrimPrefix(setCookie, "fiber_flash="), ";")

	// ... and follows the redirect presenting the cookie: it sees its message
	get := func(cookie string) string {
		req := httptest.NewRequest(MethodGet, "/", nil)
		if cookie != "" {
			req.Header.Set("Cookie", cookie)
		}
		resp, err := app.Test(req)
		if err != nil {
			t.Fatal(err)
		}
		body, _ := io.ReadAll(resp.Body)
		return string(body)
	}
	if got := get("fiber_flash=" + value); got != "secret=s3cr3t;" {
		t.Fatalf("set-up: client A did not get its own message: %q", got)
	}

	// client B never was redirected; it sends something that is not an encoding of any message list.
	// \x91 (array of 1, truncated) is rejected by the decoder: no messages at all.
	if got := get("fiber_flash=\x91"); got != "" {
		t.Fatalf("C12 violated: malformed cookie fiber_flash=%q yields messages %q (client A's flash message)", "\x91", got)
	}
	// \x91\x80 (array of one EMPTY map) is accepted by the lenient decoder as one message without fields:
	// whatever is delivered must come from the cookie, not from client A's request.
	if got := get("fiber_flash=\x91\x80"); strings.Contains(got, "secret") || strings.Contains(got, "s3cr3t") {
		t.Fatalf("C12 violated: cookie fiber_flash=%q yields %q (client A's flash message)", "\x91\x80", got)
	}
}
