// place in: client
package client

import (
	"testing"
)

// C18-d: "the resulting request is a deterministic function of the configuration": with the path
// parameters id=1 and idx=2 the URL /:idx has to come out the same on every send (and as /2: the
// placeholder :idx names the parameter idx).
func TestFVCTriageC18d(t *testing.T) {
	seen := map[string]int{}
	for i := 0; i < 400; i++ {
		c := New()
		req := AcquireRequest().SetClient(c).
			SetURL("http://example.com/:idx").
			SetPathParam("id", "1").
			SetPathParam("idx", "2")
		if err := parserRequestURL(c, req); err != nil {
			t.Fatal(err)
		}
		seen[string(req.RawRequest.URI().Path())]++
		ReleaseRequest(req)
	}
	if len(seen) != 1 {
		t.Errorf("same configuration, different requests: %v", seen)
	}
	if seen["/2"] != 400 {
		t.Errorf("/:idx with id=1, idx=2: want /2 every time, got %v", seen)
	}

	// same for client-level parameters
	seen = map[string]int{}
	for i := 0; i < 400; i++ {
		c := New().SetPathParam("id", "1").SetPathParam("idx", "2")
		req := AcquireRequest().SetClient(c).SetURL("http://example.com/:idx/:id")
		if err := parserRequestURL(c, req); err != nil {
			t.Fatal(err)
		}
		seen[string(req.RawRequest.URI().Path())]++
		ReleaseRequest(req)
	}
	if seen["/2/1"] != 400 {
		t.Errorf("client-level /:idx/:id with id=1, idx=2: want /2/1 every time, got %v", seen)
	}
}
