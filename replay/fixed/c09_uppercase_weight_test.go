// place in: .
package fiber

import (
	"testing"

	"github.com/valyala/fasthttp"
)

// C09-c: RFC 9110 5.6.6: parameter names are case-insensitive; 12.4.2: weight = OWS ";" OWS "q=" qvalue.
// "Q=0.5" is the weight, not a media-type parameter the offer has to carry.
func TestFVCTriageC09c(t *testing.T) {
	app := New()
	c := app.AcquireCtx(&fasthttp.RequestCtx{})
	defer app.ReleaseCtx(c)

	c.Request().Header.Set(HeaderAccept, "text/html;Q=0.5, text/plain;q=0.6")
	if got := c.Accepts("text/html"); got != "text/html" {
		t.Errorf(`Accept "text/html;Q=0.5, text/plain;q=0.6", offer text/html: got %q, want "text/html"`, got)
	}
	if got := c.Accepts("text/html", "text/plain"); got != "text/plain" {
		t.Errorf(`same header, offers text/html,text/plain: got %q, want "text/plain" (0.6 > 0.5)`, got)
	}

	c.Request().Header.Set(HeaderAccept, "text/html;Q=0, text/plain")
	if got := c.Accepts("text/html"); got != "" {
		t.Errorf(`Accept "text/html;Q=0, text/plain", offer text/html: got %q, want ""`, got)
	}

	c.Request().Header.Set(HeaderAccept, "text/html;level=1;Q=0.5, text/plain;q=0.6")
	if got := c.Accepts("text/html;level=1", "text/plain"); got != "text/plain" {
		t.Errorf(`Accept "text/html;level=1;Q=0.5, text/plain;q=0.6": got %q, want "text/plain"`, got)
	}
}
