// place in: middleware/limiter
package limiter

import (
	"net/http"
	"net/http/httptest"
	"sync/atomic"
	"testing"
	"time"

	"github.com/gofiber/fiber/v3"
	"github.com/gofiber/utils/v2"
)

// C13-a: fixed window, Max 1, SkipFailedRequests. Request A is admitted in window 1, is still running
// when the window rolls over and then answers 400. Its un-count must not take away the hit of request B,
// which was counted in window 2: window 2 may admit ONE counted (successful) request, not two.
// (The clock of the limiter has a one second resolution and cannot be set from here: the test runs ~3 s.)
func TestFVCTriageC13a(t *testing.T) {
	const expiration = 2 * time.Second

	release := make(chan struct{})
	started := make(chan struct{})
	var okHits atomic.Int32

	app := fiber.New()
	app.Use(New(Config{
		Max:                1,
		Expiration:         expiration,
		SkipFailedRequests: true,
		LimiterMiddleware:  FixedWindow{},
		KeyGenerator:       func(fiber.Ctx) string { return "k" },
	}))
	app.Get("/slow-fail", func(c fiber.Ctx) error {
		close(started)
		<-release
		return c.SendStatus(fiber.StatusBadRequest)
	})
	app.Get("/ok", func(c fiber.Ctx) error {
		okHits.Add(1)
		return c.SendStatus(fiber.StatusOK)
	})

	do := func(path string) int {
		resp, err := app.Test(httptest.NewRequest(http.MethodGet, path, nil), fiber.TestConfig{Timeout: 0})
		if err != nil {
			t.Error(err)
			return 0
		}
		return resp.StatusCode
	}
	waitFor := func(ts uint32) {
		for utils.Timestamp() < ts {
			time.Sleep(5 * time.Millisecond)
		}
	}

	// start right after a tick of the limiter's clock
	waitFor(utils.Timestamp() + 1)
	t0 := utils.Timestamp()

	// A: admitted in window 1 [t0, t0+2), blocks
	aDone := make(chan int, 1)
	go func() { aDone <- do("/slow-fail") }()
	<-started

	// window 1 is over
	waitFor(t0 + 2)
	tB := utils.Timestamp()

	// B: first request of window 2, counted (200)
	if got := do("/ok"); got != fiber.StatusOK {
		t.Fatalf("B (first request of the new window): status %d, want 200", got)
	}

	// A ends with 400 now: SkipFailedRequests un-counts A - but A was counted in window 1
	close(release)
	if got := <-aDone; got != fiber.StatusBadRequest {
		t.Fatalf("A: status %d, want 400", got)
	}

	// C: window 2 already holds B's hit, Max is 1
	got := do("/ok")
	if utils.Timestamp() >= tB+2 {
		t.Skip("window 2 ended before C was sent (machine too slow)")
	}
	if got != fiber.StatusTooManyRequests {
		t.Errorf("C: status %d, want 429: window 2 (Max 1) admitted %d counted requests", got, okHits.Load())
	}
}
