package fiber

// Replay of the counterexample to (*DefaultCtx).Method/pre:(*App).method:index-in-method-table (property C07:
// no request makes the server panic, whatever context accessor a handler - here the application's
// ErrorHandler - calls). Counterexample state: c.methodInt == -1, i.e. the request method is not one of the
// configured methods. serverErrorHandler hands such a context to the ErrorHandler: the request
// "FOO / HTTP/1.1" with a body larger than BodyLimit is rejected by fasthttp (ErrBodyTooLarge), and
// c.Method() (as well as c.Route()) evaluates config.RequestMethods[-1]. fasthttp does not recover handler
// panics: in production the whole process dies. (The recover below only turns the crash into a test failure.)

import (
	"bufio"
	"net/http"
	"strings"
	"testing"
	"time"

	"github.com/valyala/fasthttp/fasthttputil"
)

func TestFVCKnownC07ErrHandlerMethod(t *testing.T) {
	panicked := make(chan any, 1)
	app := New(Config{
		BodyLimit: 1000,
		ErrorHandler: func(c Ctx, err error) (ret error) {
			defer func() {
				if r := recover(); r != nil {
					panicked <- r
					ret = c.Status(StatusInternalServerError).SendString("recovered")
				}
			}()
			// what a logging error handler does
			return c.Status(StatusRequestEntityTooLarge).SendString(c.Method() + " " + err.Error())
		},
	})
	app.Post("/", func(c Ctx) error { return c.SendString("ok") })

	ln := fasthttputil.NewInmemoryListener()
	go func() { _ = app.Listener(ln, ListenConfig{DisableStartupMessage: true}) }()
	defer func() { _ = app.Shutdown() }()

	conn, err := ln.Dial()
	if err != nil {
		t.Fatal(err)
	}
	defer conn.Close() //nolint:errcheck // test
	raw := "FOO / HTTP/1.1\r\nHost: x\r\nContent-Length: 100000\r\n\r\n" + strings.Repeat("a", 100000)
	go func() { _, _ = conn.Write([]byte(raw)) }()
	_ = conn.SetReadDeadline(time.Now().Add(5 * time.Second))
	resp, err := http.ReadResponse(bufio.NewReader(conn), nil)

	select {
	case r := <-panicked:
		t.Fatalf("c.Method() inside the ErrorHandler panicked for an over-long request with method FOO: %v", r)
	default:
	}
	if err != nil {
		t.Fatalf("no well-formed response: %v", err)
	}
	if resp.StatusCode != StatusRequestEntityTooLarge {
		t.Fatalf("status %d, want the mapped 413", resp.StatusCode)
	}
}
