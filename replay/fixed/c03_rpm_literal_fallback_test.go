package fiber

// Replay of the failing obligation fiber.RoutePatternMatch/post:parser-no-is-final (property C03: RoutePatternMatch
// answers exactly as dispatching the path to an application that holds only that route).
// For a parameterised pattern (*Route).match returns the parser's answer; RoutePatternMatch, when the parser says
// no, still compares the path with the pattern TEXT and says yes when they are equal.
// Counterexample: pattern "/user/:id<int>", path "/user/:id<int>": the value ":id<int>" is not an int, dispatch 404.

import (
	"testing"

	"github.com/valyala/fasthttp"
)

func TestFVCKnownC03RPMLiteralFallback(t *testing.T) {
	const pattern = "/user/:id<int>"
	dispatch := func(path string) bool {
		app := New()
		app.Get(pattern, func(c Ctx) error { return c.SendStatus(StatusOK) })
		h := app.Handler()
		fctx := &fasthttp.RequestCtx{}
		fctx.Request.Header.SetMethod(MethodGet)
		fctx.Request.SetRequestURI(path)
		h(fctx)
		return fctx.Response.StatusCode() == StatusOK
	}
	if !dispatch("/user/12") || !RoutePatternMatch("/user/12", pattern) {
		t.Fatalf("setup: /user/12 must match %s both ways", pattern)
	}
	d := dispatch(pattern)
	if r := RoutePatternMatch(pattern, pattern); r != d {
		t.Errorf("RoutePatternMatch(%q, %q) == %v, dispatch of GET %s to Get(%q) matched: %v", pattern, pattern, r, pattern, pattern, d)
	}
}
