package fiber

// Replay of the failing obligations fiber.RoutePatternMatch/atcall:(*routeParser).getMatch:path-trimmed-when-pattern-trimmed
// and of the stand-in findings rpm-trailing-slash / rpm-no-unescape (property C03: RoutePatternMatch answers
// exactly as dispatching the path to an application that holds only that route).
// RoutePatternMatch normalises the PATTERN as registration does (case folding, trailing slashes) but not the PATH
// as the request context does: trailing slashes of the path are kept without StrictRouting, and UnescapePath is
// never consulted.

import (
	"testing"

	"github.com/valyala/fasthttp"
)

func fvcC03Dispatch(cfg Config, pattern, path string) bool {
	app := New(cfg)
	app.Get(pattern, func(c Ctx) error { return c.SendStatus(StatusOK) })
	h := app.Handler()
	fctx := &fasthttp.RequestCtx{}
	fctx.Request.Header.SetMethod(MethodGet)
	fctx.Request.SetRequestURI(path)
	h(fctx)
	return fctx.Response.StatusCode() == StatusOK
}

func TestFVCKnownC03RPMPathNormalisation(t *testing.T) {
	for _, tc := range []struct {
		cfg           Config
		path, pattern string
	}{
		{Config{}, "/foo/", "/foo"},
		{Config{}, "/user/alice/", "/user/:name"},
		{Config{UnescapePath: true}, "/%61", "/a"},
		{Config{UnescapePath: true, StrictRouting: true}, "/user/%41", "/user/:name"},
	} {
		d := fvcC03Dispatch(tc.cfg, tc.pattern, tc.path)
		if r := RoutePatternMatch(tc.path, tc.pattern, tc.cfg); r != d {
			t.Errorf("RoutePatternMatch(%q, %q, StrictRouting:%v UnescapePath:%v) == %v, dispatch of GET %s to Get(%q) matched: %v",
				tc.path, tc.pattern, tc.cfg.StrictRouting, tc.cfg.UnescapePath, r, tc.path, tc.pattern, d)
		}
	}
}
