// place in: .
package fiber

import (
	"errors"
	"io"
	"net/http/httptest"
	"testing"
)

// C08-b: a sub-app mounted under a parameterised prefix: the errors of its routes belong to its
// own error handler.
func TestFVCTriageC08b(t *testing.T) {
	root := New(Config{ErrorHandler: func(c Ctx, _ error) error { return c.Status(500).SendString("root") }})
	sub := New(Config{ErrorHandler: func(c Ctx, _ error) error { return c.Status(500).SendString("sub") }})
	ran := false
	sub.Get("/x", func(c Ctx) error {
		ran = c.Params("tenant") == "acme"
		return errors.New("boom")
	})
	root.Use("/t/:tenant", sub)
	root.Get("/other", func(Ctx) error { return errors.New("boom") })

	get := func(path string) string {
		resp, err := root.Test(httptest.NewRequest(MethodGet, path, nil))
		if err != nil {
			t.Fatal(err)
		}
		body, _ := io.ReadAll(resp.Body)
		return string(body)
	}
	if got := get("/other"); got != "root" {
		t.Errorf("control: /other handled by %q, want root", got)
	}
	got := get("/t/acme/x")
	if !ran {
		t.Fatalf("set-up: the sub-app's route did not run for /t/acme/x")
	}
	if got != "sub" {
		t.Errorf("error of the sub-app's route /t/acme/x (mounted at /t/:tenant) was handled by %q, want sub", got)
	}
}
