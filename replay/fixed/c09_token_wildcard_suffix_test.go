package fiber

// Replay of the counterexample to fiber.acceptsOffer/post:only-wildcard-or-named-offer#2 (property C09):
// only the range "*" accepts every offer. Counterexample: Accept-Charset: x* (a token that merely ends
// in '*'), offer "utf-8": acceptsOffer treats every range whose last byte is '*' as the wildcard.

import (
	"testing"

	"github.com/valyala/fasthttp"
)

func TestFVCKnownC09TokenWildcardSuffix(t *testing.T) {
	app := New()
	c := app.AcquireCtx(&fasthttp.RequestCtx{})
	defer app.ReleaseCtx(c)

	c.Request().Header.Set(HeaderAcceptCharset, "*")
	if got := c.AcceptsCharsets("utf-8"); got != "utf-8" {
		t.Fatalf(`Accept-Charset: *: AcceptsCharsets("utf-8") = %q, want "utf-8"`, got)
	}
	c.Request().Header.Set(HeaderAcceptCharset, "x*")
	if got := c.AcceptsCharsets("utf-8"); got != "" {
		t.Fatalf(`Accept-Charset: x*: AcceptsCharsets("utf-8") = %q, want "" (the range x* does not name utf-8 and is not the wildcard)`, got)
	}
}
