// place in: .
package fiber

// Replay for property C05: "view bindings ... of one request never surface in another".
// Render wrote the request's view bindings (and, with PassLocalsToViews, its locals) into the Map the handler passed as
// bind. A Map the application shares between requests on purpose (a package-level page description) then carried the
// first request's binding into every later request that did not rebind it - and concurrent requests wrote the same Go
// map without synchronisation.

import (
	"testing"

	"github.com/valyala/fasthttp"
)

func TestFVCReplayC05RenderSharedMap(t *testing.T) {
	page := Map{"Title": "x"}
	app := New()
	app.Get("/", func(c Ctx) error {
		if u := c.Query("user"); u != "" {
			if err := c.ViewBind(Map{"User": u}); err != nil {
				return err
			}
		}
		return c.Render("./.github/testdata/hello_world.tmpl", page)
	})
	h := app.Handler()
	serve := func(uri string) {
		fctx := &fasthttp.RequestCtx{}
		fctx.Request.Header.SetMethod(MethodGet)
		fctx.Request.SetRequestURI(uri)
		h(fctx)
		if fctx.Response.StatusCode() != StatusOK {
			t.Fatalf("%s: status %d %s", uri, fctx.Response.StatusCode(), fctx.Response.Body())
		}
	}
	serve("/?user=alice")
	if v, ok := page["User"]; ok {
		t.Errorf("after the request of alice the application's shared Map holds User=%v: the next request that renders it shows alice's binding", v)
	}
	serve("/")
	if len(page) != 1 {
		t.Errorf("shared Map changed by rendering: %v", page)
	}
}
