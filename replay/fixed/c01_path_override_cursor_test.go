// place in: .
package fiber

// Replay for property C01, obligation (*DefaultCtx).Path/post:scan-position-follows-the-override.
// Property: "after a handler overrides the path or method (as rewrite and method-override middleware do) the rest
// of the chain is the later-registered routes matching the new path and method".
// The scan cursor c.indexRoute is an index into the bucket of the lookup index selected by the OLD detection path.
// Path(new) recomputes the bucket key (treePathHash) but keeps the cursor, so Next() continues at the old index in
// the NEW bucket: later-registered routes that sit at a lower or equal index there are skipped (case 1), and
// earlier-registered ones at a higher index are run although they were registered before the overriding
// middleware (case 2).

import (
	"testing"

	"github.com/valyala/fasthttp"
)

func TestFVCReplayC01PathOverrideScanPosition(t *testing.T) {
	serve := func(app *App, method, path string) (int, string) {
		h := app.Handler()
		fctx := &fasthttp.RequestCtx{}
		fctx.Request.Header.SetMethod(method)
		fctx.Request.SetRequestURI(path)
		h(fctx)
		return fctx.Response.StatusCode(), string(fctx.Response.Body())
	}
	rewriteTo := func(from, to string) Handler {
		return func(c Ctx) error {
			if c.Path() == from {
				c.Path(to)
			}
			return c.Next()
		}
	}

	// case 1: a later-registered route matching the new path is skipped (404 instead of 200)
	{
		app := New()
		app.Get("/old/x", func(c Ctx) error { return c.Next() })
		app.Use(rewriteTo("/old/x", "/new"))
		app.Get("/new", func(c Ctx) error { return c.SendString("new") })
		if st, body := serve(app, MethodGet, "/new"); st != StatusOK || body != "new" {
			t.Fatalf("setup: GET /new: %d %q", st, body)
		}
		if st, body := serve(app, MethodGet, "/old/x"); st != StatusOK || body != "new" {
			t.Errorf("case 1: GET /old/x rewritten to /new: got %d %q, want 200 \"new\" (the route registered after the rewriting middleware)", st, body)
		}
	}

	// case 2: a route registered BEFORE the overriding middleware runs after it (200 instead of 404)
	{
		build := func() *App {
			app := New()
			app.Get("/new", func(c Ctx) error { return c.SendString("e1") })
			app.Get("/new/:id?", func(c Ctx) error { return c.SendString("e2") })
			app.Use(func(c Ctx) error {
				if c.Path() == "/old" || c.Path() == "/nexx" {
					c.Path("/new")
				}
				return c.Next()
			})
			return app
		}
		// reference: a request whose own bucket is already the bucket of /new ("/nexx" shares the three bytes "/ne"):
		// no route registered after the middleware matches /new, so the answer is 404
		if st, body := serve(build(), MethodGet, "/nexx"); st != StatusNotFound {
			t.Fatalf("reference: GET /nexx rewritten to /new: %d %q, want 404", st, body)
		}
		if st, body := serve(build(), MethodGet, "/old"); st != StatusNotFound {
			t.Errorf("case 2: GET /old rewritten to /new: got %d %q, want 404 as for GET /nexx (only routes registered BEFORE the middleware match /new)", st, body)
		}
	}
}
