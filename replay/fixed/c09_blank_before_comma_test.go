// place in: .
package fiber

import (
	"testing"

	"github.com/valyala/fasthttp"
)

// C09-a: optional whitespace between a weight and the following comma
// (RFC 9110 5.6.1: #element = element *( OWS "," OWS element )) must not make the weight disappear.
func TestFVCTriageC09a(t *testing.T) {
	app := New()
	c := app.AcquireCtx(&fasthttp.RequestCtx{})
	defer app.ReleaseCtx(c)

	c.Request().Header.Set(HeaderAccept, "text/html;q=0.1 , text/plain;q=0.5")
	if got := c.Accepts("text/html", "text/plain"); got != "text/plain" {
		t.Errorf(`Accept "text/html;q=0.1 , text/plain;q=0.5", offers text/html,text/plain: got %q, want "text/plain"`, got)
	}

	c.Request().Header.Set(HeaderAccept, "text/html;q=0 , text/plain")
	if got := c.Accepts("text/html"); got != "" {
		t.Errorf(`Accept "text/html;q=0 , text/plain", offer text/html: got %q, want "" (q=0 never selects)`, got)
	}

	// the same for the token headers
	c.Request().Header.Set(HeaderAcceptEncoding, "gzip;q=0 , br")
	if got := c.AcceptsEncodings("gzip"); got != "" {
		t.Errorf(`Accept-Encoding "gzip;q=0 , br", offer gzip: got %q, want ""`, got)
	}

	// control: without the blank the weights are honoured
	c.Request().Header.Set(HeaderAccept, "text/html;q=0.1, text/plain;q=0.5")
	if got := c.Accepts("text/html", "text/plain"); got != "text/plain" {
		t.Errorf("control: got %q", got)
	}
}
