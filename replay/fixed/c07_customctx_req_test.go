// place in: .
package fiber

// Replay for property C07: "every context accessor or response helper a handler then calls ... the server neither
// panics ..." over "{default context, custom context via NewCtxFunc, ...}".
// A custom context built the documented way (docs/api/app.md, ctx_test.go: `DefaultCtx: *fiber.NewDefaultCtx(app)`)
// COPIES the DefaultCtx; the copy's req/res helpers still point to the orphaned original, whose fasthttp field is never
// set: c.Req().Get(...) / c.Res().Set(...) in a handler dereference nil and the panic takes the server down.

import (
	"testing"

	"github.com/valyala/fasthttp"
)

type replayC07CustomCtx struct {
	DefaultCtx
}

func TestFVCReplayC07CustomCtxReq(t *testing.T) {
	app := New()
	app.NewCtxFunc(func(app *App) CustomCtx {
		return &replayC07CustomCtx{DefaultCtx: *NewDefaultCtx(app)}
	})
	app.Get("/", func(c Ctx) error {
		c.Res().Set("X-B", "1")
		return c.SendString(c.Req().Get("X-A"))
	})
	fctx := &fasthttp.RequestCtx{}
	fctx.Request.Header.SetMethod(MethodGet)
	fctx.Request.Header.Set("X-A", "hello")
	fctx.Request.SetRequestURI("/")
	func() {
		defer func() {
			if r := recover(); r != nil {
				t.Errorf("handler calling c.Req().Get on the documented custom context panics: %v", r)
			}
		}()
		app.Handler()(fctx)
	}()
	if got := string(fctx.Response.Body()); got != "hello" {
		t.Errorf("c.Req().Get(\"X-A\") = %q, want \"hello\"", got)
	}
	if got := string(fctx.Response.Header.Peek("X-B")); got != "1" {
		t.Errorf("c.Res().Set did not reach the response: X-B = %q", got)
	}
}
