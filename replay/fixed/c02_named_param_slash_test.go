package fiber

// Replay for fiber.findParamLen/post:named-no-slash (property C02): a named parameter never spans a '/'.

import (
	"net/http/httptest"
	"strings"
	"testing"
)

func TestFVCReplayC02NamedParamSlash(t *testing.T) {
	for _, tc := range []struct {
		cfg           Config
		pattern, path string
	}{
		{Config{}, "/:a-:b", "/x/y-z"},
		{Config{UnescapePath: true}, "/:a:b", "/%2Fx"},
	} {
		app := New(tc.cfg)
		ran := false
		var a string
		app.Get(tc.pattern, func(c Ctx) error { ran, a = true, c.Params("a"); return nil })
		if _, err := app.Test(httptest.NewRequest("GET", tc.path, nil)); err != nil {
			t.Fatal(err)
		}
		if ran && strings.Contains(a, "/") {
			t.Fatalf("%s on %s: handler ran with a=%q (spans a slash)", tc.path, tc.pattern, a)
		}
	}
}
