package fiber

import (
	"fmt"
	"testing"

	"github.com/valyala/fasthttp"
)

// C04 / (*App).addPrefixToRoute: params-are-those-of-the-prefixed-path, fields-as-registered-under-prefix.
// A sub-application mounted under a parameterised prefix must answer like the same routes registered through
// Group(prefix). addPrefixToRoute re-parses the prefixed path (route.routeParser) but keeps the sub-application's
// Route.Params: the parameter of the prefix is never delivered, the route's own parameter receives the value of
// the prefix parameter, and a parameter-free route below the prefix never matches (Route.match takes the
// literal-comparison branch because len(r.Params) == 0).
func TestFVCKnownC04ParamPrefix(t *testing.T) {
	build := func(mounted bool) fasthttp.RequestHandler {
		h := func(c Ctx) error { return c.SendString("p=" + c.Params("p") + " id=" + c.Params("id")) }
		app := New()
		if mounted {
			sub := New()
			sub.Get("/", h)
			sub.Get("/:id", h)
			app.Use("/:p", sub)
		} else {
			g := app.Group("/:p")
			g.Get("/", h)
			g.Get("/:id", h)
		}
		return app.Handler()
	}
	observe := func(h fasthttp.RequestHandler, path string) string {
		var fctx fasthttp.RequestCtx
		fctx.Request.Header.SetMethod(MethodGet)
		fctx.Request.SetRequestURI(path)
		h(&fctx)
		if fctx.Response.StatusCode() != StatusOK {
			return fmt.Sprintf("status %d", fctx.Response.StatusCode())
		}
		return string(fctx.Response.Body())
	}
	mounted, twin := build(true), build(false)
	for _, path := range []string{"/a", "/a/1"} {
		if m, g := observe(mounted, path), observe(twin, path); m != g {
			t.Errorf("GET %s: mounted under \"/:p\" answers %q, registered through Group(\"/:p\") answers %q", path, m, g)
		}
	}
}
