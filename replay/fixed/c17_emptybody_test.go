package idempotency

// Replay of the counterexample to idempotency.New$1/post:hit-body#2 (property C17): a duplicate
// request must receive the same body as the execution whose response was stored.
// Counterexample state: the stored body is empty and the response already has a body when the cached
// response is replayed (sentBody != "" at entry). The replay skips c.Send for an empty stored body, so
// the body written before idempotency ran is what the duplicate receives.

import (
	"io"
	"net/http/httptest"
	"testing"

	"github.com/gofiber/fiber/v3"
)

func TestFVCKnownC17EmptyBody(t *testing.T) {
	app := fiber.New()
	app.Use(func(c fiber.Ctx) error {
		// a default body that handlers are expected to replace
		if err := c.SendString("no content"); err != nil {
			return err
		}
		return c.Next()
	})
	app.Use(New())
	runs := 0
	app.Post("/", func(c fiber.Ctx) error {
		runs++
		return c.Status(fiber.StatusCreated).Send(nil) // empty body
	})
	var got [2]string
	for i := range got {
		req := httptest.NewRequest(fiber.MethodPost, "/", nil)
		req.Header.Set("X-Idempotency-Key", "00000000-0000-0000-0000-000000000000")
		resp, err := app.Test(req)
		if err != nil {
			t.Fatal(err)
		}
		b, err := io.ReadAll(resp.Body)
		if err != nil {
			t.Fatal(err)
		}
		got[i] = string(b)
	}
	if runs != 1 {
		t.Fatalf("handler ran %d times", runs)
	}
	if got[0] != got[1] {
		t.Fatalf("first answer has body %q, the replayed answer %q", got[0], got[1])
	}
}
