package limiter

// Known finding, property C13, obligation limiter.(FixedWindow).New$1/lockinv:entry-wf#2:
// with SkipFailedRequests, a request whose entry expires (TTL) while its handler runs decrements a fresh
// zero entry, storing currHits == -1; the next window then admits Max+1 requests.

import (
	"net/http/httptest"
	"testing"
	"time"

	"github.com/gofiber/fiber/v3"
)

func TestFVCKnownC13SkipAfterExpiry(t *testing.T) {
	app := fiber.New()
	slow := true
	app.Use(New(Config{
		Max:                1,
		Expiration:         1 * time.Second,
		SkipFailedRequests: true,
		KeyGenerator:       func(fiber.Ctx) string { return "k" },
	}))
	app.Get("/", func(c fiber.Ctx) error {
		if slow {
			slow = false
			time.Sleep(3200 * time.Millisecond) // outlive the window and the entry's TTL
			return c.SendStatus(fiber.StatusInternalServerError)
		}
		return c.SendString("ok")
	})
	if _, err := app.Test(httptest.NewRequest(fiber.MethodGet, "/", nil), fiber.TestConfig{Timeout: 10 * time.Second}); err != nil {
		t.Fatal(err)
	}
	admitted := 0
	for i := 0; i < 3; i++ {
		resp, err := app.Test(httptest.NewRequest(fiber.MethodGet, "/", nil))
		if err != nil {
			t.Fatal(err)
		}
		if resp.StatusCode == fiber.StatusOK {
			admitted++
		}
	}
	if admitted > 1 {
		t.Fatalf("Max is 1 but %d requests of one window reached the handler", admitted)
	}
}
