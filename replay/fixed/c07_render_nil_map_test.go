// place in: .
package fiber

// Replay for property C07 (obligation (*DefaultCtx).Render/pre:(*DefaultCtx).renderExtensions:typed-nil-map-excluded,
// found by the zero-annotation safety sweep with nil-map-write obligations on the visitor closures of renderExtensions).
// Property: "for ... every context accessor or response helper a handler then calls with arguments in their documented
// domain, the server neither panics nor hangs".
// Render(name, bind) replaces an untyped nil `bind` by an empty Map, so "no data" is in the domain. A nil value of type
// Map (`var data fiber.Map`, filled only on some branch) is not caught by `bind == nil` (the interface value is not
// nil), renderExtensions then asserts it to Map and WRITES the view bindings of the request (c.ViewBind, or the locals with
// PassLocalsToViews) into it: assignment to entry in nil map - a run-time panic in the handler's goroutine (fasthttp does
// not recover handler panics: the process dies unless the recover middleware is installed).

import (
	"testing"

	"github.com/valyala/fasthttp"
)

func TestFVCReplayC07RenderTypedNilMap(t *testing.T) {
	serve := func(app *App, path string) (status int, panicked any) {
		h := app.Handler()
		fctx := &fasthttp.RequestCtx{}
		fctx.Request.Header.SetMethod(MethodGet)
		fctx.Request.SetRequestURI(path)
		defer func() { panicked = recover() }()
		h(fctx)
		return fctx.Response.StatusCode(), nil
	}
	build := func() *App {
		app := New(Config{Views: &testTemplateEngine{}})
		app.Use(func(c Ctx) error {
			// what a "common view data" middleware does
			if err := c.ViewBind(Map{"Title": "Hello, World!"}); err != nil {
				return err
			}
			return c.Next()
		})
		app.Get("/untyped", func(c Ctx) error { return c.Render("index.tmpl", nil) })
		app.Get("/typed", func(c Ctx) error {
			var data Map // stays nil: "no page data"
			return c.Render("index.tmpl", data)
		})
		return app
	}
	app := build()
	if err := app.config.Views.Load(); err != nil {
		t.Fatal(err)
	}
	if st, p := serve(app, "/untyped"); p != nil || st != StatusOK {
		t.Fatalf("reference: Render(name, nil) with view bindings: status %d, panic %v; want 200, no panic", st, p)
	}
	if st, p := serve(app, "/typed"); p != nil || st != StatusOK {
		t.Errorf("Render(name, Map(nil)) with view bindings: status %d, panic %v; want 200 and no panic (as for Render(name, nil))", st, p)
	}
}
