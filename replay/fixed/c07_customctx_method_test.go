package fiber

// Replay of the counterexample to (*DefaultCtx).Method/pre:(*App).method:index-in-method-table#2 (property C07:
// methods outside the configured set get 501, and no request makes the server panic - also with a custom
// context installed via NewCtxFunc). customRequestHandler evaluates app.methodInt(ctx.Method()) BEFORE it
// checks anything; for a context embedding DefaultCtx, Method() is config.RequestMethods[c.methodInt] with
// c.methodInt == -1 for the request "FOO / HTTP/1.1": index out of range [-1] instead of 501.

import (
	"testing"

	"github.com/valyala/fasthttp"
)

type fvcC07CustomCtx struct {
	DefaultCtx
}

func TestFVCKnownC07CustomCtxMethod(t *testing.T) {
	app := New()
	app.NewCtxFunc(func(app *App) CustomCtx {
		return &fvcC07CustomCtx{DefaultCtx: *NewDefaultCtx(app)}
	})
	app.Get("/", func(c Ctx) error { return c.SendString("ok") })

	fctx := &fasthttp.RequestCtx{}
	fctx.Request.Header.SetMethod("FOO")
	fctx.Request.SetRequestURI("/")
	defer func() {
		if r := recover(); r != nil {
			t.Fatalf("request with the unconfigured method FOO made the request handler panic: %v", r)
		}
	}()
	app.Handler()(fctx)
	if fctx.Response.StatusCode() != StatusNotImplemented {
		t.Fatalf("status %d, want 501 Not Implemented", fctx.Response.StatusCode())
	}
}
