// place in: client
package client

import (
	"testing"

	"github.com/gofiber/fiber/v3"
)

// C18-f: a query given in the URL arrives whole; a literal '?' inside a query value is legal
// (RFC 3986, 3.4: query = *( pchar / "/" / "?" )) and must not cut the query off.
func TestFVCTriageC18f(t *testing.T) {
	app, dial, start := createHelperServer(t)
	app.Get("/search", func(c fiber.Ctx) error {
		return c.SendString("q=" + c.Query("q") + " next=" + c.Query("next") + " page=" + c.Query("page") + " extra=" + c.Query("extra"))
	})
	go start()

	cl := New().SetDial(dial)

	for _, tc := range []struct{ url, want string }{
		{"http://example.com/search?q=what?&page=2", "q=what? next= page=2 extra="},
		{"http://example.com/search?next=/login?from=home&page=2", "q= next=/login?from=home page=2 extra="},
		{"http://example.com/search?q=a?b?c#frag", "q=a?b?c next= page= extra="},
		{"http://example.com/search?q=plain&page=3", "q=plain next= page=3 extra="},
	} {
		resp, err := cl.R().SetParam("extra", "").Get(tc.url)
		if err != nil {
			t.Fatal(err)
		}
		got := resp.String()
		resp.Close()
		if got != tc.want {
			t.Errorf("%s: server saw %q, want %q", tc.url, got, tc.want)
		}
	}
}
