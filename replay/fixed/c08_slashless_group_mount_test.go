// place in: .
package fiber

import (
	"errors"
	"io"
	"net/http/httptest"
	"testing"
)

// C08 / (*Group).mount: the-sub-app-listed-under-the-path-its-routes-are-registered-under.
// A sub-app mounted through a group whose prefix was written without the leading slash is routed under
// "/api/v1" (register roots the pattern), but listed in the mount list - error handler scope, MountPath - under
// "api/v1": the errors of its routes go to the root application's handler. (The same defect as the one repaired
// for app.Use("api", sub), on the group path.)
func TestFVCReplayC08SlashlessGroupMount(t *testing.T) {
	for _, prefix := range []string{"/api", "api"} {
		root := New(Config{ErrorHandler: func(c Ctx, _ error) error { return c.Status(500).SendString("root") }})
		sub := New(Config{ErrorHandler: func(c Ctx, _ error) error { return c.Status(500).SendString("sub") }})
		sub.Get("/x", func(Ctx) error { return errors.New("boom") })
		root.Group(prefix).Use("/v1", sub)

		resp, err := root.Test(httptest.NewRequest(MethodGet, "/api/v1/x", nil))
		if err != nil {
			t.Fatal(err)
		}
		body, _ := io.ReadAll(resp.Body)
		if string(body) != "sub" {
			t.Errorf("Group(%q).Use(\"/v1\", sub): error of the sub-app's route /api/v1/x was handled by %q, want sub", prefix, body)
		}
		if got := sub.MountPath(); got != "/api/v1" {
			t.Errorf("Group(%q).Use(\"/v1\", sub): MountPath() = %q, the routes are served under /api/v1", prefix, got)
		}
	}
}
