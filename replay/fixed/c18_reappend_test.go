package client

import (
	"testing"

	"github.com/valyala/fasthttp"
)

// C18 / parseCookiesFromResp$1: post updated-in-place-not-added-again.
// A Set-Cookie for a cookie that is already stored updates the stored object and then appends the same
// object to the list a second time: Get returns it twice (three times after the next response, ...).
func TestFVCKnownC18Reappend(t *testing.T) {
	jar := &CookieJar{}
	c := &fasthttp.Cookie{}
	c.SetKey("session")
	c.SetPath("/app")
	resp := fasthttp.AcquireResponse()
	for _, v := range []string{"1", "2", "3"} {
		c.SetValue(v)
		resp.Header.SetCookie(c)
		jar.parseCookiesFromResp([]byte("example.com"), []byte("/app"), resp)
	}
	u := fasthttp.AcquireURI()
	if err := u.Parse(nil, []byte("http://example.com/app")); err != nil {
		t.Fatal(err)
	}
	got := jar.Get(u)
	if len(got) != 1 {
		t.Errorf("cookie session (path /app) set by three consecutive responses is returned %d times, want once", len(got))
	}
	for _, g := range got {
		if string(g.Value()) != "3" {
			t.Errorf("stale value %q returned, want 3", g.Value())
		}
	}
}
