package cors

// Replay of the counterexample to cors.normalizeOrigin/post:valid-has-no-userinfo (utils.go:55, property C19:
// a wildcard entry matches on scheme and a dot-separated host suffix). normalizeOrigin accepts a URL with userinfo
// and silently drops it. For a wildcard entry New removes the '*' and splits the normalised text behind "scheme://":
// with AllowOrigins = ["https://*.cdn@example.com"] the text without the star is "https://.cdn@example.com", its
// host is "example.com" (".cdn" is userinfo), and the entry is stored as prefix "https://" / suffix "example.com"
// - a suffix WITHOUT the leading dot. Every origin whose host merely ends in "example.com" is then allowed:
// "https://evilexample.com" gets Access-Control-Allow-Origin (with AllowCredentials: true also
// Access-Control-Allow-Credentials). Expected: the entry is rejected like other malformed origins
// ("[CORS] Invalid origin format in configuration"), or at least never matches a look-alike host.

import (
	"testing"

	"github.com/gofiber/fiber/v3"
	"github.com/valyala/fasthttp"
)

func TestFVCKnownC19WildcardUserinfo(t *testing.T) {
	var h fasthttp.RequestHandler
	func() {
		defer func() {
			if r := recover(); r != nil {
				t.Logf("entry rejected at configuration time: %v", r)
			}
		}()
		app := fiber.New()
		app.Use(New(Config{AllowOrigins: []string{"https://*.cdn@example.com"}, AllowCredentials: true}))
		app.Get("/", func(c fiber.Ctx) error { return c.SendStatus(fiber.StatusOK) })
		h = app.Handler()
	}()
	if h == nil {
		return // rejected: fine
	}
	ctx := &fasthttp.RequestCtx{}
	ctx.Request.Header.SetMethod(fiber.MethodGet)
	ctx.Request.Header.Set(fiber.HeaderOrigin, "https://evilexample.com")
	h(ctx)
	if got := string(ctx.Response.Header.Peek(fiber.HeaderAccessControlAllowOrigin)); got != "" {
		t.Errorf("Origin https://evilexample.com is not a subdomain of example.com but got Access-Control-Allow-Origin %q (Allow-Credentials %q)",
			got, string(ctx.Response.Header.Peek(fiber.HeaderAccessControlAllowCredentials)))
	}
}
