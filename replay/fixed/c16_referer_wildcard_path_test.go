package csrf

// Replay of the counterexample to csrf.refererMatchesHost/post:nil-only-same-or-trusted-origin#2
// (property C16): on https, a request without Origin header passes the CSRF check only if its Referer
// comes from the same origin or a configured trusted origin.
// Counterexample: TrustedOrigins = ["https://*.example.com"], Referer "https://attacker.test/.example.com".
// The wildcard entry is matched (prefix/suffix) against the whole serialised referer URL, path included,
// so a page on attacker.test whose path ends in ".example.com" is accepted as a subdomain of example.com.

import (
	"strings"
	"testing"

	"github.com/gofiber/fiber/v3"
	"github.com/valyala/fasthttp"
)

func TestFVCKnownC16RefererWildcardPath(t *testing.T) {
	app := fiber.New()
	app.Use(New(Config{TrustedOrigins: []string{"https://*.example.com"}}))
	reached := false
	app.All("/", func(c fiber.Ctx) error {
		if c.Method() == fiber.MethodPost {
			reached = true
		}
		return c.SendStatus(fiber.StatusOK)
	})
	h := app.Handler()

	// the victim's browser holds a valid token (issued on a GET)
	ctx := &fasthttp.RequestCtx{}
	ctx.Request.Header.SetMethod(fiber.MethodGet)
	ctx.Request.Header.Set(fiber.HeaderXForwardedProto, "https")
	h(ctx)
	token := string(ctx.Response.Header.Peek(fiber.HeaderSetCookie))
	token = strings.Split(strings.Split(token, ";")[0], "=")[1]

	post := func(referer string) int {
		ctx.Request.Reset()
		ctx.Response.Reset()
		ctx.Request.Header.SetMethod(fiber.MethodPost)
		ctx.Request.Header.Set(fiber.HeaderXForwardedProto, "https")
		ctx.Request.URI().SetScheme("https")
		ctx.Request.URI().SetHost("shop.test")
		ctx.Request.Header.SetHost("shop.test")
		ctx.Request.Header.Set(fiber.HeaderReferer, referer)
		ctx.Request.Header.Set(HeaderName, token)
		ctx.Request.Header.SetCookie(ConfigDefault.CookieName, token)
		h(ctx)
		return ctx.Response.StatusCode()
	}

	// sanity: a real subdomain is accepted, an unrelated site is rejected
	if st := post("https://a.example.com/page"); st != fiber.StatusOK {
		t.Logf("note: referer https://a.example.com/page (a real subdomain) gets status %d", st)
	}
	if st := post("https://attacker.test/page"); st != fiber.StatusForbidden {
		t.Fatalf("referer https://attacker.test/page: status %d, want 403", st)
	}

	reached = false
	st := post("https://attacker.test/.example.com")
	if st != fiber.StatusForbidden || reached {
		t.Fatalf("POST with Referer https://attacker.test/.example.com (origin https://attacker.test, not trusted) "+
			"passed the CSRF check: status %d, protected handler reached: %v", st, reached)
	}
}
