package fiber

// Replay for fiber.(*Route).match/post:params-imply-parser (property C02): a request whose value violates a
// constraint gets the not-found handling, also when its path spells the pattern text.

import (
	"net/http/httptest"
	"testing"
)

func TestFVCReplayC02ConstraintFallback(t *testing.T) {
	app := New()
	app.Get("/user/:id<int>", func(c Ctx) error { return c.SendString(c.Params("id")) })
	resp, err := app.Test(httptest.NewRequest("GET", "/user/:id<int>", nil))
	if err != nil {
		t.Fatal(err)
	}
	if resp.StatusCode != StatusNotFound {
		t.Fatalf("GET /user/:id<int> on /user/:id<int>: status %d, want 404 (value %q is not an int)", resp.StatusCode, ":id<int>")
	}
}
