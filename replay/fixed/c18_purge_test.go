package client

import (
	"testing"
	"time"

	"github.com/valyala/fasthttp"
)

// C18 / getCookiesByHost: lockinv jar-holds-no-pooled-cookie, post jar-holds-the-purged-list.
// The purge of expired cookies works on a local copy of the slice header and is never written back to the
// map: the jar keeps referencing the shifted backing array (so a live cookie is returned twice) and the
// released cookie objects (so a cookie later stored for ANOTHER host shows up for this host).
func TestFVCKnownC18Purge(t *testing.T) {
	uri := func(s string) *fasthttp.URI {
		u := fasthttp.AcquireURI()
		if err := u.Parse(nil, []byte(s)); err != nil {
			t.Fatal(err)
		}
		return u
	}
	mk := func(k, v string, expired bool) *fasthttp.Cookie {
		c := &fasthttp.Cookie{}
		c.SetKey(k)
		c.SetValue(v)
		if expired {
			c.SetExpire(time.Now().Add(-time.Hour))
		}
		return c
	}

	// (1) each live cookie once, also on the second Get
	jar := &CookieJar{}
	one := uri("http://one.example/")
	jar.Set(one, mk("old", "x", true), mk("live", "1", false))
	if got := jar.Get(one); len(got) != 1 {
		t.Fatalf("first Get: %d cookies, want 1", len(got))
	}
	if got := jar.Get(one); len(got) != 1 {
		t.Errorf("second Get for the same URL returns %d cookies, want 1 (live cookie handed out twice)", len(got))
	}

	// (2) never a cookie stored for another host
	for attempt := 0; attempt < 50; attempt++ {
		jar2 := &CookieJar{}
		jar2.Set(one, mk("live", "1", false), mk("old", "x", true))
		_ = jar2.Get(one) // purges "old": its object goes back to fasthttp's pool but stays in the jar's list
		two := uri("http://two.example/")
		jar2.Set(two, mk("secret-of-two", "s3cr3t", false)) // may get that very object from the pool
		for _, c := range jar2.Get(one) {
			if string(c.Key()) != "live" {
				t.Fatalf("Get(%s) returned cookie %q=%q which was only ever stored for %s", one.Host(), c.Key(), c.Value(), two.Host())
			}
		}
	}
}
