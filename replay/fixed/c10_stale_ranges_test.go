// place in: .
package fiber

// Replay of the counterexample to fiber.New/inv:loop1.init:ranges-only-listed-cidrs (property C10):
// New() rebuilds TrustProxyConfig.ips from Config.TrustProxyConfig.Proxies but only APPENDS to the unexported
// TrustProxyConfig.ranges. A Config value obtained from App.Config() carries the first app's parsed ranges, so an
// app created from it trusts peers of CIDR ranges that its own Proxies list does not contain: forwarding headers
// of a peer OUTSIDE the configured proxy set then change IP(), Host(), Scheme().

import (
	"net"
	"testing"

	"github.com/valyala/fasthttp"
)

func TestFVCReplayC10StaleRanges(t *testing.T) {
	app1 := New(Config{
		TrustProxy:       true,
		ProxyHeader:      HeaderXForwardedFor,
		TrustProxyConfig: TrustProxyConfig{Proxies: []string{"10.0.0.0/8"}},
	})
	cfg := app1.Config()
	cfg.TrustProxyConfig.Proxies = []string{"192.168.0.1"} // the second app lists one address, no range
	app2 := New(cfg)

	fctx := &fasthttp.RequestCtx{}
	fctx.Request.SetRequestURI("http://real.example/")
	fctx.Request.Header.Set(HeaderXForwardedFor, "9.9.9.9")
	fctx.Request.Header.Set(HeaderXForwardedHost, "evil.example")
	fctx.Request.Header.Set(HeaderXForwardedProto, "https")
	fctx.SetRemoteAddr(&net.TCPAddr{IP: net.ParseIP("10.1.2.3"), Port: 4711}) // not 192.168.0.1

	c := app2.AcquireCtx(fctx)
	defer app2.ReleaseCtx(c)

	if c.IsProxyTrusted() {
		t.Errorf("peer 10.1.2.3 is outside app2's proxy set {192.168.0.1} but IsProxyTrusted() == true")
	}
	if got := c.IP(); got != "10.1.2.3" {
		t.Errorf("IP() = %q, want the peer address 10.1.2.3 (X-Forwarded-For of an untrusted peer was used)", got)
	}
	if got := c.Host(); got != "real.example" {
		t.Errorf("Host() = %q, want real.example (X-Forwarded-Host of an untrusted peer was used)", got)
	}
	if got := c.Scheme(); got != "http" {
		t.Errorf("Scheme() = %q, want http (X-Forwarded-Proto of an untrusted peer was used)", got)
	}
	if c.Secure() {
		t.Errorf("Secure() == true on a plain connection from an untrusted peer")
	}
}
