package fiber

// Replay of the counterexample to fiber.(*DefaultCtx).Params/post:immutable-stable (property C06): with
// Config.Immutable a route parameter obtained from the context keeps its content after the handler returns.
// Counterexample: Params returns c.values[i], which (*App).next filled with a substring of
// utils.UnsafeString(c.path); no copying conversion is on that path. c.path is the path buffer of the pooled
// context and is overwritten in place by the next request served with that context.
// History: GET /user/alice (the handler keeps c.Params("name")), then GET /user/bobby on the same
// connection/context: the kept value now reads "bobby".

import (
	"testing"

	"github.com/valyala/fasthttp"
)

func TestFVCKnownC06Params(t *testing.T) {
	app := New(Config{Immutable: true})
	var kept []string
	app.Get("/user/:name", func(c Ctx) error {
		kept = append(kept, c.Params("name"))
		return nil
	})
	h := app.Handler()
	fctx := &fasthttp.RequestCtx{}
	do := func(uri string) {
		fctx.Request.Reset()
		fctx.Response.Reset()
		fctx.Request.Header.SetMethod(MethodGet)
		fctx.Request.SetRequestURI(uri)
		h(fctx)
	}
	do("/user/alice")
	if len(kept) != 1 || kept[0] != "alice" {
		t.Fatalf("setup: first request captured %q", kept)
	}
	// the pooled context is handed out again (sync.Pool may occasionally drop it: repeat a few times)
	for i := 0; i < 20; i++ {
		do("/user/bobby")
	}
	if kept[0] != "alice" {
		t.Fatalf("Immutable: the value kept from request 1 (Params(\"name\") == \"alice\") reads %q after later requests reused the context", kept[0])
	}
}
