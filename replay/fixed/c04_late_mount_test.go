// place in: .
package fiber

import (
	"io"
	"net/http/httptest"
	"testing"
)

// C04, finding late-mount-once-spent (direct mount): the two start-up steps of mount.go (completion of the
// prefix -> app list, splice of the sub-apps' routes) are guarded by a sync.Once each; the first start at which the
// application has a sub-app spends both. A sub-app mounted afterwards is never spliced: its routes answer 404, while
// the same routes registered through a Group after the start are served.
// (The first mount after a start WITHOUT sub-apps is processed - the guard `if app.hasMountedApps()` keeps the Onces.)
func TestFVCKnownC04LateSecondMount(t *testing.T) {
	get := func(app *App, target string) (int, string) {
		t.Helper()
		resp, err := app.Test(httptest.NewRequest(MethodGet, target, nil))
		if err != nil {
			t.Fatal(err)
		}
		body, err := io.ReadAll(resp.Body)
		if err != nil {
			t.Fatal(err)
		}
		return resp.StatusCode, string(body)
	}
	hello := func(c Ctx) error { return c.SendString("hello " + c.Route().Path) }

	mounted := New()
	s1 := New()
	s1.Get("/one", hello)
	mounted.Use("/a", s1)
	if code, body := get(mounted, "/a/one"); code != StatusOK || body != "hello /a/one" { // first start
		t.Fatalf("first start: %d %q", code, body)
	}
	s2 := New()
	s2.Get("/two", hello)
	mounted.Use("/b", s2) // a second mount, after the first start

	grouped := New()
	grouped.Group("/a").Get("/one", hello)
	get(grouped, "/a/one") // first start
	grouped.Group("/b").Get("/two", hello)

	for _, target := range []string{"/a/one", "/b/two", "/b/other"} {
		codeA, bodyA := get(mounted, target)
		codeB, bodyB := get(grouped, target)
		if codeA != codeB || bodyA != bodyB {
			t.Errorf("GET %s: sub-app mounted after the start answers %d %q, group registered after the start answers %d %q", target, codeA, bodyA, codeB, bodyB)
		}
	}
}
