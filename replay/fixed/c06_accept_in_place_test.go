package fiber

import (
	"testing"

	"github.com/valyala/fasthttp"
)

// Replay (C06, second sentence: without Immutable a value taken from the context stays valid until the handler returns):
// getOffer lower-cases the parameter names of the Accept header IN PLACE in the request's header buffer.
func TestFVCReplayC06AcceptInPlace(t *testing.T) {
	app := New()
	c := app.AcquireCtx(&fasthttp.RequestCtx{})
	defer app.ReleaseCtx(c)
	c.Request().Header.Set(HeaderAccept, "text/html;Level=1;Q=0.5")
	before := c.Get(HeaderAccept)
	keep := string([]byte(before))
	_ = c.Accepts("text/html")
	if before != keep {
		t.Fatalf("the value obtained from c.Get(\"Accept\") changed inside the handler after c.Accepts: %q -> %q", keep, before)
	}
}
