package csrf

// Replay of the counterexample to csrf.New/safety:bounds:strslice#3 (csrf.go:68, property C16: trusted
// origins are exactly the configured ones). New trims spaces off a configured origin, but splits the
// normalised wildcard origin at the index "://*." had in the UNTRIMMED string.
// Counterexample 1: TrustedOrigins = ["          http://*.a"] (10 leading spaces): index 14 in the untrimmed
// string, the normalised origin "http://.a" has 9 bytes: New dies with a slice-bounds runtime error instead
// of accepting the entry or reporting "[CSRF] Invalid origin format".
// Counterexample 2: TrustedOrigins = [" https://*.example.com"] (1 leading space): no panic, but the entry is
// split into prefix "https://." / suffix "example.com": "https://.evilexample.com" (not a subdomain of
// example.com) is trusted, "https://a.example.com" is not.

import (
	"fmt"
	"runtime"
	"strings"
	"testing"

	"github.com/gofiber/fiber/v3"
	"github.com/valyala/fasthttp"
)

func TestFVCKnownC16WildcardLeadingSpace(t *testing.T) {
	func() {
		defer func() {
			if r := recover(); r != nil {
				if re, ok := r.(runtime.Error); ok {
					t.Errorf("New(TrustedOrigins: [%q]) died with a runtime error: %v", "          http://*.a", re)
				} else if !strings.Contains(fmt.Sprint(r), "[CSRF] Invalid origin format") {
					t.Errorf("unexpected panic: %v", r)
				}
			}
		}()
		New(Config{TrustedOrigins: []string{"          http://*.a"}})
	}()

	app := fiber.New()
	app.Use(New(Config{TrustedOrigins: []string{" https://*.example.com"}}))
	app.All("/", func(c fiber.Ctx) error { return c.SendStatus(fiber.StatusOK) })
	h := app.Handler()
	ctx := &fasthttp.RequestCtx{}
	ctx.Request.Header.SetMethod(fiber.MethodGet)
	h(ctx)
	token := string(ctx.Response.Header.Peek(fiber.HeaderSetCookie))
	token = strings.Split(strings.Split(token, ";")[0], "=")[1]
	post := func(origin string) int {
		ctx.Request.Reset()
		ctx.Response.Reset()
		ctx.Request.Header.SetMethod(fiber.MethodPost)
		ctx.Request.URI().SetHost("shop.test")
		ctx.Request.Header.SetHost("shop.test")
		ctx.Request.Header.Set(fiber.HeaderOrigin, origin)
		ctx.Request.Header.Set(HeaderName, token)
		ctx.Request.Header.SetCookie(ConfigDefault.CookieName, token)
		h(ctx)
		return ctx.Response.StatusCode()
	}
	if st := post("https://.evilexample.com"); st != fiber.StatusForbidden {
		t.Errorf("Origin https://.evilexample.com is not a subdomain of example.com but passed: status %d", st)
	}
	if st := post("https://a.example.com"); st != fiber.StatusOK {
		t.Errorf("Origin https://a.example.com is a subdomain of the configured *.example.com but got status %d", st)
	}
}
