// place in: .
package fiber

// Replay for property C07 (repaired by fix_1.diff): control bytes in a handler-supplied cookie NAME, PATH or DOMAIN reach the wire (same root as c07_cookie_ctl_test.go, which covers the value): a strict
// client refuses the whole reply. The only place to repair it is (*DefaultCtx).Cookie, and the flash-message cookie
// (raw MessagePack, a NUL for the default level 0 - the known C12 finding) goes through it: rejecting or rewriting
// control bytes there makes Test_Redirect_*_WithFlashMessages / _WithOldInput fail, which pin that format.

import (
	"bufio"
	"bytes"
	"net/http"
	"testing"

	"github.com/valyala/fasthttp"
)

func TestFVCReplayC07CookieFieldsControlBytes(t *testing.T) {
	type tcase struct {
		name  string
		query string
		h     Handler
	}
	check := func(t *testing.T, cases []tcase) {
		t.Helper()
		for _, tc := range cases {
			resp, wire, err := replayC07CookieFieldsServe(t, tc.query, tc.h)
			if err != nil {
				t.Errorf("%s: a strict client cannot parse the response: %v\n%q", tc.name, err, wire)
				continue
			}
			for k, vs := range resp.Header {
				for _, v := range vs {
					for i := 0; i < len(v); i++ {
						if (v[i] < 0x20 && v[i] != '\t') || v[i] == 0x7f {
							t.Errorf("%s: header %s carries control byte %#02x: not a field-value (RFC 9110 5.5)\n%q", tc.name, k, v[i], wire)
							break
						}
					}
				}
			}
		}
	}
	name := func(c Ctx) error { c.Cookie(&Cookie{Name: c.Query("v"), Value: "x"}); return nil }
	path := func(c Ctx) error { c.Cookie(&Cookie{Name: "n", Value: "x", Path: c.Query("v")}); return nil }
	clear := func(c Ctx) error { c.ClearCookie(c.Query("v")); return nil }
	domain := func(c Ctx) error { c.Cookie(&Cookie{Name: "n", Value: "x", Domain: c.Query("v")}); return nil }

	check(t, []tcase{
		{"Cookie name with NUL", "v=a%00b", name},
		{"Cookie name with DEL", "v=a%7fb", name},
		{"Cookie path with NUL", "v=/a%00b", path},
		{"Cookie path with VT", "v=/a%0bb", path},
		{"Cookie domain with NUL", "v=a%00b.example", domain},
		{"Cookie domain with ESC", "v=a%1bb.example", domain},
		{"ClearCookie name with NUL", "v=a%00b", clear},
	})
}

func replayC07CookieFieldsServe(t *testing.T, query string, h Handler) (*http.Response, string, error) {
	t.Helper()
	app := New()
	app.Get("/", h)
	fctx := &fasthttp.RequestCtx{}
	fctx.Request.Header.SetMethod(MethodGet)
	fctx.Request.SetRequestURI("/?" + query)
	app.Handler()(fctx)
	var wire bytes.Buffer
	bw := bufio.NewWriter(&wire)
	if err := fctx.Response.Write(bw); err != nil {
		t.Fatal(err)
	}
	_ = bw.Flush()
	resp, err := http.ReadResponse(bufio.NewReader(bytes.NewReader(wire.Bytes())), nil)
	if err == nil {
		_ = resp.Body.Close()
	}
	return resp, wire.String(), err
}
