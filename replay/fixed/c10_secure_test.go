package fiber

// Replay of the counterexample to fiber.(*DefaultCtx).Secure/post:iff-scheme-https (property C10):
// a request whose scheme is https must report Secure() == true.

import (
	"net/http/httptest"
	"testing"
)

func TestFVCReplayC10Secure(t *testing.T) {
	app := New()
	var scheme string
	var secure bool
	app.Get("/", func(c Ctx) error {
		scheme, secure = c.Scheme(), c.Secure()
		return nil
	})
	req := httptest.NewRequest("GET", "/", nil)
	req.Header.Set("X-Forwarded-Proto", "https")
	if _, err := app.Test(req); err != nil {
		t.Fatal(err)
	}
	if secure != (scheme == "https") {
		t.Fatalf("Scheme()=%q but Secure()=%v", scheme, secure)
	}
}
