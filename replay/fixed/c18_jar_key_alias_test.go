package client

// Replay (property C18: the cookie jar never leaks across hosts): assigning to an EXISTING string key of a Go map
// replaces the stored key by the key expression used in the assignment. SetByHost / parseCookiesFromResp /
// getCookiesByHost assigned with utils.UnsafeString(host), a view of the caller's (pooled request's) buffer: once the
// buffer is reused for another host of the same length, the jar's key for host A reads as host B and A's cookies are
// sent to B.

import (
	"testing"

	"github.com/gofiber/utils/v2"
	"github.com/valyala/fasthttp"
)

func TestFVCReplayC18JarKeyAlias(t *testing.T) {
	jar := AcquireCookieJar()
	defer ReleaseCookieJar(jar)

	buf := []byte("a.com")
	c1 := fasthttp.AcquireCookie()
	c1.SetKey("sid")
	c1.SetValue("secret-of-a")
	jar.SetByHost(buf, c1) // new key: copied
	c2 := fasthttp.AcquireCookie()
	c2.SetKey("pref")
	c2.SetValue("x")
	jar.SetByHost(buf, c2) // existing key: the assignment must not install a view of buf as the key

	copy(buf, "b.com") // the caller's buffer is reused for another host

	if got := jar.getCookiesByHost("b.com"); len(got) != 0 {
		t.Fatalf("host b.com receives %d cookie(s) stored for a.com (first: %s)", len(got), got[0].String())
	}
	if got := jar.getCookiesByHost("a.com"); len(got) != 2 {
		t.Fatalf("host a.com has %d cookies, want 2", len(got))
	}

	// the same through the purge write-back of getCookiesByHost
	key := []byte("c.com")
	jar.SetByHost(key, c1)
	view := unsafeStringForTest(key)
	_ = jar.getCookiesByHost(view)
	copy(key, "d.com")
	if got := jar.getCookiesByHost("d.com"); len(got) != 0 {
		t.Fatalf("host d.com receives %d cookie(s) stored for c.com", len(got))
	}
}

func unsafeStringForTest(b []byte) string { return utils.UnsafeString(b) }
