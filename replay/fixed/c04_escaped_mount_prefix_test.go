// place in: .
package fiber

import (
	"fmt"
	"io"
	"net/http/httptest"
	"testing"
)

// C04-b: a mount prefix with an escaped colon is the literal prefix "/v1:beta", as for the twin that
// registers the sub-app's routes through a group with the same prefix.
func TestFVCTriageC04b(t *testing.T) {
	h := func(c Ctx) error { return c.SendString("h:" + c.Path() + ":" + c.Params("beta", "-")) }

	mounted := New()
	sub := New()
	sub.Get("/x", h)
	mounted.Use("/v1\\:beta", sub)

	twin := New()
	twin.Group("/v1\\:beta").Get("/x", h)

	run := func(app *App, path string) string {
		resp, err := app.Test(httptest.NewRequest(MethodGet, path, nil))
		if err != nil {
			return "error: " + err.Error()
		}
		body, _ := io.ReadAll(resp.Body)
		return fmt.Sprintf("%d %q", resp.StatusCode, body)
	}
	for _, path := range []string{"/v1:beta/x", "/v1zzz/x", "/v1/x", "/v1:beta/y"} {
		got, want := run(mounted, path), run(twin, path)
		if got != want {
			t.Errorf("GET %s: mounted app: %s; grouped twin: %s", path, got, want)
		}
	}
	if got := run(twin, "/v1:beta/x"); got != `200 "h:/v1:beta/x:-"` {
		t.Errorf("control: twin answers %s for /v1:beta/x", got)
	}
}
