package cache

// Replay of the counterexample to cache.New$4/pre:(*indexedHeap).remove:idx-in-use and
// .../atcall:(*indexedHeap).remove:expired-entry-slot-is-own (property C14, sequential, no concurrency):
// with an external Storage, manager.get returns a blank item (exp 0, heapidx 0) for a key that is NOT cached.
// If CacheInvalidator says "invalidate", the handler sets e.exp = ts-1 on that blank item, takes the
// "expired" branch and calls heap.remove(e.heapidx) = heap.remove(0): it releases the heap slot of whatever
// entry owns index 0. That entry stays in the storage but is no longer accounted for, so the bytes held
// exceed MaxBytes (and on an empty heap the same call panics with index out of range).
// History (MaxBytes 10): GET /a (8 bytes, cached, heap index 0); GET /b?inv=1 (not cached, invalidate):
// releases /a's slot, then caches /b; GET /c (8 bytes): evicts /b to make room. Storage now holds the
// bodies of /a and /c: 16 bytes > MaxBytes.

import (
	"strings"
	"sync"
	"testing"
	"time"

	"github.com/gofiber/fiber/v3"
	"github.com/valyala/fasthttp"
)

type c14MapStore struct {
	mu sync.Mutex
	m  map[string][]byte
}

func (s *c14MapStore) Get(key string) ([]byte, error) {
	s.mu.Lock()
	defer s.mu.Unlock()
	return s.m[key], nil
}

func (s *c14MapStore) Set(key string, val []byte, _ time.Duration) error {
	s.mu.Lock()
	defer s.mu.Unlock()
	s.m[key] = append([]byte(nil), val...)
	return nil
}

func (s *c14MapStore) Delete(key string) error {
	s.mu.Lock()
	defer s.mu.Unlock()
	delete(s.m, key)
	return nil
}
func (*c14MapStore) Reset() error { return nil }
func (*c14MapStore) Close() error { return nil }

func (s *c14MapStore) bodyBytes() (int, []string) {
	s.mu.Lock()
	defer s.mu.Unlock()
	n := 0
	var keys []string
	for k, v := range s.m {
		if strings.HasSuffix(k, "_body") {
			n += len(v)
			keys = append(keys, k)
		}
	}
	return n, keys
}

func TestFVCKnownC14InvalidateUncached(t *testing.T) {
	const maxBytes = 10
	store := &c14MapStore{m: map[string][]byte{}}
	app := fiber.New()
	app.Use(New(Config{
		Storage:  store,
		MaxBytes: maxBytes,
		CacheInvalidator: func(c fiber.Ctx) bool {
			return fiber.Query[bool](c, "inv")
		},
	}))
	app.Get("/*", func(c fiber.Ctx) error { return c.SendString("8 bytes!") })
	h := app.Handler()
	do := func(uri string) {
		t.Helper()
		defer func() {
			if p := recover(); p != nil {
				t.Fatalf("GET %s made the cache middleware panic: %v", uri, p)
			}
		}()
		ctx := &fasthttp.RequestCtx{}
		ctx.Request.Header.SetMethod(fiber.MethodGet)
		ctx.Request.SetRequestURI(uri)
		h(ctx)
		if ctx.Response.StatusCode() != 200 {
			t.Fatalf("GET %s: status %d", uri, ctx.Response.StatusCode())
		}
	}
	do("/a")
	do("/b?inv=1") // /b is not cached: nothing to invalidate
	do("/c")
	if n, keys := store.bodyBytes(); n > maxBytes {
		t.Fatalf("cache holds %d body bytes (%v) with MaxBytes = %d", n, keys, maxBytes)
	}
}
