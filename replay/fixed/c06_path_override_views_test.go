// place in: .
package fiber

import (
	"net/http/httptest"
	"testing"
)

// C06-a: without Immutable, a value the handler has taken from the context keeps its content
// until the handler returns - also when the handler (or a later handler in the chain) sets a new path.
func TestFVCTriageC06a(t *testing.T) {
	app := New() // Immutable: false

	var p, id, pAfter, idAfter, newPath string
	app.Get("/a/:id", func(c Ctx) error {
		p = c.Path()
		id = c.Params("id")
		wantP, wantID := string([]byte(p)), string([]byte(id)) // private copies of what was returned

		newPath = c.Path("/zz/yyy")

		pAfter, idAfter = string([]byte(p)), string([]byte(id))
		if wantP != "/a/12345" || wantID != "12345" {
			t.Errorf("set-up: Path() %q, Params(id) %q", wantP, wantID)
		}
		return nil
	})

	resp, err := app.Test(httptest.NewRequest(MethodGet, "/a/12345", nil))
	if err != nil {
		t.Fatal(err)
	}
	_ = resp.Body.Close() //nolint:errcheck // not needed

	if newPath != "/zz/yyy" {
		t.Errorf("Path(override) returned %q", newPath)
	}
	if pAfter != "/a/12345" {
		t.Errorf(`the string returned by Path() reads %q after c.Path("/zz/yyy"), inside the same handler; it was "/a/12345"`, pAfter)
	}
	if idAfter != "12345" {
		t.Errorf(`the string returned by Params("id") reads %q after c.Path("/zz/yyy"), inside the same handler; it was "12345"`, idAfter)
	}
}
