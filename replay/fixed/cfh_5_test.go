// place in: client
package client

import (
	"net"
	"strings"
	"testing"

	"github.com/gofiber/fiber/v3"
	"github.com/valyala/fasthttp/fasthttputil"
)

// C18 / parserRequestHeader atcall:(*RequestHeader).SetUserAgent:default-only-into-an-empty-field-then-client-then-request
// (the obligation exists since the assumed contracts of the fasthttp header writers say what fasthttp does with a header
// NAMED User-Agent: it is not stored as a line, it is written into the user-agent field - the one SetUserAgent writes).
// parserRequestHeader merges the configured headers and then writes the default user agent "fiber" unconditionally:
// a User-Agent configured as a header (Client.SetHeader / AddHeader / SetHeaders / Config.Header, on either level) never
// arrives - "every header configured on a client or request arrives at the server with that value".
func TestFVCKnownC18HeaderUserAgentOverwrittenByDefault(t *testing.T) {
	ln := fasthttputil.NewInmemoryListener()
	app := fiber.New()
	app.Get("/", func(c fiber.Ctx) error {
		return c.SendString(strings.Join([]string{string(c.Request().Header.UserAgent()), c.Get("X-Other")}, "|"))
	})
	go func() { _ = app.Listener(ln, fiber.ListenConfig{DisableStartupMessage: true}) }() //nolint:errcheck // test server
	defer func() { _ = app.Shutdown() }()                                                 //nolint:errcheck // test server

	get := func(cl *Client, req *Request) string {
		t.Helper()
		resp, err := req.SetClient(cl).Get("http://example.com/")
		if err != nil {
			t.Fatal(err)
		}
		defer resp.Close()
		return resp.String()
	}
	dial := func(string) (net.Conn, error) { return ln.Dial() }

	// client level header
	cl := New().SetDial(dial).SetHeader("User-Agent", "my-agent/1.0").SetHeader("X-Other", "o")
	if got, want := get(cl, AcquireRequest()), "my-agent/1.0|o"; got != want {
		t.Errorf("Client.SetHeader(User-Agent, my-agent/1.0): server saw %q, want %q", got, want)
	}
	// request level header
	if got, want := get(New().SetDial(dial), AcquireRequest().SetHeader("user-agent", "req-agent/2.0")), "req-agent/2.0|"; got != want {
		t.Errorf("Request.SetHeader(user-agent, req-agent/2.0): server saw %q, want %q", got, want)
	}
	// the precedence of the dedicated setters is unchanged: request SetUserAgent > client SetUserAgent > header > default
	if got, want := get(cl, AcquireRequest().SetUserAgent("r")), "r|o"; got != want {
		t.Errorf("Request.SetUserAgent(r) over a configured header: server saw %q, want %q", got, want)
	}
	if got, want := get(New().SetDial(dial).SetUserAgent("c").SetHeader("User-Agent", "h"), AcquireRequest()), "c|"; got != want {
		t.Errorf("Client.SetUserAgent(c) over a configured header: server saw %q, want %q", got, want)
	}
	if got, want := get(New().SetDial(dial), AcquireRequest()), "fiber|"; got != want {
		t.Errorf("nothing configured: server saw %q, want %q", got, want)
	}
}
