package fiber

// Replay of the counterexample to fiber.acceptsOffer/post:only-wildcard-or-named-offer (property C09):
// a charset / encoding / language range accepts only the offer it names (or every offer, if it is "*").
// Counterexample: Accept-Encoding: gzip, offer "gz". acceptsOffer tests strings.HasPrefix(spec, offer) -
// the offer only has to be a prefix of the range - so "gz" (not a coding the client listed) is selected.

import (
	"testing"

	"github.com/valyala/fasthttp"
)

func TestFVCKnownC09OfferPrefix(t *testing.T) {
	app := New()
	c := app.AcquireCtx(&fasthttp.RequestCtx{})
	defer app.ReleaseCtx(c)

	c.Request().Header.Set(HeaderAcceptEncoding, "gzip")
	if got := c.AcceptsEncodings("gzip"); got != "gzip" {
		t.Fatalf(`Accept-Encoding: gzip: AcceptsEncodings("gzip") = %q, want "gzip"`, got)
	}
	if got := c.AcceptsEncodings("gz", "gzip"); got != "gzip" {
		t.Fatalf(`Accept-Encoding: gzip: AcceptsEncodings("gz", "gzip") = %q, want "gzip" ("gz" is not acceptable to the range gzip)`, got)
	}
}
