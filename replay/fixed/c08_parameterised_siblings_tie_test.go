// place in: .
package fiber

import (
	"errors"
	"io"
	"net/http/httptest"
	"testing"
)

// C08 / (*App).ErrorHandler: choice-is-a-function-of-path-and-mounts.
// Two sibling sub-apps mounted on parameterised prefixes of the same length ("/:a", "/:b") both contain the path
// /t/x; ErrorHandler keeps the first one it meets while ranging over the mount-list MAP, so the handler that gets
// the error of a's route changes from run to run (observed 178:22 over 200 identical programs).
func TestFVCReplayC08ParameterisedSiblingsTie(t *testing.T) {
	seen := map[string]int{}
	for i := 0; i < 300; i++ {
		root := New(Config{ErrorHandler: func(c Ctx, _ error) error { return c.Status(500).SendString("root") }})
		a := New(Config{ErrorHandler: func(c Ctx, _ error) error { return c.Status(500).SendString("a") }})
		b := New(Config{ErrorHandler: func(c Ctx, _ error) error { return c.Status(500).SendString("b") }})
		a.Get("/x", func(Ctx) error { return errors.New("boom") })
		b.Get("/y", func(Ctx) error { return errors.New("boom") })
		root.Use("/:a", a)
		root.Use("/:b", b)
		resp, err := root.Test(httptest.NewRequest(MethodGet, "/t/x", nil))
		if err != nil {
			t.Fatal(err)
		}
		body, _ := io.ReadAll(resp.Body)
		seen[string(body)]++
	}
	if len(seen) != 1 {
		t.Errorf("the same program and request had its error handled by different handlers: %v", seen)
	}
}
