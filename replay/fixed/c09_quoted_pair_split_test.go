package fiber

// Replay of the counterexample to fiber.forEachMediaRange/inv:loop2.preserve:escaping-tracks-scanner
// (property C09): the header is split into ranges at the commas outside quoted strings (RFC 9110 list /
// quoted-string grammar); every range then competes with its quality.
// Counterexample: Accept: text/plain;a="x\"y";q=0.1, application/json
// The scanner sets `escaping` at the backslash of the quoted-pair \" and never clears it, so the closing
// quote of "x\"y" is not counted, the rest of the header stays "inside quotes" and is never split:
// application/json (q=1, the most preferred range) is not seen and nothing is selected.

import (
	"testing"

	"github.com/valyala/fasthttp"
)

func TestFVCKnownC09QuotedPairSplit(t *testing.T) {
	app := New()
	c := app.AcquireCtx(&fasthttp.RequestCtx{})
	defer app.ReleaseCtx(c)

	// sanity: without the quoted-pair the second range is seen and wins (q=1 > q=0.1)
	c.Request().Header.Set(HeaderAccept, `text/plain;a="xy";q=0.1, application/json`)
	if got := c.Accepts("application/json", "text/plain"); got != "application/json" {
		t.Fatalf(`Accept without quoted-pair: Accepts = %q, want "application/json"`, got)
	}

	c.Request().Header.Set(HeaderAccept, `text/plain;a="x\"y";q=0.1, application/json`)
	if got := c.Accepts("application/json", "text/plain"); got != "application/json" {
		t.Fatalf(`Accept: text/plain;a="x\"y";q=0.1, application/json: Accepts("application/json", "text/plain") = %q, want "application/json" (range application/json has q=1)`, got)
	}
}
