package fiber

// Replay of the counterexample to (*DefaultCtx).setCanonical/pre:(*ResponseHeader).SetCanonical:value-one-line
// (property C07: no value a handler passes to a response helper adds a header line).
// setCanonical hands the handler's string to fasthttp's SetCanonical, which - unlike Set/Add - stores the
// bytes verbatim. Counterexample: val = "/x\r\nX-Evil: 1" through Location, Redirect().To and Links.

import (
	"bufio"
	"bytes"
	"net/http"
	"testing"

	"github.com/valyala/fasthttp"
)

func TestFVCKnownC07LocationCRLF(t *testing.T) {
	evil := "x\r\nX-Evil: 1"
	cases := []struct {
		name string
		h    Handler
	}{
		{"Location", func(c Ctx) error { c.Location("/" + evil); return nil }},
		{"Redirect().To", func(c Ctx) error { return c.Redirect().To("/" + evil) }},
		{"Links(url)", func(c Ctx) error { c.Links("http://a/"+evil, "next"); return nil }},
		{"Links(rel)", func(c Ctx) error { c.Links("http://a/", "next"+evil); return nil }},
	}
	for _, tc := range cases {
		app := New()
		app.Get("/", tc.h)
		fctx := &fasthttp.RequestCtx{}
		fctx.Request.Header.SetMethod(MethodGet)
		fctx.Request.SetRequestURI("/")
		app.Handler()(fctx)

		var wire bytes.Buffer
		bw := bufio.NewWriter(&wire)
		if err := fctx.Response.Write(bw); err != nil {
			t.Fatal(err)
		}
		_ = bw.Flush()
		resp, err := http.ReadResponse(bufio.NewReader(bytes.NewReader(wire.Bytes())), nil)
		if err != nil {
			t.Errorf("%s: a strict client cannot parse the response: %v\n%q", tc.name, err, wire.String())
			continue
		}
		if v := resp.Header.Get("X-Evil"); v != "" {
			t.Errorf("%s: the handler's value added the header line \"X-Evil: %s\"\n%q", tc.name, v, wire.String())
		}
		_ = resp.Body.Close()
	}
}
