// place in: client
package client

import (
	"net"
	"sort"
	"strings"
	"testing"

	"github.com/gofiber/fiber/v3"
	"github.com/valyala/fasthttp/fasthttputil"
)

// C18 / (*Client).SetHeader post:header-has-exactly-this-value (fails once (*RequestHeader).Set is specified as fasthttp
// behaves: only the FIRST stored line of the name is rewritten).
// Client.SetHeader calls header.Set without the Del that Request.SetHeader and Header.SetHeaders have: a client-level
// header that was given several values (AddHeader twice / AddHeaders) and is then overridden with SetHeader still
// carries the stale values - they are reported by Client.Header and sent with every request of the client.
func TestFVCKnownC18ClientSetHeaderKeepsStaleValues(t *testing.T) {
	ln := fasthttputil.NewInmemoryListener()
	app := fiber.New()
	app.Get("/", func(c fiber.Ctx) error {
		var got []string
		for _, v := range c.Request().Header.PeekAll("X-Tag") {
			got = append(got, string(v))
		}
		sort.Strings(got)
		return c.SendString(strings.Join(got, ","))
	})
	go func() { _ = app.Listener(ln, fiber.ListenConfig{DisableStartupMessage: true}) }() //nolint:errcheck // test server
	defer func() { _ = app.Shutdown() }()                                                 //nolint:errcheck // test server

	cl := New().SetDial(func(string) (net.Conn, error) { return ln.Dial() })
	cl.AddHeader("X-Tag", "a").AddHeader("X-Tag", "b").SetHeader("X-Tag", "c")

	if got := cl.Header("X-Tag"); len(got) != 1 || got[0] != "c" {
		t.Errorf("Client.Header(X-Tag) after AddHeader(a), AddHeader(b), SetHeader(c) = %q, want [c]", got)
	}

	resp, err := cl.Get("http://example.com/")
	if err != nil {
		t.Fatal(err)
	}
	defer resp.Close()
	if got := resp.String(); got != "c" {
		t.Errorf("server received X-Tag values %q, want \"c\" (the overridden value b was sent as well)", got)
	}
}
