// place in: client
package client

import (
	"net"
	"testing"

	"github.com/gofiber/fiber/v3"
	"github.com/valyala/fasthttp/fasthttputil"
)

// C18 / (*Request).SetParam post:key-has-exactly-this-value, (*Client).SetParam post:key-has-exactly-this-value,
//
//	(*QueryParam).SetParams inv:loop1.preserve:visited-set
//
// (they fail once (*Args).Set is specified as fasthttp behaves: only the FIRST stored pair of the key is rewritten).
// SetParam / SetParams are documented as "overriding any previously set value", but a query parameter that was given
// several values (AddParam twice, AddParams) keeps all but the first of them: the server receives the new value AND
// the stale ones.
func TestFVCKnownC18SetParamKeepsStaleValues(t *testing.T) {
	ln := fasthttputil.NewInmemoryListener()
	app := fiber.New()
	app.Get("/", func(c fiber.Ctx) error {
		return c.SendString(string(c.Request().URI().QueryString()))
	})
	go func() { _ = app.Listener(ln, fiber.ListenConfig{DisableStartupMessage: true}) }() //nolint:errcheck // test server
	defer func() { _ = app.Shutdown() }()                                                 //nolint:errcheck // test server

	cl := New().SetDial(func(string) (net.Conn, error) { return ln.Dial() })

	// request level
	req := AcquireRequest().SetClient(cl)
	req.AddParam("k", "a").AddParam("k", "b").SetParam("k", "c")
	if got := req.Param("k"); len(got) != 1 || got[0] != "c" {
		t.Errorf("Request.Param(k) after AddParam(a), AddParam(b), SetParam(c) = %q, want [c]", got)
	}
	resp, err := req.Get("http://example.com/")
	if err != nil {
		t.Fatal(err)
	}
	if got, want := resp.String(), "k=c"; got != want {
		t.Errorf("server received query %q, want %q", got, want)
	}
	resp.Close()

	// the map variant
	req2 := AcquireRequest().SetClient(cl)
	req2.AddParams(map[string][]string{"m": {"a", "b"}}).SetParams(map[string]string{"m": "c"})
	if got := req2.Param("m"); len(got) != 1 || got[0] != "c" {
		t.Errorf("Request.Param(m) after AddParams(m: a, b), SetParams(m: c) = %q, want [c]", got)
	}

	// client level
	cl.AddParam("k", "a").AddParam("k", "b").SetParam("k", "c")
	if got := cl.Param("k"); len(got) != 1 || got[0] != "c" {
		t.Errorf("Client.Param(k) after AddParam(a), AddParam(b), SetParam(c) = %q, want [c]", got)
	}
}
