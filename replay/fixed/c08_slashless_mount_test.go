// place in: .
package fiber

import (
	"errors"
	"io"
	"net/http/httptest"
	"testing"
)

// C08-a: a sub-app mounted under a prefix written without the leading slash is routed under
// "/api"; the errors of its routes belong to its own error handler.
func TestFVCTriageC08a(t *testing.T) {
	for _, prefix := range []string{"/api", "api"} {
		root := New(Config{ErrorHandler: func(c Ctx, _ error) error { return c.Status(500).SendString("root") }})
		sub := New(Config{ErrorHandler: func(c Ctx, _ error) error { return c.Status(500).SendString("sub") }})
		sub.Get("/x", func(Ctx) error { return errors.New("boom") })
		root.Use(prefix, sub)

		resp, err := root.Test(httptest.NewRequest(MethodGet, "/api/x", nil))
		if err != nil {
			t.Fatal(err)
		}
		body, _ := io.ReadAll(resp.Body)
		if string(body) != "sub" {
			t.Errorf("Use(%q, sub): error of the sub-app's route /api/x was handled by %q, want sub", prefix, body)
		}
	}
}
