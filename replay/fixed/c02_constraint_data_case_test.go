// place in: .
package fiber

import (
	"io"
	"net/http/httptest"
	"testing"
)

// C02-b: under the default configuration (CaseSensitive: false) the data of a constraint must be
// taken as declared, not lower-cased together with the route's constant parts.
func TestFVCTriageC02b(t *testing.T) {
	app := New()
	app.Get("/re/:x<regex(^[A-Z]+$)>", func(c Ctx) error { return c.SendString("x=" + c.Params("x")) })
	// Go layout "Jan" = month name; lower-cased "jan" is a literal text
	app.Get("/dt/:d<datetime(2006-Jan-02)>", func(c Ctx) error { return c.SendString("d=" + c.Params("d")) })

	for _, tc := range []struct {
		path string
		want int
	}{
		{"/re/abc", 404},         // violates ^[A-Z]+$
		{"/re/ABC", 200},         // satisfies it
		{"/dt/2024-jan-05", 200}, // time.Parse accepts month names case-insensitively
		{"/dt/2024-Feb-05", 200}, // satisfies the layout 2006-Jan-02
		{"/dt/2024-xyz-05", 404},
	} {
		resp, err := app.Test(httptest.NewRequest(MethodGet, tc.path, nil))
		if err != nil {
			t.Fatal(err)
		}
		body, _ := io.ReadAll(resp.Body)
		if resp.StatusCode != tc.want {
			t.Errorf("GET %s: status %d body %q, want %d", tc.path, resp.StatusCode, body, tc.want)
		}
	}
}
