// place in: middleware/limiter
package limiter

import (
	"net/http"
	"net/http/httptest"
	"testing"
	"time"

	"github.com/gofiber/fiber/v3"
)

// C13-b: with SkipFailedRequests a failed request is not counted - also when the handler fails the
// idiomatic way, by RETURNING fiber.ErrBadRequest (the status is written by the error handler later);
// "no request is rejected while the budget is not exhausted".
// Mirror image with SkipSuccessfulRequests: returned errors ARE failed requests and must be counted.
func TestFVCTriageC13b(t *testing.T) {
	for _, lm := range []struct {
		name string
		mw   Handler
	}{{"fixed", FixedWindow{}}, {"sliding", SlidingWindow{}}} {
		t.Run(lm.name+"/SkipFailedRequests", func(t *testing.T) {
			app := fiber.New()
			app.Use(New(Config{
				Max:                1,
				Expiration:         30 * time.Second,
				SkipFailedRequests: true,
				LimiterMiddleware:  lm.mw,
				KeyGenerator:       func(fiber.Ctx) string { return "k" },
			}))
			app.Get("/fail-set", func(c fiber.Ctx) error { return c.SendStatus(fiber.StatusBadRequest) })
			app.Get("/fail-return", func(fiber.Ctx) error { return fiber.ErrBadRequest })
			app.Get("/ok", func(c fiber.Ctx) error { return c.SendStatus(fiber.StatusOK) })

			status := func(path string) int {
				resp, err := app.Test(httptest.NewRequest(http.MethodGet, path, nil))
				if err != nil {
					t.Fatal(err)
				}
				return resp.StatusCode
			}

			// reference: status set by the handler -> skipped
			if got := status("/fail-set"); got != 400 {
				t.Fatalf("/fail-set: %d", got)
			}
			// returned error -> must be skipped just the same
			if got := status("/fail-return"); got != 400 {
				t.Fatalf("/fail-return: %d (a failed request before it was counted although failed requests are skipped)", got)
			}
			// the budget (Max 1) is untouched: this request must be admitted
			if got := status("/ok"); got != 200 {
				t.Errorf("/ok after two failed requests: status %d, want 200 - the failed request that returned fiber.ErrBadRequest was counted", got)
			}
		})

		t.Run(lm.name+"/SkipSuccessfulRequests", func(t *testing.T) {
			app := fiber.New()
			app.Use(New(Config{
				Max:                    1,
				Expiration:             30 * time.Second,
				SkipSuccessfulRequests: true,
				LimiterMiddleware:      lm.mw,
				KeyGenerator:           func(fiber.Ctx) string { return "k" },
			}))
			reached := 0
			app.Get("/fail-return", func(fiber.Ctx) error { reached++; return fiber.ErrBadRequest })

			for i := 0; i < 3; i++ {
				resp, err := app.Test(httptest.NewRequest(http.MethodGet, "/fail-return", nil))
				if err != nil {
					t.Fatal(err)
				}
				_ = resp
			}
			if reached > 1 {
				t.Errorf("Max 1, only failed requests count: %d failed requests reached the handler (returned errors were taken for successes and un-counted)", reached)
			}
		})
	}
}
