package fiber

// Replay of the counterexample to (*App).ErrorHandler/inv:loop1.preserve:best-is-scoped#4 and
// .../inv:loop1.preserve:no-longer-scoped-seen#4 (property C08; the invariants are the postcondition
// innermost-scoped-else-root restricted to the keys visited so far): the error handler is a function of
// the request path and the mount structure alone, and a mount prefix only "contains" a path on a segment
// boundary.
// Counterexample: sibling mounts "/api" and "/api-v2", each sub-app with its own ErrorHandler; request
// path "/api-v2/x". "/api" is a string prefix of the path but not a segment prefix, both prefixes have
// two "/"-separated parts, and ErrorHandler keeps the LAST of them in map iteration order: in a fraction
// of fresh apps the "/api" handler receives the error of the "/api-v2" sub-app.

import (
	"errors"
	"net/http/httptest"
	"testing"
)

func TestFVCKnownC08SiblingPrefix(t *testing.T) {
	const runs = 400
	wrong := 0
	for i := 0; i < runs; i++ {
		got := ""
		api := New(Config{ErrorHandler: func(c Ctx, _ error) error {
			got = "api"
			return c.SendStatus(StatusTeapot)
		}})
		apiV2 := New(Config{ErrorHandler: func(c Ctx, _ error) error {
			got = "api-v2"
			return c.SendStatus(StatusTeapot)
		}})
		apiV2.Get("/x", func(Ctx) error { return errors.New("boom") })
		app := New()
		app.Use("/api", api)
		app.Use("/api-v2", apiV2)

		if _, err := app.Test(httptest.NewRequest(MethodGet, "/api-v2/x", nil)); err != nil {
			t.Fatal(err)
		}
		if got != "api-v2" {
			wrong++
		}
	}
	if wrong != 0 {
		t.Fatalf("error raised under /api-v2/x: in %d of %d fresh apps it was delivered to the handler of the sibling mount /api", wrong, runs)
	}
}
