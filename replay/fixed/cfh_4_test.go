// place in: middleware/idempotency
package idempotency

// Replay of the counterexample to idempotency.New$1/inv:loop2.init:others-visited (property C17: every duplicate
// receives the same status, body and kept headers as the execution whose response was stored).
// The obligation fails once (*ResponseHeader).Del is specified as fasthttp behaves: deleting a header fills the hole
// with the LAST entry of the header list, so the values of OTHER names may change their order.
// The replay deletes and re-adds the stored headers one name after the other (map order). When a multi-valued header
// (here Link: <a>, <b>) has been re-added and a LATER name of the loop is one that the response already carried (here
// X-Frame-Options, set by a middleware in front of idempotency: cors, helmet, requestid do that), the Del of that name
// swaps the last Link value into its place: the duplicate receives Link: <b>, <a>. The order of field lines with the
// same name is significant (RFC 9110, 5.3).

import (
	"net/http/httptest"
	"reflect"
	"testing"

	"github.com/gofiber/fiber/v3"
)

func TestFVCKnownC17ReplayReordersValues(t *testing.T) {
	app := fiber.New()
	app.Use(func(c fiber.Ctx) error {
		c.Set("X-Frame-Options", "DENY")
		return c.Next()
	})
	app.Use(New())
	runs := 0
	app.Post("/", func(c fiber.Ctx) error {
		runs++
		c.Response().Header.Add("Link", "<a>")
		c.Response().Header.Add("Link", "<b>")
		return c.SendString("done")
	})
	do := func() []string {
		req := httptest.NewRequest(fiber.MethodPost, "/", nil)
		req.Header.Set("X-Idempotency-Key", "00000000-0000-0000-0000-000000000000")
		resp, err := app.Test(req)
		if err != nil {
			t.Fatal(err)
		}
		return resp.Header.Values("Link")
	}
	first := do()
	if want := []string{"<a>", "<b>"}; !reflect.DeepEqual(first, want) {
		t.Fatalf("first answer carries Link %q, want %q", first, want)
	}
	// the replay ranges over a map: the order of the names differs from duplicate to duplicate
	for i := 0; i < 64; i++ {
		if got := do(); !reflect.DeepEqual(got, first) {
			t.Fatalf("duplicate %d: first answer carries Link %q, the replayed answer %q", i+1, first, got)
		}
	}
	if runs != 1 {
		t.Fatalf("handler ran %d times", runs)
	}
}
