// place in: middleware/csrf
package csrf

import (
	"strings"
	"testing"

	"github.com/gofiber/fiber/v3"
	"github.com/valyala/fasthttp"
)

// C16-a: a wildcard trusted origin must be matched against the ORIGIN (scheme://host) of the
// Origin header, not against the raw header text. None of the origins below is a subdomain of
// example.com, so an unsafe request carrying them must not reach the protected handler.
func TestFVCTriageC16a(t *testing.T) {
	ran := 0
	app := fiber.New()
	app.Use(New(Config{TrustedOrigins: []string{"https://*.example.com"}}))
	app.Post("/", func(c fiber.Ctx) error {
		ran++
		return c.SendStatus(fiber.StatusOK)
	})
	h := app.Handler()

	ctx := &fasthttp.RequestCtx{}
	ctx.Request.Header.SetMethod(fiber.MethodGet)
	h(ctx)
	token := string(ctx.Response.Header.Peek(fiber.HeaderSetCookie))
	token = strings.Split(strings.Split(token, ";")[0], "=")[1]
	if token == "" {
		t.Fatal("no token issued")
	}

	post := func(origin string) int {
		ctx.Request.Reset()
		ctx.Response.Reset()
		ctx.Request.Header.SetMethod(fiber.MethodPost)
		ctx.Request.URI().SetScheme("http")
		ctx.Request.URI().SetHost("victim.test")
		ctx.Request.Header.SetHost("victim.test")
		ctx.Request.Header.Set(fiber.HeaderOrigin, origin)
		ctx.Request.Header.Set(HeaderName, token)
		ctx.Request.Header.SetCookie(ConfigDefault.CookieName, token)
		h(ctx)
		return ctx.Response.StatusCode()
	}

	// control: a real subdomain is accepted, a foreign origin is rejected
	if st := post("https://a.example.com"); st != fiber.StatusOK {
		t.Fatalf("control: real subdomain got %d", st)
	}
	if st := post("https://attacker.com"); st != fiber.StatusForbidden {
		t.Fatalf("control: foreign origin got %d", st)
	}

	for _, origin := range []string{
		"https://attacker.com/.example.com",
		"https://attacker.com#.example.com",
		"https://attacker.com?.example.com",
		"https://attacker.com/x?y=.example.com",
	} {
		before := ran
		st := post(origin)
		if st != fiber.StatusForbidden || ran != before {
			t.Errorf("Origin %q (host attacker.com) passed the wildcard https://*.example.com: status %d, handler ran=%v", origin, st, ran != before)
		}
	}
}
