package cors

// Replay of the counterexamples to cors.New/safety:bounds:strslice#3 and
// cors.New/inv:loop1.preserve:wildcard-entries-traced#2 (cors.go:53, property C19: Access-Control-Allow-Origin
// only for origins permitted by the configuration; a wildcard entry matches on scheme and a dot-separated host
// suffix). New trims blanks off a configured wildcard origin, but splits the NORMALISED origin at the index the
// marker "://*." had in the UNTRIMMED entry.
// Counterexample 1: AllowOrigins = ["          http://*.a"] (10 leading blanks): index 14 in the untrimmed
// entry, the normalised origin "http://.a" has 9 bytes: New dies with a slice-bounds runtime error instead of
// accepting the entry or reporting "[CORS] Invalid origin format".
// Counterexample 2: AllowOrigins = [" https://*.example.com"] (1 leading blank): no panic, but the entry is split
// into prefix "https://." / suffix "example.com": the look-alike "https://.evilexample.com" (not a subdomain of
// example.com) gets Access-Control-Allow-Origin, the subdomain "https://a.example.com" does not.

import (
	"fmt"
	"runtime"
	"strings"
	"testing"

	"github.com/gofiber/fiber/v3"
	"github.com/valyala/fasthttp"
)

func TestFVCKnownC19WildcardLeadingSpace(t *testing.T) {
	func() {
		defer func() {
			if r := recover(); r != nil {
				if re, ok := r.(runtime.Error); ok {
					t.Errorf("New(AllowOrigins: [%q]) died with a runtime error: %v", "          http://*.a", re)
				} else if !strings.Contains(fmt.Sprint(r), "[CORS] Invalid origin format") {
					t.Errorf("unexpected panic: %v", r)
				}
			}
		}()
		New(Config{AllowOrigins: []string{"          http://*.a"}})
	}()

	app := fiber.New()
	app.Use(New(Config{AllowOrigins: []string{" https://*.example.com"}}))
	app.Get("/", func(c fiber.Ctx) error { return c.SendStatus(fiber.StatusOK) })
	h := app.Handler()
	acao := func(origin string) string {
		ctx := &fasthttp.RequestCtx{}
		ctx.Request.Header.SetMethod(fiber.MethodGet)
		ctx.Request.Header.Set(fiber.HeaderOrigin, origin)
		h(ctx)
		return string(ctx.Response.Header.Peek(fiber.HeaderAccessControlAllowOrigin))
	}
	if got := acao("https://.evilexample.com"); got != "" {
		t.Errorf("Origin https://.evilexample.com is not a subdomain of example.com but got Access-Control-Allow-Origin %q", got)
	}
	if got := acao("https://a.example.com"); got != "https://a.example.com" {
		t.Errorf("Origin https://a.example.com is a subdomain of the configured *.example.com but got Access-Control-Allow-Origin %q", got)
	}
}
