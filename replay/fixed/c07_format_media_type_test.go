// place in: .
package fiber

// Triage replay C07-b: a media type handed to Format must not add a header line to the reply. Format stores the
// selected ResFmt.MediaType with ResponseHeader.SetContentType, which keeps the bytes verbatim (Set/Add replace
// CR and LF). Both branches are driven: no Accept header (first offer) and an Accept that matches the offer.

import (
	"bufio"
	"bytes"
	"net/http"
	"testing"

	"github.com/valyala/fasthttp"
)

func TestFVCTriageC07b(t *testing.T) {
	evil := "text/plain\r\nX-Injected: 1"
	cases := []struct {
		name   string
		accept string
	}{
		{"no Accept header (first offer)", ""},
		{"Accept */* (matched offer)", "*/*"},
	}
	for _, tc := range cases {
		app := New()
		app.Get("/", func(c Ctx) error {
			return c.Format(ResFmt{MediaType: evil, Handler: func(c Ctx) error { return c.SendString("ok") }})
		})
		fctx := &fasthttp.RequestCtx{}
		fctx.Request.Header.SetMethod(MethodGet)
		fctx.Request.SetRequestURI("/")
		if tc.accept != "" {
			fctx.Request.Header.Set(HeaderAccept, tc.accept)
		}
		app.Handler()(fctx)

		var wire bytes.Buffer
		bw := bufio.NewWriter(&wire)
		if err := fctx.Response.Write(bw); err != nil {
			t.Fatal(err)
		}
		_ = bw.Flush()
		resp, err := http.ReadResponse(bufio.NewReader(bytes.NewReader(wire.Bytes())), nil)
		if err != nil {
			t.Errorf("%s: a strict client cannot parse the response: %v\n%q", tc.name, err, wire.String())
			continue
		}
		if v := resp.Header.Get("X-Injected"); v != "" {
			t.Errorf("%s: the media type added the header line \"X-Injected: %s\"\n%q", tc.name, v, wire.String())
		}
		if resp.StatusCode == StatusOK && !bytes.HasPrefix([]byte(resp.Header.Get(HeaderContentType)), []byte("text/plain")) {
			t.Errorf("%s: Content-Type %q, want the selected media type on one line", tc.name, resp.Header.Get(HeaderContentType))
		}
		_ = resp.Body.Close()
	}
}
