// place in: .
package fiber

import (
	"net/http/httptest"
	"testing"
)

// C02-a: the pattern `/\*` (escaped star) describes the literal path "/*" only.
func TestFVCTriageC02a(t *testing.T) {
	app := New()
	app.Get("/\\*", func(c Ctx) error { return c.SendString("H:" + c.Params("*")) })
	app.Get("/:a/\\*", func(c Ctx) error { return c.SendString("A:" + c.Params("a")) }) // control: escape works elsewhere

	for _, tc := range []struct {
		path string
		want int
	}{
		{"/*", 200},
		{"/x/*", 200},
		{"/foo", 404},
		{"/re/abc", 404},
		{"/", 404},
		{"/x/y", 404},
	} {
		resp, err := app.Test(httptest.NewRequest(MethodGet, tc.path, nil))
		if err != nil {
			t.Fatal(err)
		}
		if resp.StatusCode != tc.want {
			t.Errorf("GET %s: status %d, want %d (pattern `/\\*` must match the literal path /* only)", tc.path, resp.StatusCode, tc.want)
		}
	}
}
