// place in: client
package client

import (
	"strings"
	"testing"

	"github.com/gofiber/fiber/v3"
)

// C18-b: sending the same Request several times must put the same request on the wire each time
// ("the resulting request is a deterministic function of the configuration").
func TestFVCTriageC18b(t *testing.T) {
	app, dial, start := createHelperServer(t)
	app.Get("/", func(c fiber.Ctx) error {
		var one, cl, multi []string
		c.Request().Header.VisitAll(func(k, v []byte) {
			switch string(k) {
			case "X-One":
				one = append(one, string(v))
			case "X-Client":
				cl = append(cl, string(v))
			case "X-Multi":
				multi = append(multi, string(v))
			}
		})
		return c.SendString("X-One=" + strings.Join(one, ",") + " X-Client=" + strings.Join(cl, ",") + " X-Multi=" + strings.Join(multi, ",") + " q=" + string(c.Request().URI().QueryString()))
	})
	go start()

	cl := New().SetDial(dial).SetHeader("X-Client", "c")
	rq := cl.R().SetHeader("X-One", "1").AddHeader("X-Multi", "a").AddHeader("X-Multi", "b").SetParam("p", "v")
	defer ReleaseRequest(rq)

	const want = "X-One=1 X-Client=c X-Multi=a,b q=p=v"
	for i := 1; i <= 3; i++ {
		resp, err := rq.Get("http://example.com")
		if err != nil {
			t.Fatal(err)
		}
		got := resp.String()
		ReleaseResponse(resp) // not resp.Close(): that would also release the Request we keep sending
		if got != want {
			t.Errorf("send #%d: server saw %q, want %q", i, got, want)
		}
	}
}
