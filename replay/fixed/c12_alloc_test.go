package fiber

// Known finding for property C12 (obligation
// fiber.(*Redirect).parseAndClearFlashMessages/pre:(*redirectionMsgs).UnmarshalMsg:count-bounded-by-input):
// "decoding costs time and memory at most proportional to [the cookie's] length".
// The generated decoder allocates make(redirectionMsgs, n) with n read from the cookie before a single
// element is decoded: the 3-byte value \xdc\xff\xff (array16 header, n = 65535) makes the server allocate
// 65535 * 40 bytes = 2.6 MB for one request (\xdd\xff\xff\xff\xff asks for 171 GB).

import (
	"net/http/httptest"
	"runtime"
	"testing"
)

func TestFVCKnownC12Alloc(t *testing.T) {
	app := New()
	app.Get("/", func(c Ctx) error {
		return c.SendString("ok")
	})
	serve := func(cookie string) uint64 {
		req := httptest.NewRequest(MethodGet, "/", nil)
		req.Header.Set("Cookie", cookie)
		var m0, m1 runtime.MemStats
		runtime.ReadMemStats(&m0)
		resp, err := app.Test(req)
		runtime.ReadMemStats(&m1)
		if err != nil {
			t.Fatalf("request failed: %v", err)
		}
		_ = resp.Body.Close()
		return m1.TotalAlloc - m0.TotalAlloc
	}
	serve("fiber_flash=abc") // warm-up (pools, server start)
	base := serve("fiber_flash=abc")
	bad := serve("fiber_flash=\xdc\xff\xff")
	t.Logf("bytes allocated while serving: 3-byte benign cookie %d, 3-byte cookie \\xdc\\xff\\xff %d", base, bad)
	if bad > base+256*1024 {
		t.Fatalf("C12 violated: a 3-byte fiber_flash cookie made the server allocate %d bytes (%d more than for a benign 3-byte cookie): memory is not proportional to the cookie length", bad, bad-base)
	}
}
