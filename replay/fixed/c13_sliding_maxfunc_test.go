package limiter

// Replay for limiter.(SlidingWindow).New$1/atcall:Ctx.Next:admitted-within-rate (property C13):
// the limit of a request is the value returned by MaxFunc for that request.

import (
	"net/http/httptest"
	"testing"
	"time"

	"github.com/gofiber/fiber/v3"
)

func TestFVCReplayC13SlidingMaxFunc(t *testing.T) {
	app := fiber.New()
	app.Use(New(Config{
		Max:               5,
		MaxFunc:           func(fiber.Ctx) int { return 1 },
		Expiration:        10 * time.Second,
		LimiterMiddleware: SlidingWindow{},
	}))
	app.Get("/", func(c fiber.Ctx) error { return c.SendString("ok") })
	admitted := 0
	for i := 0; i < 4; i++ {
		resp, err := app.Test(httptest.NewRequest(fiber.MethodGet, "/", nil))
		if err != nil {
			t.Fatal(err)
		}
		if resp.StatusCode == fiber.StatusOK {
			admitted++
		}
	}
	if admitted > 1 {
		t.Fatalf("MaxFunc returns 1 but %d of 4 requests in one window reached the handler", admitted)
	}
}
