package fiber

// Known finding for property C12 (obligation
// fiber.(*Redirect).parseAndClearFlashMessages/post:consumed-cookie-expired):
// "... the handler of the next request carrying the issued cookie, whose response expires that cookie so
// that a conforming client presents them exactly once".
// parseAndClearFlashMessages never clears anything: the response to the request that consumed the flash
// cookie carries no Set-Cookie for fiber_flash, so a conforming client keeps presenting the (session)
// cookie and the messages are shown on every later page.

import (
	"net/http/httptest"
	"strings"
	"testing"
)

func TestFVCKnownC12NotExpired(t *testing.T) {
	app := New()
	app.Get("/redirect", func(c Ctx) error {
		return c.Redirect().With("note", "saved", 33).To("/")
	})
	app.Get("/", func(c Ctx) error {
		return c.SendString(c.Redirect().Message("note").Value)
	})

	resp, err := app.Test(httptest.NewRequest(MethodGet, "/redirect", nil))
	if err != nil {
		t.Fatal(err)
	}
	setCookie := resp.Header.Get("Set-Cookie")
	if !strings.HasPrefix(setCookie, "fiber_flash=") {
		t.Fatalf("no flash cookie issued: %q", setCookie)
	}
	value, _, _ := strings.Cut(strings.TrimPrefix(setCookie, "fiber_flash="), ";")

	req := httptest.NewRequest(MethodGet, "/", nil)
	req.Header.Set("Cookie", "fiber_flash="+value)
	resp, err = app.Test(req)
	if err != nil {
		t.Fatal(err)
	}
	expired := false
	for _, sc := range resp.Header.Values("Set-Cookie") {
		lc := strings.ToLower(sc)
		if strings.HasPrefix(sc, "fiber_flash=") && (strings.Contains(lc, "expires=tue, 10 nov 2009") || strings.Contains(lc, "max-age=0") || strings.Contains(lc, "max-age=-")) {
			expired = true
		}
	}
	if !expired {
		t.Fatalf("C12 violated: the response that consumed the flash cookie does not expire it (Set-Cookie headers: %q): a conforming client presents the messages again on every request", resp.Header.Values("Set-Cookie"))
	}
}
