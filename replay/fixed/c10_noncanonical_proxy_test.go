// place in: .
package fiber

// Replay for property C10: "a peer inside the set [listed addresses, ...] gets the documented forwarded values".
// handleTrustedProxy filed a listed address under the TEXT of the configuration entry, IsProxyTrusted looks the peer up
// under net.IP.String(): a listed IPv6 proxy written in any but the canonical form (upper case, a spelled-out zero
// group, an IPv4-mapped form) was never trusted and its forwarding headers were ignored.

import (
	"net"
	"testing"

	"github.com/valyala/fasthttp"
)

func TestFVCReplayC10NonCanonicalProxy(t *testing.T) {
	for _, tc := range []struct{ listed, peer string }{
		{"2001:db8::1", "2001:db8::1"}, // reference: canonical text
		{"2001:DB8::1", "2001:db8::1"},
		{"2001:db8:0::1", "2001:db8::1"},
		{"0:0:0:0:0:0:0:1", "::1"},
		{"::ffff:10.0.0.1", "10.0.0.1"},
	} {
		app := New(Config{TrustProxy: true, TrustProxyConfig: TrustProxyConfig{Proxies: []string{tc.listed}}})
		var trusted bool
		var host string
		app.Get("/", func(c Ctx) error {
			trusted = c.IsProxyTrusted()
			host = c.Host()
			return nil
		})
		fctx := &fasthttp.RequestCtx{}
		fctx.Request.Header.SetMethod(MethodGet)
		fctx.Request.SetRequestURI("http://a.example/")
		fctx.Request.Header.Set(HeaderXForwardedHost, "forwarded.example")
		fctx.SetRemoteAddr(&net.TCPAddr{IP: net.ParseIP(tc.peer), Port: 4000})
		app.Handler()(fctx)
		if !trusted || host != "forwarded.example" {
			t.Errorf("Proxies [%q], peer %s: IsProxyTrusted() = %v, Host() = %q; want the listed proxy trusted and its X-Forwarded-Host used", tc.listed, tc.peer, trusted, host)
		}
	}
}
