// place in: client
package client

import (
	"testing"

	"github.com/gofiber/fiber/v3"
)

// C18-c: a Request taken from the pool must not be bound to the client of its previous user: what it
// sends must be a function of ITS configuration (here: none, i.e. the default client), not of the
// headers / cookies / jar of the client that used the pooled object before.
func TestFVCTriageC18c(t *testing.T) {
	app, dial, start := createHelperServer(t)
	app.Get("/", func(c fiber.Ctx) error {
		return c.SendString("auth=" + c.Get("Authorization") + " cookie=" + c.Cookies("sid"))
	})
	go start()

	// the default client of this test: plain, dials the in-memory server
	restore := Replace(New().SetDial(dial))
	defer restore()

	secret := New().SetDial(dial).
		SetHeader("Authorization", "Bearer secret-token").
		SetCookie("sid", "secret-session")

	// The pool is per-P and may hand out a fresh object; try until the released object comes back
	// (normally the first attempt), so the outcome does not depend on pool luck.
	for attempt := 0; attempt < 100; attempt++ {
		rq := secret.R()
		ReleaseRequest(rq)

		fresh := AcquireRequest()
		same := fresh == rq
		if c := fresh.Client(); c != nil {
			t.Errorf("AcquireRequest() returned a Request already bound to a client (previous user's: %v)", c == secret)
		}
		resp, err := fresh.Get("http://example.com")
		if err != nil {
			t.Fatal(err)
		}
		got := resp.String()
		resp.Close() // releases fresh as well
		if got != "auth= cookie=" {
			t.Errorf("request without own configuration went out through the previous client: server saw %q", got)
		}
		if same {
			return
		}
	}
	t.Skip("pool never returned the released Request")
}
