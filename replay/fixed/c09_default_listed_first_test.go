// place in: .
package fiber

import (
	"testing"

	"github.com/valyala/fasthttp"
)

// C09-d: "default" marks the fallback handler of Format, it is not an offer: with an Accept header it is
// taken out of the offer list wherever it stands. Without an Accept header the first OFFER is selected.
func TestFVCTriageC09d(t *testing.T) {
	app := New()

	run := func(accept string, types ...string) (chosen, ctype string, status int) {
		c := app.AcquireCtx(&fasthttp.RequestCtx{})
		defer app.ReleaseCtx(c)
		if accept != "" {
			c.Request().Header.Set(HeaderAccept, accept)
		}
		hs := make([]ResFmt, 0, len(types))
		for _, mt := range types {
			hs = append(hs, ResFmt{MediaType: mt, Handler: func(Ctx) error { chosen = mt; return nil }})
		}
		if err := c.Format(hs...); err != nil {
			t.Fatalf("Format: %v", err)
		}
		return chosen, string(c.Response().Header.ContentType()), c.Response().StatusCode()
	}

	// control: the position of "default" does not matter when the header is present
	if chosen, ctype, _ := run("text/plain", "default", "text/plain"); chosen != "text/plain" || ctype != "text/plain" {
		t.Errorf(`Accept text/plain, handlers default,text/plain: ran %q with Content-Type %q`, chosen, ctype)
	}
	// control: default listed last, no header
	if chosen, ctype, _ := run("", "text/plain", "default"); chosen != "text/plain" || ctype != "text/plain" {
		t.Errorf(`no Accept, handlers text/plain,default: ran %q with Content-Type %q`, chosen, ctype)
	}

	chosen, ctype, _ := run("", "default", "text/plain", "application/json")
	if chosen != "text/plain" {
		t.Errorf(`no Accept, handlers default,text/plain,application/json: ran the %q handler, want the first offer "text/plain"`, chosen)
	}
	if ctype != "text/plain" {
		t.Errorf(`no Accept, handlers default,text/plain,application/json: Content-Type %q, want "text/plain"`, ctype)
	}

	// only a fallback: it runs, and "default" is never sent as a media type
	chosen, ctype, _ = run("", "default")
	if chosen != "default" {
		t.Errorf(`no Accept, handlers default: ran %q`, chosen)
	}
	if ctype == "default" {
		t.Errorf(`no Accept, handlers default: Content-Type %q was sent`, ctype)
	}
}
