package fiber

// Replay of the counterexample to fiber.(*DefaultCtx).Protocol/post:immutable-stable (property C06): with
// Config.Immutable the protocol string obtained from the context keeps its content after the handler returns.
// Counterexample: Protocol returns utils.UnsafeString(c.fasthttp.Request.Header.Protocol()) - a view of the
// request header's protocol buffer, which the next request on the same connection overwrites in place.
// History: a request with protocol HTTP/1.0 (the handler keeps c.Protocol()), then a request with protocol
// HTTP/2.0 through the same fasthttp.RequestCtx: the kept value now reads "HTTP/2.0".

import (
	"testing"

	"github.com/valyala/fasthttp"
)

func TestFVCKnownC06Protocol(t *testing.T) {
	app := New(Config{Immutable: true})
	var kept []string
	app.Get("/", func(c Ctx) error {
		kept = append(kept, c.Protocol())
		return nil
	})
	h := app.Handler()
	fctx := &fasthttp.RequestCtx{}
	do := func(proto string) {
		fctx.Request.Reset()
		fctx.Response.Reset()
		fctx.Request.Header.SetMethod(MethodGet)
		fctx.Request.SetRequestURI("/")
		fctx.Request.Header.SetProtocol(proto)
		h(fctx)
	}
	do("HTTP/1.0")
	if len(kept) != 1 || kept[0] != "HTTP/1.0" {
		t.Fatalf("setup: first request captured %q", kept)
	}
	do("HTTP/2.0")
	if kept[0] != "HTTP/1.0" {
		t.Fatalf("Immutable: the value kept from request 1 (Protocol() == \"HTTP/1.0\") reads %q after the next request on the same connection", kept[0])
	}
}
