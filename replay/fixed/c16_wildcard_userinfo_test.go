package csrf

// Replay of the counterexample to csrf.normalizeOrigin/post:valid-has-no-userinfo (helpers.go:47, property C16: an
// unsafe request passes only from the same origin or a configured trusted origin; a wildcard entry trusts the
// subdomains of its domain). normalizeOrigin accepts a URL with userinfo and silently drops it. For a wildcard entry
// New removes the '*' and splits the normalised text behind "scheme://": with
// TrustedOrigins = ["https://*.cdn@example.com"] the text without the star is "https://.cdn@example.com", its host is
// "example.com" (".cdn" is userinfo), and the entry is stored as prefix "https://" / suffix "example.com" - a suffix
// WITHOUT the leading dot. Every origin whose host merely ends in "example.com" is then trusted: a cross-site POST
// from https://evilexample.com passes the origin check. Expected: the entry is rejected like other malformed origins
// ("[CSRF] Invalid origin format in configuration"), or at least never trusts a look-alike host.

import (
	"strings"
	"testing"

	"github.com/gofiber/fiber/v3"
	"github.com/valyala/fasthttp"
)

func TestFVCKnownC16WildcardUserinfo(t *testing.T) {
	var h fasthttp.RequestHandler
	func() {
		defer func() {
			if r := recover(); r != nil {
				t.Logf("entry rejected at configuration time: %v", r)
			}
		}()
		app := fiber.New()
		app.Use(New(Config{TrustedOrigins: []string{"https://*.cdn@example.com"}}))
		app.All("/", func(c fiber.Ctx) error { return c.SendStatus(fiber.StatusOK) })
		h = app.Handler()
	}()
	if h == nil {
		return // rejected: fine
	}
	ctx := &fasthttp.RequestCtx{}
	ctx.Request.Header.SetMethod(fiber.MethodGet)
	h(ctx)
	token := string(ctx.Response.Header.Peek(fiber.HeaderSetCookie))
	token = strings.Split(strings.Split(token, ";")[0], "=")[1]
	ctx.Request.Reset()
	ctx.Response.Reset()
	ctx.Request.Header.SetMethod(fiber.MethodPost)
	ctx.Request.URI().SetHost("shop.test")
	ctx.Request.Header.SetHost("shop.test")
	ctx.Request.Header.Set(fiber.HeaderOrigin, "https://evilexample.com")
	ctx.Request.Header.Set(HeaderName, token)
	ctx.Request.Header.SetCookie(ConfigDefault.CookieName, token)
	h(ctx)
	if st := ctx.Response.StatusCode(); st != fiber.StatusForbidden {
		t.Errorf("Origin https://evilexample.com is not a subdomain of example.com but the POST passed: status %d", st)
	}
}
