package fiber

// Bounded stand-in for property C12 (the wire round trip, which the contracts do not decide):
//   for every message set of <= 2 flash messages over keys/values {"", "a", "é", "a;b", " a"} and levels
//   {1, 33, 255} (With semantics: one entry per key, last wins), and for every set of <= 1 flash message
//   combined with <= 1 old-input field (keys {"a", "é", " a"}, same values) attached by WithInput:
//     1. GET /r        the handler attaches the set and redirects; the response is read by net/http's client parser
//     2. GET /show     a client that obeys RFC 6265 5.2 (value = bytes up to the first ';', outer white space
//                      trimmed) presents the cookie: the handler must see exactly the attached messages and
//                      old input, and the response must expire the cookie
//     3. GET /show     a request without the cookie on the same (pooled) application sees nothing
// Output: `FVC-CASES <cases> <distinct non-empty expected deliveries>`, one `FVC-FAIL <case>: <why>` per failing
// case; failing cases explained by a recorded known finding are reported (aggregated per kind) as
// `KNOWN-FINDING: property=C12 <what>` and do not fail the test:
//   cookie-unsafe  the raw MessagePack cookie value contains a control byte or ';' (level < 32, "a;b")
//   not-expired    the response that consumed the cookie does not expire it

import (
	"fmt"
	"io"
	"net/http/httptest"
	"net/url"
	"sort"
	"strings"
	"testing"
)

type fvcC12Msg struct {
	k, v string
	l    uint8
}

type fvcC12Case struct {
	msgs  []fvcC12Msg
	input [][2]string // old-input fields sent as the query of the redirecting request
}

func (c fvcC12Case) String() string {
	return fmt.Sprintf("With%q WithInput%q", c.msgs, c.input)
}

// the flash messages actually attached (With: one entry per key, last wins)
func (c fvcC12Case) effective() []fvcC12Msg {
	var list []fvcC12Msg
next:
	for _, m := range c.msgs {
		for i := range list {
			if list[i].k == m.k {
				list[i].v, list[i].l = m.v, m.l
				continue next
			}
		}
		list = append(list, m)
	}
	return list
}

// expected delivery in the canonical form printed by /show
func (c fvcC12Case) expected() string {
	var sb strings.Builder
	for _, m := range c.effective() {
		fmt.Fprintf(&sb, "F%q=%q/%d;", m.k, m.v, m.l)
	}
	in := append([][2]string(nil), c.input...)
	sort.Slice(in, func(i, j int) bool { return in[i][0] < in[j][0] })
	for _, f := range in {
		fmt.Fprintf(&sb, "I%q=%q;", f[0], f[1])
	}
	return sb.String()
}

func fvcC12TransportUnsafe(v string) bool {
	for i := 0; i < len(v); i++ {
		if v[i] < 0x20 || v[i] == 0x7f || v[i] == ';' {
			return true
		}
	}
	return false
}

func TestFVCBoundedC12RoundTrip(t *testing.T) {
	strs := []string{"", "a", "é", "a;b", " a"}
	levels := []uint8{1, 33, 255}
	var universe []fvcC12Msg
	for _, k := range strs {
		for _, v := range strs {
			for _, l := range levels {
				universe = append(universe, fvcC12Msg{k, v, l})
			}
		}
	}
	var cases []fvcC12Case
	cases = append(cases, fvcC12Case{})
	for _, a := range universe {
		cases = append(cases, fvcC12Case{msgs: []fvcC12Msg{a}})
		for _, b := range universe {
			cases = append(cases, fvcC12Case{msgs: []fvcC12Msg{a, b}})
		}
	}
	for _, ik := range []string{"a", "é", " a"} {
		for _, iv := range strs {
			in := [][2]string{{ik, iv}}
			cases = append(cases, fvcC12Case{input: in})
			for _, a := range universe {
				cases = append(cases, fvcC12Case{msgs: []fvcC12Msg{a}, input: in})
			}
		}
	}

	var cur fvcC12Case
	app := New()
	app.Get("/r", func(c Ctx) error {
		r := c.Redirect()
		for _, m := range cur.msgs {
			r.With(m.k, m.v, m.l)
		}
		if len(cur.input) > 0 {
			r.WithInput()
		}
		return r.To("/show")
	})
	app.Get("/show", func(c Ctx) error {
		var sb strings.Builder
		for _, m := range c.Redirect().Messages() {
			fmt.Fprintf(&sb, "F%q=%q/%d;", m.Key, m.Value, m.Level)
			if got := c.Redirect().Message(m.Key); got.Key != m.Key {
				fmt.Fprintf(&sb, "!Message(%q)=%v;", m.Key, got)
			}
		}
		in := c.Redirect().OldInputs()
		sort.Slice(in, func(i, j int) bool { return in[i].Key < in[j].Key })
		for _, f := range in {
			fmt.Fprintf(&sb, "I%q=%q;", f.Key, f.Value)
			if got := c.Redirect().OldInput(f.Key); got.Key != f.Key || got.Value != f.Value {
				fmt.Fprintf(&sb, "!OldInput(%q)=%v;", f.Key, got)
			}
		}
		return c.SendString(sb.String())
	})

	known := map[string]int{}
	example := map[string]string{}
	note := func(kind string, c fvcC12Case, why string) {
		known[kind]++
		if _, ok := example[kind]; !ok {
			example[kind] = c.String() + ": " + why
		}
	}
	fails := 0
	fail := func(c fvcC12Case, why string) {
		fails++
		fmt.Printf("FVC-FAIL %s: %s\n", c, why)
	}
	distinct := map[string]bool{}

	show := func(cookie string) (body string, expired bool, err error) {
		req := httptest.NewRequest(MethodGet, "/show", nil)
		if cookie != "" {
			req.Header.Set("Cookie", cookie)
		}
		resp, err := app.Test(req)
		if err != nil {
			return "", false, err
		}
		b, _ := io.ReadAll(resp.Body)
		if resp.StatusCode != StatusOK {
			return "", false, fmt.Errorf("status %d", resp.StatusCode)
		}
		for _, sc := range resp.Header.Values("Set-Cookie") {
			lc := strings.ToLower(sc)
			if strings.HasPrefix(sc, "fiber_flash=") && (strings.Contains(lc, "expires=tue, 10 nov 2009") || strings.Contains(lc, "max-age=0")) {
				expired = true
			}
		}
		return string(b), expired, nil
	}

	for _, c := range cases {
		cur = c
		want := c.expected()
		if want != "" {
			distinct[want] = true
		}
		q := url.Values{}
		for _, f := range c.input {
			q.Set(f[0], f[1])
		}
		target := "/r"
		if len(q) > 0 {
			target += "?" + q.Encode()
		}
		// what the cookie value will be, to classify failures (the encoder is deterministic)
		unsafe := false
		for _, m := range c.effective() {
			unsafe = unsafe || m.l < 0x20 || fvcC12TransportUnsafe(m.k) || fvcC12TransportUnsafe(m.v)
		}
		for _, f := range c.input {
			unsafe = true // old input has level 0: the encoding contains a NUL byte
			_ = f
		}

		resp, err := app.Test(httptest.NewRequest(MethodGet, target, nil))
		if err != nil {
			if unsafe {
				note("cookie-unsafe", c, "client cannot parse the redirect response: "+err.Error())
			} else {
				fail(c, "redirect response: "+err.Error())
			}
			continue
		}
		value, issued := "", false
		nflash := 0
		for _, sc := range resp.Header.Values("Set-Cookie") {
			if strings.HasPrefix(sc, "fiber_flash=") {
				nflash++
				issued = true
				value, _, _ = strings.Cut(strings.TrimPrefix(sc, "fiber_flash="), ";")
				value = strings.Trim(value, " \t")
				lc := strings.ToLower(sc)
				if strings.Contains(lc, "expires=") || strings.Contains(lc, "max-age=") {
					fail(c, "flash cookie is not session-only: "+sc)
				}
			}
		}
		if want == "" {
			if issued {
				fail(c, "nothing attached but a flash cookie was issued")
			}
			continue
		}
		if nflash != 1 {
			fail(c, fmt.Sprintf("%d fiber_flash cookies issued, want exactly 1", nflash))
			continue
		}
		got, expired, err := show("fiber_flash=" + value)
		switch {
		case err != nil && unsafe:
			note("cookie-unsafe", c, "server rejects the replayed cookie: "+err.Error())
		case err != nil:
			fail(c, "replay: "+err.Error())
		case got != want && unsafe:
			note("cookie-unsafe", c, fmt.Sprintf("delivered %q, attached %q", got, want))
		case got != want:
			fail(c, fmt.Sprintf("delivered %q, attached %q", got, want))
		case !expired:
			note("not-expired", c, "the response that consumed the cookie does not expire it")
		}
		// a request without the cookie sees none
		if got, _, err := show(""); err != nil || got != "" {
			fail(c, fmt.Sprintf("request without the cookie sees %q (err %v)", got, err))
		}
	}

	fmt.Printf("FVC-CASES %d %d\n", len(cases), len(distinct))
	kinds := make([]string, 0, len(known))
	for k := range known {
		kinds = append(kinds, k)
	}
	sort.Strings(kinds)
	for _, k := range kinds {
		fmt.Printf("KNOWN-FINDING: property=C12 %s (%d cases, e.g. %s)\n", k, known[k], example[k])
	}
	if fails > 0 {
		t.Fatalf("%d of %d cases fail", fails, len(cases))
	}
}
