package fiber

// Bounded stand-in for property C04 (the equivalence over ALL mount trees needs an induction over programs that
// the contracts do not carry; the contracts in zz_contracts_c04_verif.go prove the kernel: prefix arithmetic,
// route cloning, the splice). THIS FILE IS A BOUNDED CHECK, NOT A PROOF.
//
// Contract that is compiled by hand into this test:
//   for every mount tree T and every request q:   observe(build(T), q) == observe(twin(T), q)
// where build(T) mounts the sub-applications (app.Use(prefix, sub) / app.Group(g).Use(prefix, sub)), twin(T)
// registers the very same routes, at the same position, through Group(prefix) on ONE application, and observe
// is (status code, ordered trace of the handlers that ran, each with Params("id"), Params("p") as it saw them).
// Every request is run in two handler modes: endpoints answer (status 200) / endpoints pass on with Next().
// Second part (Group/Route prefixes versus spelled-out paths): the same observation for an application that
// registers through Group(p1)[.Group(p2)] / Route(p1)[.Route(p2)] and one that registers the spelled-out path
// refJoin(refJoin(p1, p2), path) directly on the application. refJoin is the documented meaning of a prefix
// (prefix without its trailing slashes, followed by the path with a leading slash; an empty path is the prefix).
//
// Bound (FVC_TIER=quick, about 25 s):
//   routes R = {Get("/"), Get("/x"), Get("/:id"), Use("/x", mw), Use(mw)}, prefixes P = {"/", "/a", "/a/", "/:p"}
//   depth 1: root = [<=1 route of R] ++ mount(p in P, sub) ++ [<=1 route of R], sub = any list of <= 2 routes of R,
//            mounted by app.Use(p, sub), app.Group("/").Use(p, sub), app.Group(p).Use(sub) or app.Group("/a").Use(p, sub)
//   depth 2: root = [Use(mw)?] ++ mount(p1, sub) ++ [Get("/x")?], sub = <= 1 route of R and mount(p2, leaf) before or
//            after it, leaf = any list of <= 2 routes of R; mounted bottom-up and top-down (sub mounted into the
//            root BEFORE the leaf is mounted into sub and before any route is registered)
//   requests: methods {GET, POST} x all paths of <= 3 segments over {"a", "x", "1"} with and without trailing slash
//   part 2:   prefixes {"", "/", "/a", "/a/", "a", "/:p"} x {"", same} x R, through Group and through Route
// Bound (FVC_TIER=thorough, about 6 min): sub/leaf lists of <= 3 routes at depth 1, sub <= 2 routes at depth 2,
//   root siblings of depth 2 from all of R, additionally every tree with Config.StrictRouting and CaseSensitive.
//
// Output: `FVC-CASES <evaluated (tree, request, mode) cases> <distinct non-empty observations>`;
// `FVC-FAIL ...` per disagreement (at most 40 are printed in full, all are counted);
// disagreements covered by a recorded known finding print `KNOWN-FINDING: property=C04 ...` once per finding:
//   param-prefix   the mount prefix contains a parameter (":p"): the spliced route keeps the sub-application's
//                  Route.Params (addPrefixToRoute does not recompute them), so the parameter of the prefix is not
//                  delivered, parameters of the route are shifted, and parameter-free routes below it never match.
//                  Predicate: some mount prefix on the path from the root to a route contains ':' (trees without
//                  such a prefix must agree).

import (
	"fmt"
	"os"
	"sort"
	"strings"
	"testing"

	"github.com/valyala/fasthttp"
)

type fvcC04Tree struct {
	routes   []int // kinds, registration order
	mountPos int   // -1: no mount; else the mount is registered before routes[mountPos] (== len(routes): last)
	prefix   string
	style    int // 0 app.Use(p, sub); 1 Group("/").Use(p, sub); 2 Group(p).Use(sub); 3 Group("/a").Use(p, sub)
	sub      *fvcC04Tree
}

var (
	fvcC04Trace []string
	fvcC04Pass  bool
)

func fvcC04Handler(label string, endpoint bool) Handler {
	return func(c Ctx) error {
		fvcC04Trace = append(fvcC04Trace, label+"("+c.Params("id")+","+c.Params("p")+")")
		if !endpoint || fvcC04Pass {
			return c.Next()
		}
		return c.SendStatus(StatusOK)
	}
}

func fvcC04RouteName(k int) string {
	return [...]string{`Get("/")`, `Get("/x")`, `Get("/:id")`, `Use("/x",mw)`, `Use(mw)`}[k]
}

func fvcC04Register(r Router, kind int, label string) {
	switch kind {
	case 0:
		r.Get("/", fvcC04Handler(label, true))
	case 1:
		r.Get("/x", fvcC04Handler(label, true))
	case 2:
		r.Get("/:id", fvcC04Handler(label, true))
	case 3:
		r.Use("/x", fvcC04Handler(label, false))
	case 4:
		r.Use(fvcC04Handler(label, false))
	}
}

func (t *fvcC04Tree) String() string {
	var parts []string
	for i := 0; i <= len(t.routes); i++ {
		if i == t.mountPos {
			how := [...]string{"Use(%q, %s)", `Group("/").Use(%q, %s)`, "Group(%q).Use(%s)", `Group("/a").Use(%q, %s)`}[t.style]
			parts = append(parts, fmt.Sprintf(how, t.prefix, "App{"+t.sub.String()+"}"))
		}
		if i < len(t.routes) {
			parts = append(parts, fvcC04RouteName(t.routes[i]))
		}
	}
	return strings.Join(parts, "; ")
}

func (t *fvcC04Tree) paramPrefix() bool {
	return t.mountPos >= 0 && (strings.Contains(t.prefix, ":") || t.sub.paramPrefix())
}

// build(T): real sub-applications. topDown: all mounts first (outermost first), then the routes are registered
// on the already mounted applications; the mount keeps its position because it is registered before the
// routes that follow it only in the bottom-up order, so topDown is used only for trees whose mounts come first.
func fvcC04Build(t *fvcC04Tree, cfg Config, label string, topDown bool) *App {
	app := New(cfg)
	if topDown {
		fvcC04MountAll(app, t, cfg)
		fvcC04RoutesAll(app, t, label)
		return app
	}
	for i := 0; i <= len(t.routes); i++ {
		if i == t.mountPos {
			fvcC04Mount(app, t, fvcC04Build(t.sub, cfg, label+"m.", false))
		}
		if i < len(t.routes) {
			fvcC04Register(app, t.routes[i], fmt.Sprintf("%s%d", label, i))
		}
	}
	return app
}

var fvcC04Subs = map[*fvcC04Tree]*App{}

func fvcC04MountAll(app *App, t *fvcC04Tree, cfg Config) {
	if t.mountPos < 0 {
		return
	}
	sub := New(cfg)
	fvcC04Subs[t] = sub
	fvcC04Mount(app, t, sub)
	fvcC04MountAll(sub, t.sub, cfg)
}

func fvcC04RoutesAll(app *App, t *fvcC04Tree, label string) {
	for i, k := range t.routes {
		fvcC04Register(app, k, fmt.Sprintf("%s%d", label, i))
	}
	if t.mountPos >= 0 {
		fvcC04RoutesAll(fvcC04Subs[t], t.sub, label+"m.")
	}
}

func fvcC04Mount(app *App, t *fvcC04Tree, sub *App) {
	switch t.style {
	case 0:
		app.Use(t.prefix, sub)
	case 1:
		app.Group("/").Use(t.prefix, sub)
	case 2:
		app.Group(t.prefix).Use(sub)
	case 3:
		app.Group("/a").Use(t.prefix, sub)
	}
}

// twin(T): one application, the routes of the sub-applications registered through Group(prefix) at the position
// of the mount.
func fvcC04Twin(r Router, t *fvcC04Tree, label string) {
	for i := 0; i <= len(t.routes); i++ {
		if i == t.mountPos {
			g := r
			if t.style == 3 {
				g = g.Group("/a")
			}
			fvcC04Twin(g.Group(t.prefix), t.sub, label+"m.")
		}
		if i < len(t.routes) {
			fvcC04Register(r, t.routes[i], fmt.Sprintf("%s%d", label, i))
		}
	}
}

var fvcC04Requests [][2]string

func fvcC04InitRequests() {
	if fvcC04Requests != nil {
		return
	}
	segs := []string{"a", "x", "1"}
	paths := []string{"/"}
	level := []string{""}
	for d := 0; d < 3; d++ {
		var next []string
		for _, p := range level {
			for _, s := range segs {
				next = append(next, p+"/"+s)
			}
		}
		for _, p := range next {
			paths = append(paths, p, p+"/")
		}
		level = next
	}
	for _, m := range []string{MethodGet, MethodPost} {
		for _, p := range paths {
			fvcC04Requests = append(fvcC04Requests, [2]string{m, p})
		}
	}
}

func fvcC04Observe(h fasthttp.RequestHandler, method, path string, pass bool) string {
	var fctx fasthttp.RequestCtx
	fctx.Request.Header.SetMethod(method)
	fctx.Request.SetRequestURI(path)
	fvcC04Trace = fvcC04Trace[:0]
	fvcC04Pass = pass
	h(&fctx)
	return fmt.Sprintf("%d %s", fctx.Response.StatusCode(), strings.Join(fvcC04Trace, " "))
}

type fvcC04Stats struct {
	cases    int
	distinct map[string]struct{}
	fails    int
	known    map[string]int
	knownEx  map[string]string
}

func (s *fvcC04Stats) compare(t *testing.T, desc func() string, known string, a, b *App) {
	var ha, hb fasthttp.RequestHandler
	func() {
		defer func() {
			if r := recover(); r != nil {
				msg := fmt.Sprintf("%s | start-up panics: %v", desc(), r)
				if known != "" {
					if s.known[known] == 0 {
						s.knownEx[known] = msg
					}
					s.known[known]++
					return
				}
				s.fails++
				if s.fails <= 40 {
					fmt.Println("FVC-FAIL " + msg)
				}
				t.Fail()
			}
		}()
		ha, hb = a.Handler(), b.Handler()
	}()
	if ha == nil || hb == nil {
		return
	}
	for _, rq := range fvcC04Requests {
		for _, pass := range []bool{false, true} {
			oa := fvcC04Observe(ha, rq[0], rq[1], pass)
			ob := fvcC04Observe(hb, rq[0], rq[1], pass)
			s.cases++
			if len(ob) > 4 {
				s.distinct[ob] = struct{}{}
			}
			if oa == ob {
				continue
			}
			msg := fmt.Sprintf("%s | %s %s next-in-endpoints=%v | observed %q expected (twin) %q", desc(), rq[0], rq[1], pass, oa, ob)
			if known != "" {
				if s.known[known] == 0 {
					s.knownEx[known] = msg
				}
				s.known[known]++
				continue
			}
			s.fails++
			if s.fails <= 40 {
				fmt.Println("FVC-FAIL " + msg)
			}
			t.Fail()
		}
	}
}

func fvcC04Lists(max int) [][]int {
	out := [][]int{{}}
	level := [][]int{{}}
	for d := 0; d < max; d++ {
		var next [][]int
		for _, l := range level {
			for k := 0; k < 5; k++ {
				next = append(next, append(append([]int{}, l...), k))
			}
		}
		out = append(out, next...)
		level = next
	}
	return out
}

func (s *fvcC04Stats) checkTree(t *testing.T, tree *fvcC04Tree, cfg Config, cfgName string) {
	known := ""
	if tree.paramPrefix() {
		known = "param-prefix"
	}
	twin := New(cfg)
	fvcC04Twin(twin, tree, "")
	s.compare(t, func() string { return cfgName + "bottom-up: " + tree.String() }, known, fvcC04Build(tree, cfg, "", false), twin)
	// top-down registration keeps the positions only if every mount precedes the routes of its application
	if tree.mountPos == 0 && tree.sub.mountPos <= 0 {
		twin = New(cfg)
		fvcC04Twin(twin, tree, "")
		s.compare(t, func() string { return cfgName + "top-down: " + tree.String() }, known, fvcC04Build(tree, cfg, "", true), twin)
	}
}

func TestFVCBoundedC04MountEquiv(t *testing.T) {
	thorough := os.Getenv("FVC_TIER") == "thorough"
	fvcC04InitRequests()
	s := &fvcC04Stats{distinct: map[string]struct{}{}, known: map[string]int{}, knownEx: map[string]string{}}
	prefixes := []string{"/", "/a", "/a/", "/:p"}
	configs := []Config{{}}
	cfgNames := []string{""}
	if thorough {
		configs = append(configs, Config{StrictRouting: true, CaseSensitive: true})
		cfgNames = append(cfgNames, "StrictRouting+CaseSensitive ")
	}
	opt := [][]int{{}, {0}, {1}, {2}, {3}, {4}} // at most one sibling route
	d1 := 2
	d2sub := 1
	if thorough {
		d1 = 3
		d2sub = 2
	}
	for ci, cfg := range configs {
		// ---- depth 1 ----
		for _, sub := range fvcC04Lists(d1) {
			for _, p := range prefixes {
				for _, pre := range opt {
					for _, post := range opt {
						for style := 0; style < 4; style++ {
							if style != 0 && (len(pre)+len(post) == 2) && !thorough {
								continue // quick: group styles with at most one sibling
							}
							tree := &fvcC04Tree{routes: append(append([]int{}, pre...), post...), mountPos: len(pre), prefix: p, style: style,
								sub: &fvcC04Tree{routes: sub, mountPos: -1}}
							s.checkTree(t, tree, cfg, cfgNames[ci])
						}
					}
				}
			}
		}
		// ---- depth 2 ----
		pres, posts := [][]int{{}, {4}}, [][]int{{}, {1}}
		if thorough {
			pres, posts = opt, opt
		}
		for _, leaf := range fvcC04Lists(2) {
			for _, subRoutes := range fvcC04Lists(d2sub) {
				for mp := 0; mp <= len(subRoutes); mp++ {
					for _, p1 := range prefixes {
						for _, p2 := range prefixes {
							for _, pre := range pres {
								for _, post := range posts {
									if thorough && len(pre)+len(post) == 2 && len(subRoutes) == 2 {
										continue // thorough: two root siblings only with <= 1 route in the middle app
									}
									tree := &fvcC04Tree{routes: append(append([]int{}, pre...), post...), mountPos: len(pre), prefix: p1,
										sub: &fvcC04Tree{routes: subRoutes, mountPos: mp, prefix: p2, sub: &fvcC04Tree{routes: leaf, mountPos: -1}}}
									s.checkTree(t, tree, cfg, cfgNames[ci])
								}
							}
						}
					}
				}
			}
		}
		// ---- Group / Route prefixes versus spelled-out paths ----
		s.checkPrefixes(t, cfg, cfgNames[ci])
	}
	fmt.Printf("FVC-CASES %d %d\n", s.cases, len(s.distinct))
	var ks []string
	for k := range s.known {
		ks = append(ks, k)
	}
	sort.Strings(ks)
	for _, k := range ks {
		fmt.Printf("KNOWN-FINDING: property=C04 %s: %d disagreeing cases, e.g. %s\n", k, s.known[k], s.knownEx[k])
	}
	if s.fails > 0 {
		fmt.Printf("FVC-FAIL total disagreements: %d\n", s.fails)
	}
}

// refJoin: the documented meaning of registering `path` below `prefix`.
func fvcC04RefJoin(prefix, path string) string {
	if path == "" {
		return prefix
	}
	for strings.HasSuffix(prefix, "/") {
		prefix = prefix[:len(prefix)-1]
	}
	if !strings.HasPrefix(path, "/") {
		path = "/" + path
	}
	return prefix + path
}

func (s *fvcC04Stats) checkPrefixes(t *testing.T, cfg Config, cfgName string) {
	ps := []string{"", "/", "/a", "/a/", "a", "/:p"}
	routePath := [...]string{"/", "/x", "/:id", "/x", ""}
	for _, p1 := range ps {
		for _, p2 := range append([]string{"-"}, ps...) {
			for kind := 0; kind < 5; kind++ {
				for _, sib := range []int{-1, 1, 4} {
					for api := 0; api < 2; api++ { // 0 Group, 1 Route
						full := fvcC04RefJoin(p1, routePath[kind])
						if p2 != "-" {
							full = fvcC04RefJoin(fvcC04RefJoin(p1, p2), routePath[kind])
						}
						a, b := New(cfg), New(cfg)
						for _, app := range []*App{a, b} {
							if sib >= 0 {
								fvcC04Register(app, sib, "pre")
							}
						}
						// prefixed registration
						if api == 0 {
							var g Router = a.Group(p1)
							if p2 != "-" {
								g = g.Group(p2)
							}
							fvcC04Register(g, kind, "r")
						} else {
							rg := a.Route(p1)
							if p2 != "-" {
								rg = rg.Route(p2)
							}
							if kind < 3 {
								// Route(p).Get registers p itself: the route's own path is one more Route level
								rg.Route(routePath[kind]).Get(fvcC04Handler("r", true))
							} else {
								rg.Route(routePath[kind]).All(fvcC04Handler("r", false))
							}
						}
						// spelled-out registration
						if kind < 3 {
							b.Get(full, fvcC04Handler("r", true))
						} else {
							b.Use(full, fvcC04Handler("r", false))
						}
						for _, app := range []*App{a, b} {
							if sib >= 0 {
								fvcC04Register(app, 4-sib, "post") // Use("/x", mw) after Get("/x"), Get("/") after Use(mw)
							}
						}
						desc := func() string {
							return fmt.Sprintf("%s%s(%q)/(%q) %s vs spelled-out %q sibling=%d", cfgName, [...]string{"Group", "Route"}[api], p1, p2, fvcC04RouteName(kind), full, sib)
						}
						s.compare(t, desc, "", a, b)
					}
				}
			}
		}
	}
}
