package fiber

// Bounded stand-in for property C04 (the equivalence over ALL mount trees needs an induction over programs that
// the contracts do not carry; the contracts in zz_contracts_c04_verif.go prove the kernel: prefix arithmetic,
// route cloning, the splice). THIS FILE IS A BOUNDED CHECK, NOT A PROOF.
//
// Contract that is compiled by hand into this test:
//   for every mount tree T and every request q:   observe(build(T), q) == observe(twin(T), q)
// where build(T) mounts the sub-applications (app.Use(prefix, sub) / app.Group(g).Use(prefix, sub)), twin(T)
// registers the very same routes, at the same position, through Group(prefix) on ONE application, and observe
// is (status code, ordered trace of the handlers that ran, each with Params("id"), Params("p") as it saw them).
// Every request is run in two handler modes: endpoints answer (status 200) / endpoints pass on with Next().
// Second part (Group/Route prefixes versus spelled-out paths): the same observation for an application that
// registers through Group(p1)[.Group(p2)] / Route(p1)[.Route(p2)] and one that registers the spelled-out path
// refJoin(refJoin(p1, p2), path) directly on the application. refJoin is the documented meaning of a prefix
// (prefix without its trailing slashes, followed by the path with a leading slash; an empty path is the prefix).
//
// Bound, FVC_TIER=quick (about 50 s, 30428 trees, 11.8M cases):
//   routes R = {Get("/"), Get("/x"), Get("/:id"), Use("/x", mw), Use(mw)}, prefixes P = {"/", "/a", "/a/", "/:p"}
//   A depth 1: root = [<=1 route of R] ++ mount(p in P, sub) ++ [<=1 route of R], sub = any list of <= 2 routes of R,
//              mounted by app.Use(p, sub); with <= 1 sibling also by app.Group("/").Use(p, sub), app.Group(p).Use(sub)
//              and app.Group("/a").Use(p, sub)
//   E wildcards: root = mount(p, sub) ++ [Get("/x")?], sub = one of {Get("/"), Use(mw), Get("/*"), Use("/*", mw)} followed by
//              nothing or one of {Get("/"), Get("/x"), Get("/*"), Use("/*", mw)}; the trace also records Params("*")
//   B two mounts: root = mount(p, s1) ++ mount(q, s2), s1 and s2 of <= 1 route, p, q in P
//   C depth 2: root = mount(p1, sub) alone or Use(mw) ++ mount(p1, sub) ++ Get("/x"); sub = <= 1 route of R with
//              mount(p2, leaf) before or after it; leaf = any list of <= 2 routes of R
//   D depth 2 beside a sibling mount: root = mount(p1, sub{mount(p2, leaf{<=1 route}) ++ [<=1 route]}) ++ mount(q, s{Get("/x") | Use(mw)})
//   F mount after the first start ("<start>" = Handler() is obtained and one request is served, on the build and on the twin):
//              F1 root = [<=1 route] ++ <start> ++ mount(p, sub) ++ [<=1 route], sub = any list of <= 2 routes of R (the
//                 application had no sub-application at its first start);
//              F2 root = mount(p1, s1) ++ <start> ++ mount(p2, s2), s1, s2 of <= 1 route (a second mount after the start);
//              F3 root = mount(p1, sub{[<=1 route] ++ <start> ++ mount(p2, leaf)}), leaf of <= 1 route (a mount INTO a
//                 mounted sub-application after the root was started); a sub-application that contains <start> is mounted
//                 before its own items are processed, every other sub-application is complete when it is mounted
//   every tree whose mounts precede the routes of their application is built twice: bottom-up (leaf mounted into
//   sub, then sub into root) and top-down (sub mounted into root before leaf is mounted into sub and before any
//   route is registered anywhere)
//   requests: methods {GET, POST} x all paths of <= 3 segments over {"a", "x", "1"} with and without trailing slash
//             (trees that fall under a known finding, where every disagreement is attributed to it: <= 2 segments)
//   part 2:   prefixes {"", "/", "/a", "/a/", "a", "/:p"} x {none, same six} x R x sibling {none, Get("/x") before and
//             Use("/x", mw) after, Use(mw) before and Get("/") after}, through Group and through Route
// Bound, FVC_TIER=thorough (about 3.5 min, 187680 trees, 45M cases): A with sub lists of <= 3 routes; C additionally with the root siblings
//   Use(mw) alone / Get("/x") alone, and with sub of 2 routes around mount(p2, leaf of <= 1 route) without or with
//   both root siblings; D with s of <= 1 route of R; everything also with Config{StrictRouting: true, CaseSensitive: true}.
//
// Output: `FVC-CASES <evaluated (tree, request, mode) cases> <distinct non-empty observations>`;
// `FVC-FAIL ...` per disagreement (at most 40 are printed in full, all are counted);
// disagreements covered by a recorded known finding print `KNOWN-FINDING: property=C04 ...` once per finding:
//   param-prefix   a mount prefix contains a parameter (":p"): the spliced route keeps the sub-application's
//                  Route.Params (addPrefixToRoute does not recompute them), so the parameter of the prefix is not
//                  delivered, parameters of the route are shifted, and parameter-free routes below it never match.
//                  Predicate: some mount prefix of the tree contains ':'.
//   key-collision  two different sub-applications get the same key in the mount list of an ancestor (mount "/"
//                  inside mount "/"; two mounts under the same prefix) and one of them has mounts of its own: the
//                  loser is dropped from the list, its own mounts are never spliced, and start-up dereferences the
//                  nil group of a cloned mount marker (for "/" in "/" depending on map iteration order).
//                  Predicate: below one application two mounted applications have the same joined prefix and one of
//                  the two has a mount itself.
//   star-trailing-slash  a route "/*" of a sub-application mounted at "/" keeps the path "/*" but the splice clears
//                  Route.star: the wildcard is matched by the parser on the detection path (trailing slash removed)
//                  instead of the shortcut on the request path: GET /a/ delivers Params("*") == "a", the twin "a/".
//                  Predicate: a mounted application whose joined mount prefix is "/" has a route Get("/*") or Use("/*").
//   strict-bare-use  Config.StrictRouting: middleware registered in the sub-application without a path (sub.Use(mw),
//                  registered path "/") is spliced as prefix + "/" and no longer covers the mount prefix itself
//                  ("/a"), while Group("/a").Use(mw) registers "/a". Predicate: StrictRouting and a mounted application
//                  whose joined mount prefix is not "/" has a path-less Use(mw).
//   late-mount-once-spent  the two start-up steps (mount list completion, splice) are guarded by a sync.Once per
//                  application and are spent by the first start at which the application has a sub-application: a
//                  sub-application mounted afterwards (into the root or into one of its mounted applications) is never
//                  spliced, its routes answer 404, while a Group registered after the start is served. (The first mount
//                  after a start WITHOUT sub-applications is processed: part F1 has to agree.) Predicate: the tree has a
//                  mount before <start> and a mount after it.

import (
	"fmt"
	"os"
	"sort"
	"strconv"
	"strings"
	"testing"

	"github.com/valyala/fasthttp"
)

type fvcC04Item struct {
	kind   int // 0..4 a route of R; -1 a mount; -2 <start>: the root application is started here (part F)
	prefix string
	style  int // 0 app.Use(p, sub); 1 Group("/").Use(p, sub); 2 Group(p).Use(sub); 3 Group("/a").Use(p, sub)
	sub    *fvcC04Tree
}

type fvcC04Tree struct {
	items []fvcC04Item
	app   *App // scratch of the top-down build
}

var (
	fvcC04Trace []string
	fvcC04Pass  bool
)

func fvcC04Handler(label string, endpoint bool) Handler {
	return func(c Ctx) error {
		obs := label + "(" + c.Params("id") + "," + c.Params("p") + ")"
		if w := c.Params("*"); w != "" {
			obs += "*" + w
		}
		fvcC04Trace = append(fvcC04Trace, obs)
		if !endpoint || fvcC04Pass {
			return c.Next()
		}
		return c.SendStatus(StatusOK)
	}
}

func fvcC04RouteName(k int) string {
	return [...]string{`Get("/")`, `Get("/x")`, `Get("/:id")`, `Use("/x",mw)`, `Use(mw)`, `Get("/*")`, `Use("/*",mw)`}[k]
}

func fvcC04Register(r Router, kind int, label string) {
	switch kind {
	case 0:
		r.Get("/", fvcC04Handler(label, true))
	case 1:
		r.Get("/x", fvcC04Handler(label, true))
	case 2:
		r.Get("/:id", fvcC04Handler(label, true))
	case 3:
		r.Use("/x", fvcC04Handler(label, false))
	case 4:
		r.Use(fvcC04Handler(label, false))
	case 5:
		r.Get("/*", fvcC04Handler(label, true))
	case 6:
		r.Use("/*", fvcC04Handler(label, false))
	}
}

func (t *fvcC04Tree) String() string {
	var parts []string
	for _, it := range t.items {
		if it.kind == -2 {
			parts = append(parts, "<start>")
			continue
		}
		if it.kind >= 0 {
			parts = append(parts, fvcC04RouteName(it.kind))
			continue
		}
		how := [...]string{"Use(%q, %s)", `Group("/").Use(%q, %s)`, "Group(%q).Use(%s)", `Group("/a").Use(%q, %s)`}[it.style]
		parts = append(parts, fmt.Sprintf(how, it.prefix, "App{"+it.sub.String()+"}"))
	}
	return strings.Join(parts, "; ")
}

func (t *fvcC04Tree) hasMount() bool {
	for _, it := range t.items {
		if it.kind == -1 {
			return true
		}
	}
	return false
}

// <start> occurs in the tree
func (t *fvcC04Tree) hasStart() bool {
	for _, it := range t.items {
		if it.kind == -2 || (it.kind == -1 && it.sub.hasStart()) {
			return true
		}
	}
	return false
}

// mounts before / after <start> in the order in which the tree is built (depth first)
func (t *fvcC04Tree) mountsAroundStart(started *bool, before, after *int) {
	for _, it := range t.items {
		switch it.kind {
		case -2:
			*started = true
		case -1:
			if *started {
				*after++
			} else {
				*before++
			}
			it.sub.mountsAroundStart(started, before, after)
		}
	}
}

// the start-up steps were spent by the first start (the root had a sub-application) and a mount follows
func (t *fvcC04Tree) lateMountOnceSpent() bool {
	var started bool
	var before, after int
	t.mountsAroundStart(&started, &before, &after)
	return started && before > 0 && after > 0
}

func (t *fvcC04Tree) paramPrefix() bool {
	for _, it := range t.items {
		if it.kind == -1 && (strings.Contains(it.prefix, ":") || it.sub.paramPrefix()) {
			return true
		}
	}
	return false
}

// mounts come before all routes, in every application of the tree
func (t *fvcC04Tree) mountsFirst() bool {
	seenRoute := false
	for _, it := range t.items {
		if it.kind == -2 {
			return false
		}
		if it.kind >= 0 {
			seenRoute = true
		} else if seenRoute || !it.sub.mountsFirst() {
			return false
		}
	}
	return true
}

func fvcC04Norm(p string) string {
	for strings.HasSuffix(p, "/") {
		p = p[:len(p)-1]
	}
	if p == "" {
		return "/"
	}
	return p
}

// joined prefixes of all applications mounted below t (relative to t), with "has mounts itself"
func (t *fvcC04Tree) keys(out map[string][]bool, base string) {
	for _, it := range t.items {
		if it.kind != -1 {
			continue
		}
		var rel string
		switch it.style {
		case 0:
			rel = it.prefix
		case 1:
			rel = fvcC04RefJoin("/", it.prefix)
		case 2:
			rel = it.prefix
		case 3:
			rel = fvcC04RefJoin("/a", it.prefix)
		}
		key := fvcC04Norm(rel)
		if base != "" {
			key = fvcC04RefJoin(base, key)
		}
		out[key] = append(out[key], it.sub.hasMount())
		it.sub.keys(out, key)
	}
}

// under StrictRouting: a path-less Use(mw) of a mounted application whose joined mount prefix is not "/"
func (t *fvcC04Tree) strictBareUse(base string, mounted bool) bool {
	for _, it := range t.items {
		if it.kind == 4 && mounted && base != "/" {
			return true
		}
		if it.kind != -1 {
			continue
		}
		rel := it.prefix
		switch it.style {
		case 1:
			rel = fvcC04RefJoin("/", it.prefix)
		case 3:
			rel = fvcC04RefJoin("/a", it.prefix)
		}
		key := fvcC04Norm(rel)
		if base != "" {
			key = fvcC04Norm(fvcC04RefJoin(base, key))
		}
		if it.sub.strictBareUse(key, true) {
			return true
		}
	}
	return false
}

// a wildcard route "/*" in a mounted application whose joined mount prefix is "/"
func (t *fvcC04Tree) rootWildcard(base string, mounted bool) bool {
	for _, it := range t.items {
		if (it.kind == 5 || it.kind == 6) && mounted && base == "/" {
			return true
		}
		if it.kind != -1 {
			continue
		}
		rel := it.prefix
		switch it.style {
		case 1:
			rel = fvcC04RefJoin("/", it.prefix)
		case 3:
			rel = fvcC04RefJoin("/a", it.prefix)
		}
		key := fvcC04Norm(rel)
		if base != "" {
			key = fvcC04Norm(fvcC04RefJoin(base, key))
		}
		if it.sub.rootWildcard(key, true) {
			return true
		}
	}
	return false
}

func (t *fvcC04Tree) keyCollision() bool {
	ks := map[string][]bool{}
	t.keys(ks, "")
	for _, l := range ks {
		if len(l) > 1 {
			for _, hm := range l {
				if hm {
					return true
				}
			}
		}
	}
	for _, it := range t.items {
		if it.kind == -1 && it.sub.keyCollision() {
			return true
		}
	}
	return false
}

func fvcC04Mount(app *App, it fvcC04Item, sub *App) {
	switch it.style {
	case 0:
		app.Use(it.prefix, sub)
	case 1:
		app.Group("/").Use(it.prefix, sub)
	case 2:
		app.Group(it.prefix).Use(sub)
	case 3:
		app.Group("/a").Use(it.prefix, sub)
	}
}

// build(T), bottom-up: every sub-application is complete when it is mounted.
func fvcC04Build(t *fvcC04Tree, cfg Config, label string) *App {
	app := New(cfg)
	for i, it := range t.items {
		if it.kind < 0 {
			fvcC04Mount(app, it, fvcC04Build(it.sub, cfg, fmt.Sprintf("%s%d.", label, i)))
		} else {
			fvcC04Register(app, it.kind, fmt.Sprintf("%s%d", label, i))
		}
	}
	return app
}

// <start>: the first start of the root application under construction (startupProcess through Handler(), one request).
var fvcC04StartRoot *App

func fvcC04Start() {
	fvcC04Observe(fvcC04StartRoot.Handler(), MethodGet, "/", false)
}

// build(T) for trees with <start> (part F): items in order; a sub-application that contains <start> is mounted
// first and filled afterwards (it has to be mounted when the root is started), every other one is complete when mounted.
func fvcC04BuildLate(app *App, t *fvcC04Tree, cfg Config, label string) *App {
	for i, it := range t.items {
		switch {
		case it.kind == -2:
			fvcC04Start()
		case it.kind == -1 && it.sub.hasStart():
			sub := New(cfg)
			fvcC04Mount(app, it, sub)
			fvcC04BuildLate(sub, it.sub, cfg, fmt.Sprintf("%s%d.", label, i))
		case it.kind == -1:
			fvcC04Mount(app, it, fvcC04Build(it.sub, cfg, fmt.Sprintf("%s%d.", label, i)))
		default:
			fvcC04Register(app, it.kind, fmt.Sprintf("%s%d", label, i))
		}
	}
	return app
}

// build(T), top-down (only for trees with mountsFirst): all mounts, outermost first, then all routes.
func fvcC04BuildTopDown(t *fvcC04Tree, cfg Config) *App {
	t.app = New(cfg)
	fvcC04MountAll(t, cfg)
	fvcC04RoutesAll(t, "")
	return t.app
}

func fvcC04MountAll(t *fvcC04Tree, cfg Config) {
	for _, it := range t.items {
		if it.kind < 0 {
			it.sub.app = New(cfg)
			fvcC04Mount(t.app, it, it.sub.app)
			fvcC04MountAll(it.sub, cfg)
		}
	}
}

func fvcC04RoutesAll(t *fvcC04Tree, label string) {
	for i, it := range t.items {
		if it.kind < 0 {
			fvcC04RoutesAll(it.sub, fmt.Sprintf("%s%d.", label, i))
		} else {
			fvcC04Register(t.app, it.kind, fmt.Sprintf("%s%d", label, i))
		}
	}
}

// twin(T): one application, the routes of the sub-applications registered through Group(prefix) at the position
// of the mount.
func fvcC04Twin(r Router, t *fvcC04Tree, label string) {
	for i, it := range t.items {
		if it.kind == -2 {
			fvcC04Start()
			continue
		}
		if it.kind < 0 {
			g := r
			switch it.style {
			case 1:
				g = g.Group("/")
			case 3:
				g = g.Group("/a")
			}
			fvcC04Twin(g.Group(it.prefix), it.sub, fmt.Sprintf("%s%d.", label, i))
		} else {
			fvcC04Register(r, it.kind, fmt.Sprintf("%s%d", label, i))
		}
	}
}

var fvcC04Requests [][2]string

func fvcC04InitRequests() {
	if fvcC04Requests != nil {
		return
	}
	segs := []string{"a", "x", "1"}
	paths := []string{"/"}
	level := []string{""}
	for d := 0; d < 3; d++ {
		var next []string
		for _, p := range level {
			for _, s := range segs {
				next = append(next, p+"/"+s)
			}
		}
		for _, p := range next {
			paths = append(paths, p, p+"/")
		}
		level = next
	}
	for _, m := range []string{MethodGet, MethodPost} {
		for _, p := range paths {
			fvcC04Requests = append(fvcC04Requests, [2]string{m, p})
		}
	}
}

var fvcC04Fctx fasthttp.RequestCtx

func fvcC04Observe(h fasthttp.RequestHandler, method, path string, pass bool) string {
	fctx := &fvcC04Fctx
	fctx.Request.Reset()
	fctx.Response.Reset()
	fctx.Request.Header.SetMethod(method)
	fctx.Request.SetRequestURI(path)
	fvcC04Trace = fvcC04Trace[:0]
	fvcC04Pass = pass
	h(fctx)
	return strconv.Itoa(fctx.Response.StatusCode()) + " " + strings.Join(fvcC04Trace, " ")
}

type fvcC04Stats struct {
	cases    int
	trees    int
	distinct map[string]struct{}
	fails    int
	known    map[string]int
	knownEx  map[string]string
}

func (s *fvcC04Stats) report(t *testing.T, known, msg string) {
	if known != "" {
		if s.known[known] == 0 {
			s.knownEx[known] = msg
		}
		s.known[known]++
		return
	}
	s.fails++
	if s.fails <= 40 {
		fmt.Println("FVC-FAIL " + msg)
	}
	t.Fail()
}

func (s *fvcC04Stats) compare(t *testing.T, desc func() string, known string, build func() *App, b *App) {
	var ha, hb fasthttp.RequestHandler
	func() {
		defer func() {
			if r := recover(); r != nil {
				s.cases++
				s.report(t, known, fmt.Sprintf("%s | start-up panics: %v", desc(), r))
			}
		}()
		ha, hb = build().Handler(), b.Handler()
	}()
	if ha == nil || hb == nil {
		return
	}
	for _, rq := range fvcC04Requests {
		if known != "" && strings.Count(rq[1], "/") > 2 && len(rq[1]) > 4 {
			continue // trees covered by a known finding: only paths of <= 2 segments
		}
		for _, pass := range []bool{false, true} {
			oa := fvcC04Observe(ha, rq[0], rq[1], pass)
			ob := fvcC04Observe(hb, rq[0], rq[1], pass)
			s.cases++
			if len(ob) > 4 {
				s.distinct[ob] = struct{}{}
			}
			if oa != ob {
				s.report(t, known, fmt.Sprintf("%s | %s %s next-in-endpoints=%v | observed %q expected (twin) %q", desc(), rq[0], rq[1], pass, oa, ob))
			}
		}
	}
}

func fvcC04Lists(max int) [][]fvcC04Item {
	out := [][]fvcC04Item{{}}
	level := [][]fvcC04Item{{}}
	for d := 0; d < max; d++ {
		var next [][]fvcC04Item
		for _, l := range level {
			for k := 0; k < 5; k++ {
				next = append(next, append(append([]fvcC04Item{}, l...), fvcC04Item{kind: k}))
			}
		}
		out = append(out, next...)
		level = next
	}
	return out
}

func fvcC04Cat(parts ...[]fvcC04Item) *fvcC04Tree {
	t := &fvcC04Tree{}
	for _, p := range parts {
		t.items = append(t.items, p...)
	}
	return t
}

func fvcC04M(prefix string, style int, sub *fvcC04Tree) []fvcC04Item {
	return []fvcC04Item{{kind: -1, prefix: prefix, style: style, sub: sub}}
}

func (s *fvcC04Stats) checkTree(t *testing.T, tree *fvcC04Tree, cfg Config, cfgName string) {
	known := ""
	// (param-prefix and star-trailing-slash were known findings until the fix commits e09e754 / c25e3c1: they are no
	// longer excused, a disagreement on such a tree is a violation again)
	switch {
	case tree.keyCollision():
		known = "key-collision"
	case cfg.StrictRouting && tree.strictBareUse("", false):
		known = "strict-bare-use"
	}
	s.trees++
	if tree.hasStart() {
		if known == "" && tree.lateMountOnceSpent() {
			known = "late-mount-once-spent"
		}
		twin := New(cfg)
		fvcC04StartRoot = twin
		fvcC04Twin(twin, tree, "")
		s.compare(t, func() string { return cfgName + "late: " + tree.String() }, known, func() *App {
			app := New(cfg)
			fvcC04StartRoot = app
			return fvcC04BuildLate(app, tree, cfg, "")
		}, twin)
		return
	}
	twin := New(cfg)
	fvcC04Twin(twin, tree, "")
	s.compare(t, func() string { return cfgName + "bottom-up: " + tree.String() }, known, func() *App { return fvcC04Build(tree, cfg, "") }, twin)
	if tree.mountsFirst() {
		twin = New(cfg)
		fvcC04Twin(twin, tree, "")
		s.compare(t, func() string { return cfgName + "top-down: " + tree.String() }, known, func() *App { return fvcC04BuildTopDown(tree, cfg) }, twin)
	}
}

func TestFVCBoundedC04MountEquiv(t *testing.T) {
	thorough := os.Getenv("FVC_TIER") == "thorough"
	fvcC04InitRequests()
	s := &fvcC04Stats{distinct: map[string]struct{}{}, known: map[string]int{}, knownEx: map[string]string{}}
	prefixes := []string{"/", "/a", "/a/", "/:p"}
	configs := []Config{{}}
	cfgNames := []string{""}
	if thorough {
		configs = append(configs, Config{StrictRouting: true, CaseSensitive: true})
		cfgNames = append(cfgNames, "StrictRouting+CaseSensitive ")
	}
	opt := fvcC04Lists(1) // at most one route
	d1, d2sub := 2, 1
	if thorough {
		d1, d2sub = 3, 2
	}
	for ci, cfg := range configs {
		// ---- A: depth 1 ----
		for _, sub := range fvcC04Lists(d1) {
			for _, p := range prefixes {
				for _, pre := range opt {
					for _, post := range opt {
						for style := 0; style < 4; style++ {
							if style != 0 && len(pre)+len(post) == 2 {
								continue
							}
							s.checkTree(t, fvcC04Cat(pre, fvcC04M(p, style, fvcC04Cat(sub)), post), cfg, cfgNames[ci])
						}
					}
				}
			}
		}
		// ---- E: wildcard routes and the root route below a mount (the splice clears Route.star / Route.root) ----
		for _, k1 := range []int{0, 4, 5, 6} {
			for _, k2 := range []int{-1, 0, 1, 5, 6} {
				for _, p := range prefixes {
					for _, post := range [][]fvcC04Item{nil, opt[2]} {
						sub := []fvcC04Item{{kind: k1}}
						if k2 >= 0 {
							sub = append(sub, fvcC04Item{kind: k2})
						}
						s.checkTree(t, fvcC04Cat(fvcC04M(p, 0, fvcC04Cat(sub)), post), cfg, cfgNames[ci])
					}
				}
			}
		}
		// ---- B: two mounts in one application ----
		for _, s1 := range opt {
			for _, s2 := range opt {
				for _, p := range prefixes {
					for _, q := range prefixes {
						s.checkTree(t, fvcC04Cat(fvcC04M(p, 0, fvcC04Cat(s1)), fvcC04M(q, 0, fvcC04Cat(s2))), cfg, cfgNames[ci])
					}
				}
			}
		}
		// ---- C: depth 2 ----
		type sib struct{ pre, post []fvcC04Item }
		sibs := []sib{{}, {pre: opt[5], post: opt[2]}}
		if thorough {
			sibs = []sib{{}, {pre: opt[5]}, {post: opt[2]}, {pre: opt[5], post: opt[2]}}
		}
		for _, leaf := range fvcC04Lists(2) {
			for _, subRoutes := range fvcC04Lists(d2sub) {
				for mp := 0; mp <= len(subRoutes); mp++ {
					for _, p1 := range prefixes {
						for _, p2 := range prefixes {
							for _, sb := range sibs {
								if len(subRoutes) == 2 && (len(leaf) == 2 || len(sb.pre)+len(sb.post) == 1) {
									continue // thorough: a middle app of 2 routes with a leaf of <= 1 route, without or with both siblings
								}
								sub := fvcC04Cat(subRoutes[:mp], fvcC04M(p2, 0, fvcC04Cat(leaf)), subRoutes[mp:])
								s.checkTree(t, fvcC04Cat(sb.pre, fvcC04M(p1, 0, sub), sb.post), cfg, cfgNames[ci])
							}
						}
					}
				}
			}
		}
		// ---- D: depth 2 beside a sibling mount ----
		others := [][]fvcC04Item{opt[2], opt[5]}
		if thorough {
			others = opt
		}
		for _, leaf := range opt {
			for _, subRoute := range opt {
				for _, other := range others {
					for _, p1 := range prefixes {
						for _, p2 := range prefixes {
							for _, q := range prefixes {
								sub := fvcC04Cat(fvcC04M(p2, 0, fvcC04Cat(leaf)), subRoute)
								s.checkTree(t, fvcC04Cat(fvcC04M(p1, 0, sub), fvcC04M(q, 0, fvcC04Cat(other))), cfg, cfgNames[ci])
							}
						}
					}
				}
			}
		}
		// ---- F: mount after the first start ----
		start := []fvcC04Item{{kind: -2}}
		for _, sub := range fvcC04Lists(2) { // F1: no sub-application at the first start
			for _, p := range prefixes {
				for _, pre := range opt {
					for _, post := range opt {
						s.checkTree(t, fvcC04Cat(pre, start, fvcC04M(p, 0, fvcC04Cat(sub)), post), cfg, cfgNames[ci])
					}
				}
			}
		}
		for _, s1 := range opt { // F2: a second mount after the start
			for _, s2 := range opt {
				for _, p := range prefixes {
					for _, q := range prefixes {
						s.checkTree(t, fvcC04Cat(fvcC04M(p, 0, fvcC04Cat(s1)), start, fvcC04M(q, 0, fvcC04Cat(s2))), cfg, cfgNames[ci])
					}
				}
			}
		}
		for _, leaf := range opt { // F3: a mount into a mounted sub-application after the root was started
			for _, subRoute := range opt {
				for _, p1 := range prefixes {
					for _, p2 := range prefixes {
						sub := fvcC04Cat(subRoute, start, fvcC04M(p2, 0, fvcC04Cat(leaf)))
						s.checkTree(t, fvcC04Cat(fvcC04M(p1, 0, sub)), cfg, cfgNames[ci])
					}
				}
			}
		}
		// ---- Group / Route prefixes versus spelled-out paths ----
		s.checkPrefixes(t, cfg, cfgNames[ci])
	}
	fmt.Printf("FVC-CASES %d %d\n", s.cases, len(s.distinct))
	fmt.Printf("FVC-NOTE %d mount trees (each compared with its Group twin, bottom-up and where possible top-down)\n", s.trees)
	var ks []string
	for k := range s.known {
		ks = append(ks, k)
	}
	sort.Strings(ks)
	for _, k := range ks {
		fmt.Printf("KNOWN-FINDING: property=C04 %s: %d disagreeing cases, e.g. %s\n", k, s.known[k], s.knownEx[k])
	}
	if s.fails > 0 {
		fmt.Printf("FVC-FAIL total disagreements: %d\n", s.fails)
	}
}

// refJoin: the documented meaning of registering `path` below `prefix`.
func fvcC04RefJoin(prefix, path string) string {
	if path == "" {
		return prefix
	}
	for strings.HasSuffix(prefix, "/") {
		prefix = prefix[:len(prefix)-1]
	}
	if !strings.HasPrefix(path, "/") {
		path = "/" + path
	}
	return prefix + path
}

func (s *fvcC04Stats) checkPrefixes(t *testing.T, cfg Config, cfgName string) {
	ps := []string{"", "/", "/a", "/a/", "a", "/:p"}
	routePath := [...]string{"/", "/x", "/:id", "/x", ""}
	for _, p1 := range ps {
		for _, p2 := range append([]string{"-"}, ps...) {
			for kind := 0; kind < 5; kind++ {
				for _, sib := range []int{-1, 1, 4} {
					for api := 0; api < 2; api++ { // 0 Group, 1 Route
						full := fvcC04RefJoin(p1, routePath[kind])
						if p2 != "-" {
							full = fvcC04RefJoin(fvcC04RefJoin(p1, p2), routePath[kind])
						}
						a, b := New(cfg), New(cfg)
						for _, app := range []*App{a, b} {
							if sib >= 0 {
								fvcC04Register(app, sib, "pre")
							}
						}
						// prefixed registration
						if api == 0 {
							var g Router = a.Group(p1)
							if p2 != "-" {
								g = g.Group(p2)
							}
							fvcC04Register(g, kind, "r")
						} else {
							rg := a.Route(p1)
							if p2 != "-" {
								rg = rg.Route(p2)
							}
							// Route(p).Get registers p itself: the route's own path is one more Route level
							if kind < 3 {
								rg.Route(routePath[kind]).Get(fvcC04Handler("r", true))
							} else {
								rg.Route(routePath[kind]).All(fvcC04Handler("r", false))
							}
						}
						// spelled-out registration
						if kind < 3 {
							b.Get(full, fvcC04Handler("r", true))
						} else {
							b.Use(full, fvcC04Handler("r", false))
						}
						for _, app := range []*App{a, b} {
							if sib >= 0 {
								fvcC04Register(app, 4-sib, "post") // Use("/x", mw) after Get("/x"), Get("/") after Use(mw)
							}
						}
						desc := func() string {
							return fmt.Sprintf("%s%s(%q)/(%q) %s vs spelled-out %q sibling=%d", cfgName, [...]string{"Group", "Route"}[api], p1, p2, fvcC04RouteName(kind), full, sib)
						}
						s.compare(t, desc, "", func() *App { return a }, b)
					}
				}
			}
		}
	}
}
