// place in: .
package fiber

// Proposed bounded stand-in for property C05 (companion of the macros redirectClean / poolClean / freshFor in
// zz_contracts_c05_verif.go). The contract language names the fields of a pooled object one by one; it has no way to say
// "every field of the struct, also the ones added later". This test closes that gap from the Go side: it enumerates the
// fields of the pooled types by reflection and fails as soon as
//   - a field of Redirect that the contract does not name exists, or a field (named or not) of a Redirect that went
//     back to redirectPool differs from the state redirectPool.New() creates - maps and slices must be EMPTY, pointers,
//     interfaces and funcs nil, numbers and strings as in a new object;
//   - a field of DefaultCtx is classified neither by poolClean ("dropped at release"), nor by freshFor/Reset
//     ("recomputed from the new request"), nor by ctxWF ("shared wiring"), nor as exempt.
// It is a test, not a proof: one request history per pooled type.

import (
	"reflect"
	"testing"

	"github.com/valyala/fasthttp"
)

// fields named by `macro redirectClean(r)` (zz_contracts_c05_verif.go)
var fvcRedirectFieldsInContract = map[string]bool{"c": true, "messages": true, "status": true}

// classification of the DefaultCtx fields, as in the comment above `macro resetState` (zz_contracts_c05_verif.go)
var fvcCtxFieldClass = map[string]string{
	"route": "pool", "fasthttp": "pool", "bind": "pool", "redirect": "pool", "flashMessages": "pool", "viewBindMap": "pool",
	"indexRoute": "reset", "indexHandler": "reset", "matched": "reset", "baseURI": "reset", "pathOriginal": "reset",
	"methodInt": "reset", "path": "reset", "detectionPath": "reset", "treePathHash": "reset",
	"app": "wiring", "req": "wiring", "res": "wiring",
	"values": "exempt",
}

// fvcEmpty: v carries nothing (the state a pooled object may be in with respect to this field, given `fresh` is what
// the pool constructor produces for it).
func fvcEmpty(v, fresh reflect.Value) bool {
	switch v.Kind() {
	case reflect.Map, reflect.Slice:
		return v.Len() == 0
	case reflect.Ptr, reflect.Interface, reflect.Func, reflect.Chan, reflect.UnsafePointer:
		return v.IsNil() == fresh.IsNil() && (v.IsNil() || v.Pointer() == fresh.Pointer())
	case reflect.Bool:
		return v.Bool() == fresh.Bool()
	case reflect.Int, reflect.Int8, reflect.Int16, reflect.Int32, reflect.Int64:
		return v.Int() == fresh.Int()
	case reflect.Uint, reflect.Uint8, reflect.Uint16, reflect.Uint32, reflect.Uint64, reflect.Uintptr:
		return v.Uint() == fresh.Uint()
	case reflect.String:
		return v.String() == fresh.String()
	case reflect.Struct:
		for i := 0; i < v.NumField(); i++ {
			if !fvcEmpty(v.Field(i), fresh.Field(i)) {
				return false
			}
		}
		return true
	case reflect.Array:
		for i := 0; i < v.Len(); i++ {
			if !fvcEmpty(v.Index(i), fresh.Index(i)) {
				return false
			}
		}
		return true
	}
	return false
}

func TestFVCBoundedC05PooledObjectFields(t *testing.T) {
	// --- Redirect -------------------------------------------------------------------------------------------
	rt := reflect.TypeOf(Redirect{})
	for i := 0; i < rt.NumField(); i++ {
		if !fvcRedirectFieldsInContract[rt.Field(i).Name] {
			t.Errorf("C05: field Redirect.%s is not named by the pool invariant redirectClean (zz_contracts_c05_verif.go): classify it there", rt.Field(i).Name)
		}
	}
	app := New()
	fctx := &fasthttp.RequestCtx{}
	fctx.Request.Header.SetMethod(MethodPost)
	fctx.Request.SetRequestURI("/submit?user=alice&secret=hunter2")
	c := app.AcquireCtx(fctx)
	dc, ok := c.(*DefaultCtx)
	if !ok {
		t.Fatalf("default context expected")
	}
	r := c.Redirect().Status(StatusSeeOther).With("notice", "saved", 2).WithInput()
	if len(r.messages) < 3 {
		t.Fatalf("set-up: the redirect did not record the flash message and the two input fields: %v", r.messages)
	}
	dc.ViewBind(Map{"k": "v"}) //nolint:errcheck // set-up
	c.Locals("k", "v")
	app.ReleaseCtx(c) // release(): the redirect goes back to redirectPool, the context to app.pool
	fresh, ok := redirectPool.New().(*Redirect)
	if !ok {
		t.Fatalf("redirectPool.New() does not make a *Redirect")
	}
	rv, fv := reflect.ValueOf(r).Elem(), reflect.ValueOf(fresh).Elem()
	for i := 0; i < rt.NumField(); i++ {
		if !fvcEmpty(rv.Field(i), fv.Field(i)) {
			t.Errorf("C05 violated: Redirect.%s of a Redirect in redirectPool still carries state of the request it served: %v (a new one has %v)",
				rt.Field(i).Name, rv.Field(i), fv.Field(i))
		}
	}

	// --- DefaultCtx -----------------------------------------------------------------------------------------
	ct := reflect.TypeOf(DefaultCtx{})
	cv, nv := reflect.ValueOf(dc).Elem(), reflect.ValueOf(NewDefaultCtx(app)).Elem()
	for i := 0; i < ct.NumField(); i++ {
		name := ct.Field(i).Name
		switch fvcCtxFieldClass[name] {
		case "pool":
			if !fvcEmpty(cv.Field(i), nv.Field(i)) {
				t.Errorf("C05 violated: DefaultCtx.%s of a context in app.pool still carries state of the request it served", name)
			}
		case "reset", "wiring", "exempt":
		default:
			t.Errorf("C05: field DefaultCtx.%s is classified neither by poolClean, freshFor, ctxWF nor as exempt (zz_contracts_c05_verif.go)", name)
		}
	}
}
