package fiber

// Bounded stand-in for property C03 (documented pattern syntax matches what it says and captures what was
// put in). The contracts of zz_contracts_c03_verif.go prove the parser kernel; the statement over all patterns
// and fillings needs an induction over segments that is not attempted, so it is decided here by exhaustive
// enumeration up to a bound, on the real code. BOUNDED - never counted as proved.
//
// Reference side (written from the property statement, not from path.go):
//   pattern   = L0 P1 [L1 P2 [L2 ...]]: L0 a literal starting with '/', Pi one of :name  :name?  *  +, every
//               parameter delimited by the end of the pattern or by a literal Li starting with '/', '-' or '.'
//   filling   = one value per parameter: named values non-empty and free of '/', '+' values non-empty, optional
//               named values and '*' values may be empty; the (decoded, case-folded as configured) path
//               L0 v1 L1 v2 ... must contain no ADDITIONAL occurrence of a literal Li that follows a parameter:
//               every occurrence of Li lies inside the span of one literal of the pattern
//   demanded  = for every such filling, under each of the 8 configurations {CaseSensitive, StrictRouting,
//               UnescapePath}, the request for the filled path is answered by the route's handler (200) and
//               Params(name) returns exactly the values (the percent-decoded ones iff UnescapePath); and the same
//               holds for the path with all letters in the other case unless CaseSensitive, for the path with
//               its trailing slash added/removed unless StrictRouting, and for the path with a literal letter
//               percent-encoded iff UnescapePath. Where the configuration makes the variation significant and a
//               reference matcher (backtracking over the documented syntax, permissive) finds NO assignment at
//               all, 404 is demanded.
//   agreement = for every request path sent, RoutePatternMatch(path, pattern, cfg) == (dispatch answered 200).
// Code side: app := New(cfg); app.Get(pattern, h); requests through app.Handler() (fasthttp.RequestCtx).
// Request paths starting with "//" are not sent (fasthttp reads them as scheme-relative URIs).
//
// Bounds (FVC_TIER):
//   quick     all patterns with <= 2 parameters, L0 from {"/", "/a", "/ab/", "/-", "/.", "/a/", "/a-", "/a.", "/a/a"},
//             Li from {"/", "-", ".", "/a", "/ab/"}; all fillings over {"", "a", "B", "x/y" (only * and +), "-", "%41"};
//             8 configurations; 5 request variations                                  (< 60 s)
//   thorough  the same with <= 3 parameters (for 3 parameters: L0 from {"/", "/a", "/ab/", "/a/"}, values without
//             "%41"), plus 3000 seeded random patterns with 4 parameters and 20 random fillings each  (< 10 min)
//
// Output: `FVC-CASES <requests evaluated> <distinct fillings with a non-empty value>`, one `FVC-FAIL ...` line per
// failing case (at most 40 are printed, all with FVC_C03_ALL=1; all are counted), and for failing cases explained by a recorded known
// finding one aggregated line `KNOWN-FINDING: property=C03 <what>` per finding (these do not fail the test):
//   optional-slash-bucket  the route's first literal is exactly 3 bytes, ends in '/', the slash is optional (an optional
//                          parameter or '*' follows) and the normalised request path is the literal without that slash
//                          (2 bytes): dispatch answers 404 (and therefore also disagrees with RoutePatternMatch)
//   trimmed-literal-search a literal of several bytes that follows a parameter ends in '/', and the path contains an additional
//                          occurrence of that literal WITHOUT its trailing slashes (not of the literal itself): dispatch 404
//   star-trailing-slash    pattern "/*/" without StrictRouting: the value reported for GET /a/ is "a/" instead of "a"
//   rpm-trailing-slash     without StrictRouting and a request path that ends in '/': RoutePatternMatch does not cut the
//                          trailing slashes of the path as dispatch does (it answers as dispatch for the cut path)
//   rpm-no-unescape        with UnescapePath and a request path that contains '%': RoutePatternMatch works on the raw path
//                          (it answers as dispatch for the decoded path)

import (
	"fmt"
	"math/rand"
	"os"
	"sort"
	"strings"
	"testing"

	"github.com/valyala/fasthttp"
)

type fvcC03Seg struct {
	lit  string // literal text (kind == 0)
	kind byte   // 0 literal, ':' named, '?' optional named, '*', '+'
	name string // Params key
}

type fvcC03Pattern struct {
	segs  []fvcC03Seg
	text  string
	names []string
}

func fvcC03Build(segs []fvcC03Seg) fvcC03Pattern {
	p := fvcC03Pattern{}
	stars, pluses, named := 0, 0, 0
	var sb strings.Builder
	for _, s := range segs {
		switch s.kind {
		case 0:
			sb.WriteString(s.lit)
		case ':', '?':
			named++
			s.name = []string{"", "x1", "Yb2", "z3", "W4"}[named]
			sb.WriteString(":" + s.name)
			if s.kind == '?' {
				sb.WriteByte('?')
			}
		case '*':
			stars++
			s.name = fmt.Sprintf("*%d", stars)
			sb.WriteByte('*')
		case '+':
			pluses++
			s.name = fmt.Sprintf("+%d", pluses)
			sb.WriteByte('+')
		}
		if s.kind != 0 {
			p.names = append(p.names, s.name)
		}
		p.segs = append(p.segs, s)
	}
	p.text = sb.String()
	return p
}

var (
	fvcC03Kinds    = []byte{':', '?', '*', '+'}
	fvcC03Lits     = []string{"/", "-", ".", "/a", "/ab/"}
	fvcC03FirstAll = []string{"/", "/a", "/ab/", "/-", "/.", "/a/", "/a-", "/a.", "/a/a", "/\xc3\x89"} // the last one: an upper-case letter outside ASCII (case folding is ASCII-only on both sides)
	fvcC03FirstFew = []string{"/", "/a", "/ab/", "/a/"}
	fvcC03Values   = []string{"", "a", "B", "x/y", "-", "%41"}
)

// all delimited patterns with exactly n parameters and the given first literals
func fvcC03Patterns(n int, first []string) []fvcC03Pattern {
	var out []fvcC03Pattern
	var rec func(segs []fvcC03Seg, left int)
	rec = func(segs []fvcC03Seg, left int) {
		if left == 0 {
			out = append(out, fvcC03Build(append([]fvcC03Seg(nil), segs...)))
			return
		}
		for _, k := range fvcC03Kinds {
			withParam := append(append([]fvcC03Seg(nil), segs...), fvcC03Seg{kind: k})
			if left == 1 {
				rec(withParam, 0) // the parameter ends the pattern
			}
			for _, l := range fvcC03Lits {
				rec(append(append([]fvcC03Seg(nil), withParam...), fvcC03Seg{lit: l}), left-1)
			}
		}
	}
	for _, l0 := range first {
		rec([]fvcC03Seg{{lit: l0}}, n)
	}
	return out
}

func fvcC03ValueOK(kind byte, v string) bool {
	switch kind {
	case ':':
		return v != "" && !strings.Contains(v, "/")
	case '?':
		return !strings.Contains(v, "/")
	case '+':
		return v != ""
	}
	return true
}

func fvcC03Unescape(s string) string {
	var sb strings.Builder
	for i := 0; i < len(s); i++ {
		if s[i] == '%' && i+2 < len(s) && fvcC03Hex(s[i+1]) >= 0 && fvcC03Hex(s[i+2]) >= 0 {
			sb.WriteByte(byte(fvcC03Hex(s[i+1])<<4 | fvcC03Hex(s[i+2])))
			i += 2
			continue
		}
		sb.WriteByte(s[i])
	}
	return sb.String()
}

func fvcC03Hex(c byte) int {
	switch {
	case c >= '0' && c <= '9':
		return int(c - '0')
	case c >= 'a' && c <= 'f':
		return int(c-'a') + 10
	case c >= 'A' && c <= 'F':
		return int(c-'A') + 10
	}
	return -1
}

func fvcC03Lower(s string) string {
	b := []byte(s)
	for i, c := range b {
		if c >= 'A' && c <= 'Z' {
			b[i] = c + 32
		}
	}
	return string(b)
}

// letters in the other case; percent escapes are left alone
func fvcC03Swap(s string) string {
	b := []byte(s)
	for i := 0; i < len(b); i++ {
		c := b[i]
		if c == '%' {
			i += 2
			continue
		}
		switch {
		case c >= 'A' && c <= 'Z':
			b[i] = c + 32
		case c >= 'a' && c <= 'z':
			b[i] = c - 32
		}
	}
	return string(b)
}

// the path obtained by filling, and whether the filling creates an additional occurrence of a literal that
// follows a parameter (compared as the configuration compares: case-folded unless caseSensitive)
func fvcC03Fill(p fvcC03Pattern, vals []string) string {
	var sb strings.Builder
	vi := 0
	for _, s := range p.segs {
		if s.kind == 0 {
			sb.WriteString(s.lit)
		} else {
			sb.WriteString(vals[vi])
			vi++
		}
	}
	return sb.String()
}

func fvcC03NoAdditional(p fvcC03Pattern, vals []string, caseSensitive, trimmed bool) bool {
	type span struct{ lo, hi int }
	var spans []span
	var sb strings.Builder
	vi := 0
	for _, s := range p.segs {
		if s.kind == 0 {
			spans = append(spans, span{sb.Len(), sb.Len() + len(s.lit)})
			sb.WriteString(s.lit)
		} else {
			sb.WriteString(vals[vi])
			vi++
		}
	}
	path := sb.String()
	if !caseSensitive {
		path = fvcC03Lower(path)
	}
	for i, s := range p.segs {
		if s.kind == 0 || i+1 >= len(p.segs) {
			continue
		}
		lit := p.segs[i+1].lit
		if !caseSensitive {
			lit = fvcC03Lower(lit)
		}
		if trimmed && len(lit) > 1 {
			lit = strings.TrimRight(lit, "/")
		}
		for q := 0; q+len(lit) <= len(path); q++ {
			if path[q:q+len(lit)] != lit {
				continue
			}
			inside := false
			for _, sp := range spans {
				if q >= sp.lo && q+len(lit) <= sp.hi {
					inside = true
				}
			}
			if !inside {
				return false
			}
		}
	}
	return true
}

// Reference matcher (permissive reading of the documented syntax): is there ANY assignment of values to the
// parameters under which the pattern describes the path? Used only to demand 404.
func fvcC03RefMatches(p fvcC03Pattern, path string, caseSensitive, strict bool) bool {
	segs := append([]fvcC03Seg(nil), p.segs...)
	if !caseSensitive {
		path = fvcC03Lower(path)
		for i := range segs {
			segs[i].lit = fvcC03Lower(segs[i].lit)
		}
	}
	if !strict {
		for len(path) > 1 && path[len(path)-1] == '/' {
			path = path[:len(path)-1]
		}
		if last := len(segs) - 1; segs[last].kind == 0 && p.text != "/" {
			segs[last].lit = strings.TrimRight(segs[last].lit, "/")
			if segs[last].lit == "" {
				segs = segs[:last]
			}
		}
	}
	var rec func(i int, rest string) bool
	rec = func(i int, rest string) bool {
		if i == len(segs) {
			return rest == ""
		}
		s := segs[i]
		if s.kind == 0 {
			if strings.HasPrefix(rest, s.lit) && rec(i+1, rest[len(s.lit):]) {
				return true
			}
			// the slash before an optional parameter that is left out (or at the very end) may be missing too
			if strings.HasSuffix(s.lit, "/") && rest == s.lit[:len(s.lit)-1] &&
				(i+1 == len(segs) || segs[i+1].kind == '?' || segs[i+1].kind == '*') {
				return rec(i+1, "")
			}
			return false
		}
		for n := 0; n <= len(rest); n++ {
			if fvcC03ValueOK(s.kind, rest[:n]) && rec(i+1, rest[n:]) {
				return true
			}
		}
		return false
	}
	return rec(0, path)
}

// A variation of a filled path can itself be the filled path of other values (pattern "/*", GET /a/ is the filling
// with "a/"): the reported values are then accepted if they are exactly what was put in under that reading.
func fvcC03ExactFilling(p fvcC03Pattern, path string, c fvcC03Config, body string) bool {
	parts := strings.Split(body, "|")
	if len(parts) != len(p.names)+1 || parts[0] != "ok" {
		return false
	}
	vi := 0
	for _, s := range p.segs {
		if s.kind != 0 {
			if !fvcC03ValueOK(s.kind, parts[1+vi]) {
				return false
			}
			vi++
		}
	}
	if c.unescape {
		path = fvcC03Unescape(path)
	}
	filled := fvcC03Fill(p, parts[1:])
	if !c.cs {
		return fvcC03Lower(filled) == fvcC03Lower(path) && fvcC03ValuesIn(parts[1:], path)
	}
	return filled == path
}

// every value occurs in the path with its own letter case
func fvcC03ValuesIn(vals []string, path string) bool {
	for _, v := range vals {
		if !strings.Contains(path, v) {
			return false
		}
	}
	return true
}

type fvcC03Config struct{ cs, strict, unescape bool }

func (c fvcC03Config) String() string {
	return fmt.Sprintf("{CaseSensitive:%v StrictRouting:%v UnescapePath:%v}", c.cs, c.strict, c.unescape)
}

// the request path as the router is documented to look at it
func fvcC03Normalise(path string, c fvcC03Config) string {
	if c.unescape {
		path = fvcC03Unescape(path)
	}
	if !c.cs {
		path = fvcC03Lower(path)
	}
	if !c.strict {
		for len(path) > 1 && path[len(path)-1] == '/' {
			path = path[:len(path)-1]
		}
	}
	return path
}

// the request path as RoutePatternMatch would have to be given it to agree with dispatch (decoded, trailing slashes cut)
func fvcC03TrimSlashes(path string, c fvcC03Config) string {
	if c.unescape {
		path = fvcC03Unescape(path)
	}
	for len(path) > 1 && path[len(path)-1] == '/' {
		path = path[:len(path)-1]
	}
	return path
}

// predicate of the known finding optional-slash-bucket (see header)
func fvcC03BucketFinding(p fvcC03Pattern, path string, c fvcC03Config) bool {
	l0 := p.segs[0].lit
	if !c.cs {
		l0 = fvcC03Lower(l0)
	}
	if len(l0) != 3 || l0[2] != '/' || len(p.segs) < 2 || (p.segs[1].kind != '?' && p.segs[1].kind != '*') {
		return false
	}
	return fvcC03Normalise(path, c) == l0[:2]
}

type fvcC03Run struct {
	t        *testing.T
	cases    int
	fails    int
	known    map[string]int
	distinct map[string]bool
}

func (r *fvcC03Run) fail(format string, args ...any) {
	r.fails++
	if r.fails <= fvcC03MaxPrint() {
		fmt.Printf("FVC-FAIL "+format+"\n", args...)
	}
}

const (
	fvcC03Match = iota
	fvcC03NoMatch
	fvcC03DontCare
)

// one pattern under one configuration: all given fillings
func (r *fvcC03Run) pattern(p fvcC03Pattern, c fvcC03Config, fillings [][]string) {
	cfg := Config{CaseSensitive: c.cs, StrictRouting: c.strict, UnescapePath: c.unescape}
	app := New(cfg)
	names := p.names
	app.Get(p.text, func(ctx Ctx) error {
		got := make([]string, len(names))
		for i, n := range names {
			got[i] = ctx.Params(n)
		}
		return ctx.SendString("ok|" + strings.Join(got, "|"))
	})
	h := app.Handler()
	fctx := &fasthttp.RequestCtx{}

	trimmedOccurs := false // set per filling: the known finding trimmed-literal-search applies
	request := func(path string, expect int, want []string, what string) {
		if strings.HasPrefix(path, "//") {
			return
		}
		r.cases++
		fctx.Request.Reset()
		fctx.Response.Reset()
		fctx.Request.Header.SetMethod(MethodGet)
		fctx.Request.SetRequestURI(path)
		h(fctx)
		status := fctx.Response.StatusCode()
		body := string(fctx.Response.Body())
		matched := status == StatusOK
		switch expect {
		case fvcC03Match:
			wantBody := "ok|" + strings.Join(want, "|")
			if !matched || (body != wantBody && !fvcC03ExactFilling(p, path, c, body)) {
				if !matched && fvcC03BucketFinding(p, path, c) {
					r.known["optional-slash-bucket: Get(\"/a/:id?\") does not answer GET /a (404); Get(\"/ab/:id?\") answers GET /ab"]++
				} else if !matched && trimmedOccurs {
					r.known["trimmed-literal-search: Get(\"/*/ab/:x/a:y\") does not answer GET /-/ab/-/aB (404): the end of a parameter is searched with the following literal cut of its trailing slash (\"/ab\"), which the path contains a second time"]++
				} else if matched && p.text == "/*/" && !c.strict && strings.HasSuffix(path, "/") {
					r.known["star-trailing-slash: Get(\"/*/\") answers GET /a/ with Params(\"*\") == \"a/\" instead of \"a\" (no StrictRouting: the pattern is cut to \"/*\", whose value is the rest of the raw path)"]++
				} else {
					r.fail("pattern %q cfg %v GET %q (%s): want 200 with Params %q, got %d %q", p.text, c, path, what, want, status, body)
				}
			}
		case fvcC03NoMatch:
			if matched {
				r.fail("pattern %q cfg %v GET %q (%s): the documented syntax admits no assignment, want 404, got 200 %q", p.text, c, path, what, body)
			}
		}
		if rpm := RoutePatternMatch(path, p.text, cfg); rpm != matched {
			switch {
			case rpm && !matched && fvcC03BucketFinding(p, path, c):
				r.known["optional-slash-bucket: Get(\"/a/:id?\") does not answer GET /a (404); Get(\"/ab/:id?\") answers GET /ab"]++
			case c.unescape && strings.Contains(path, "%") && RoutePatternMatch(fvcC03Unescape(path), p.text, cfg) == matched:
				// the answer for the decoded path is the dispatcher's
				r.known["rpm-no-unescape: RoutePatternMatch(\"/%61\", \"/a\", Config{UnescapePath: true}) == false while GET /%61 is answered by Get(\"/a\")"]++
			case !c.strict && len(path) > 1 && path[len(path)-1] == '/' && RoutePatternMatch(fvcC03TrimSlashes(path, c), p.text, cfg) == matched:
				// the answer for the path without its trailing slashes is the dispatcher's
				r.known["rpm-trailing-slash: RoutePatternMatch(\"/foo/\", \"/foo\") == false while GET /foo/ is answered by Get(\"/foo\") (no StrictRouting)"]++
			default:
				r.fail("pattern %q cfg %v path %q: RoutePatternMatch == %v but dispatch answered %d", p.text, c, path, rpm, status)
			}
		}
	}

	for _, vals := range fillings {
		eff := make([]string, len(vals)) // the values the handler is to see
		ok := true
		vi := 0
		for _, s := range p.segs {
			if s.kind == 0 {
				continue
			}
			eff[vi] = vals[vi]
			if c.unescape {
				eff[vi] = fvcC03Unescape(vals[vi])
			}
			if !fvcC03ValueOK(s.kind, eff[vi]) {
				ok = false
			}
			vi++
		}
		if !ok || !fvcC03NoAdditional(p, eff, c.cs, false) {
			continue
		}
		raw := fvcC03Fill(p, vals)
		trimmedOccurs = !fvcC03NoAdditional(p, eff, c.cs, true)
		for _, v := range vals {
			if v != "" {
				r.distinct[p.text+"\x00"+strings.Join(vals, "\x00")] = true
				break
			}
		}
		// the filled path itself
		request(raw, fvcC03Match, eff, "filling")

		// letters in the other case
		swapped := fvcC03Swap(raw)
		effSwapped := make([]string, len(vals))
		for i, v := range vals {
			effSwapped[i] = fvcC03Swap(v)
			if c.unescape {
				effSwapped[i] = fvcC03Unescape(effSwapped[i])
			}
		}
		if swapped != raw {
			switch {
			case !c.cs:
				request(swapped, fvcC03Match, effSwapped, "other letter case")
			case !fvcC03RefMatches(p, fvcC03Normalise(swapped, fvcC03Config{cs: true, strict: true, unescape: c.unescape}), true, c.strict):
				request(swapped, fvcC03NoMatch, nil, "other letter case, CaseSensitive")
			default:
				request(swapped, fvcC03DontCare, nil, "")
			}
		}

		// trailing slash added / removed
		toggled := raw + "/"
		if strings.HasSuffix(raw, "/") {
			toggled = raw[:len(raw)-1]
		}
		if toggled != "" {
			switch {
			case !c.strict:
				request(toggled, fvcC03Match, eff, "trailing slash toggled")
			case !fvcC03RefMatches(p, fvcC03Normalise(toggled, fvcC03Config{cs: true, strict: true, unescape: c.unescape}), c.cs, true):
				request(toggled, fvcC03NoMatch, nil, "trailing slash toggled, StrictRouting")
			default:
				request(toggled, fvcC03DontCare, nil, "")
			}
			if !c.strict && !c.cs && fvcC03Swap(toggled) != toggled {
				request(fvcC03Swap(toggled), fvcC03Match, effSwapped, "other letter case and trailing slash toggled")
			}
		}

		// a letter percent-encoded
		for i := 0; i < len(raw); i++ {
			ch := raw[i]
			if ch == '%' {
				i += 2
				continue
			}
			if (ch >= 'a' && ch <= 'z') || (ch >= 'A' && ch <= 'Z') {
				enc := raw[:i] + fmt.Sprintf("%%%02X", ch) + raw[i+1:]
				switch {
				case c.unescape:
					request(enc, fvcC03Match, eff, "letter percent-encoded")
				case !fvcC03RefMatches(p, enc, c.cs, c.strict):
					request(enc, fvcC03NoMatch, nil, "letter percent-encoded, no UnescapePath")
				default:
					request(enc, fvcC03DontCare, nil, "")
				}
				break
			}
		}
	}
}

func fvcC03AllFillings(n int, values []string) [][]string {
	out := [][]string{{}}
	for i := 0; i < n; i++ {
		var next [][]string
		for _, f := range out {
			for _, v := range values {
				next = append(next, append(append([]string(nil), f...), v))
			}
		}
		out = next
	}
	return out
}

func TestFVCBoundedC03Patterns(t *testing.T) {
	tier := os.Getenv("FVC_TIER")
	if tier == "" {
		tier = "quick"
	}
	r := &fvcC03Run{t: t, known: map[string]int{}, distinct: map[string]bool{}}
	var configs []fvcC03Config
	for i := 0; i < 8; i++ {
		configs = append(configs, fvcC03Config{cs: i&1 != 0, strict: i&2 != 0, unescape: i&4 != 0})
	}
	maxParams := 2
	if tier == "thorough" {
		maxParams = 3
	}
	for n := 0; n <= maxParams; n++ {
		first, values := fvcC03FirstAll, fvcC03Values
		if n == 3 {
			first, values = fvcC03FirstFew, fvcC03Values[:5]
		}
		fillings := fvcC03AllFillings(n, values)
		for _, p := range fvcC03Patterns(n, first) {
			for _, c := range configs {
				r.pattern(p, c, fillings)
			}
		}
	}
	if tier == "thorough" {
		rng := rand.New(rand.NewSource(3))
		for i := 0; i < 3000; i++ {
			segs := []fvcC03Seg{{lit: fvcC03FirstAll[rng.Intn(len(fvcC03FirstAll))]}}
			for k := 0; k < 4; k++ {
				segs = append(segs, fvcC03Seg{kind: fvcC03Kinds[rng.Intn(4)]})
				if k < 3 || rng.Intn(2) == 0 {
					segs = append(segs, fvcC03Seg{lit: fvcC03Lits[rng.Intn(len(fvcC03Lits))]})
				}
			}
			p := fvcC03Build(segs)
			var fillings [][]string
			for j := 0; j < 20; j++ {
				f := make([]string, 4)
				for k := range f {
					f[k] = fvcC03Values[rng.Intn(len(fvcC03Values))]
				}
				fillings = append(fillings, f)
			}
			for _, c := range configs {
				r.pattern(p, c, fillings)
			}
		}
	}
	fmt.Printf("FVC-CASES %d %d\n", r.cases, len(r.distinct))
	var ks []string
	for k := range r.known {
		ks = append(ks, k)
	}
	sort.Strings(ks)
	for _, k := range ks {
		fmt.Printf("KNOWN-FINDING: property=C03 %s [%d cases]\n", k, r.known[k])
	}
	if r.fails > 0 {
		fmt.Printf("FVC-FAIL-COUNT %d\n", r.fails)
		t.Fail()
	}
}

func fvcC03MaxPrint() int {
	if os.Getenv("FVC_C03_ALL") != "" {
		return 1 << 30
	}
	return 40
}
