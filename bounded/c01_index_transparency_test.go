package fiber

// Bounded stand-in for property C01, the part the contracts do not decide: THE FINAL LOOKUP INDEX built by
// (*App).buildTree (merge of bucket 0 into every bucket, de-duplication, sort by position) and with it the
// title of the property: THE LOOKUP INDEX IS TRANSPARENT. The contracts of zz_contracts_c01idx_verif.go prove the
// dispatch loop over ONE bucket, Route.match, the bucket construction loop, uniqueRouteStack, methodExist, Next,
// RestartRouting and the cursor after a path override (the last one under the hypothesis "buckets are sorted by
// position", which part 1 of this file checks). THIS FILE IS A BOUNDED CHECK ON THE REAL CODE, NOT A PROOF.
//
// Contract compiled by hand into this test, for every enumerated application A (built through the public API,
// started with app.Handler(), i.e. startupProcess: mount splice + buildTree) and every routing configuration:
//
//   Part 1, index structure (read directly from app.stack and app.treeStack after start-up). For every configured
//   method m (all 9):
//     S  app.stack[m] holds no mount marker and its positions Route.pos are strictly increasing (registration order)
//     K  the key set of app.treeStack[m] is exactly { bucketHash(r) : r in app.stack[m] }
//        (so key 0 exists iff some route has hash 0, and a method without routes has no bucket at all; dispatch reads
//        a missing key as bucket 0 and a missing bucket 0 as empty)
//     B  for every key h: app.treeStack[m][h] is, element by element (pointer equality), the list of the routes r of
//        app.stack[m] with bucketHash(r) in {0, h}, in stack order - hence every such route exactly once, no other
//        route, strictly increasing pos. Bucket 0 holds exactly the hash-0 routes.
//   bucketHash is computed in this file from the registered pattern text Route.Path alone (never from routeParser):
//     fold the pattern as registration does (ASCII lower case unless CaseSensitive; trailing slashes cut unless
//     StrictRouting or the pattern is "/"); L = the text before the first parameter (':' '*' '+', backslash escapes
//     removed); the slash at the end of L is optional iff L ends in '/' and L is the whole pattern or the parameter
//     behind it is optional ('*', or ":name?"); bucketHash = 0 if len(L) < 3 or (len(L) == 3 and that slash is
//     optional), else L[0]<<16 | L[1]<<8 | L[2]   (the rule in the comment of buildTree).
//
//   Part 2, transparency (the property itself). For every request q = (method, path) and both handler modes
//   (endpoints answer 200 / endpoints pass on with Next(); middleware always calls Next()):
//       observe(A, q) == reference(A, q)
//   observe   = (status, ordered trace of the handlers that ran, each as id(Params("id"),Params("*")), Allow header)
//               of the request driven through app.Handler() on a fasthttp.RequestCtx;
//   reference = a dispatcher written here that never looks at app.treeStack: it folds the path itself (lower case
//               unless CaseSensitive, trailing slashes cut unless StrictRouting), scans app.stack[m] linearly in
//               registration order with Route.match itself, runs the handlers of every matching route (each handler
//               only if its predecessor passed on), continues behind the running route with the new path after a
//               path override, and at the end of the stack answers 404, or - when no endpoint route matched - 405 with
//               Allow = the other configured methods, in configuration order, whose stack holds a matching endpoint
//               route (again a linear scan of app.stack).
//   A panic during start-up or while serving is a failure.
//   NOT enumerated: a METHOD override (c.Method(new)). The cursor after a method override is a recorded known defect
//   of C01 (replay/known/c01_method_override_cursor_test.go); it concerns the cursor across method stacks, not the
//   index, and would disagree with any reference. Path overrides (rewrite middleware) ARE enumerated.
//
// Enumerator.
//   route items R (27), registered on the application (or a group of it); every handler has its own id:
//     endpoints  Get "/", "/a", "/ab", "/abc", "/abd", "/ABC/", "/:id", "/a/:id?" (3-byte literal, optional slash),
//                "/ab/:id?" (4-byte literal, optional slash), "/abc/:id", "/a/*", "/*", "/ab:id" (3-byte literal, no
//                slash); Post "/abc", "/a/:id?"; All "/abd"; Add([GET,POST], "/abc")
//     middleware Use(mw), Use("/a"), Use("/ab"), Use("/abc"), Use("/a/"), Use("/ab/:id?")
//     groups     Group("/ab").Get("/c"); Group("/a", mw).Get("/:id?")
//     rewrites   Use(path := "/abd"), Use("/abc", path := "/a")   (c.Path(new) then Next)
//     core C12   = Get "/abc", "/abd", "/:id", "/a/:id?", "/ab/:id?", "/abc/:id", "/ab:id"; Post "/abc"; Use(mw),
//                Use("/ab"); Use(path := "/abd"); Get "/ABC/"
//     core C16   = C12 + Get "/a/*"; Use("/abc", path := "/a"); Get "/ab"; All "/abd"
//     a path registered twice in a row is merged into one route with two handlers, otherwise it is a second route:
//     both arise from the lists below
//   sub-application routes S (7): Get "/", "/c", "/:id", "/:id?", "/*"; Use(mw); Post "/c"
//   families
//     T  all lists of <= n routes of a pool
//     M  [<= 1 route of C12] ++ app.Use(p, sub) ++ [<= 1 route of C12], p in {"/", "/a", "/ab", "/abc"}, sub = any list
//        of 1..k routes of S
//     N  depth 2: [Use(mw)?] ++ app.Use(p1, sub{[s1?] ++ sub.Use("/c", leaf{<= 1 route of S}) ++ [s2?]}) ++ [Get "/abc"?],
//        p1 in {"/a", "/ab"}, s1, s2 in {none, Get "/:id", Use(mw)}
//     L  late registration: a list of <= 2 routes of C12 (or [none | Get "/abc" | Use(mw)] ++ app.Use(p, sub of 1 route)),
//        started and checked, then one more route of C12 registered on the running application and Handler() taken
//        again (rebuild of the index), checked again
//   configurations: {CaseSensitive} x {StrictRouting}; custom context (app.NewCtxFunc, dispatch through nextCustom) for
//        the sub-families named below
//   requests: methods {GET, POST, PUT} x 37 paths: "/", "/a", "/a/", "/a//", "/A", "/ab", "/ab/", "/AB", "/abc", "/abc/",
//        "/ABC", "/Abc/", "/abd", "/abd/", "/abcd", "/abx", "/b", "/bcd", "/a/1", "/a/1/", "/a/b", "/a/bc", "/A/1",
//        "/ab/1", "/ab/c", "/ab/c/", "/AB/C", "/ab/cd", "/abc/1", "/abc/1/", "/ABC/1", "/abc/1/2", "/abd/1", "/a/b/c",
//        "/ab/c/d", "/a/c", "/abc/c"  x 2 handler modes  (222 requests per application and configuration)
// Bound, FVC_TIER=quick (38633 started applications, 8.9M cases, about 22 s single-threaded):
//        T(R, n=2) and T(C16, n=3) in all 4 configurations; T(C12, n=2) with a custom context (default
//        configuration); M with k=1, and M with k=2 and pre/post from {none, Get "/abc", Use(mw)}, in the default and
//        the StrictRouting+CaseSensitive configuration; N and L in the default configuration.
// Bound, FVC_TIER=thorough (344252 started applications, 79.5M cases, about 3 min single-threaded):
//        T(R, n=3) in all 4 configurations and T(C16, n=4) in the default and the
//        StrictRouting+CaseSensitive configuration; T(R, n=2) with a custom context in 4 configurations; M with k=1
//        in 4 configurations, also with a custom context, and M with k=2 in the default and the
//        StrictRouting+CaseSensitive configuration; N and L in 4 configurations.
// The measured numbers of applications and cases are printed (FVC-NOTE) and recorded in bounded/index.json.
//
// Output: `FVC-CASES <cases> <distinct non-trivial observations>` where cases = part-1 checks (application,
// configuration, method) + part-2 comparisons (application, configuration, request, mode) and an observation is
// non-trivial when a handler ran or the answer is 405; `FVC-FAIL <description>` per disagreement (at most 40 are
// printed, all are counted, the total is printed as a last FVC-FAIL line).

import (
	"fmt"
	"os"
	"strconv"
	"strings"
	"testing"

	"github.com/valyala/fasthttp"
)

// ---------------------------------------------------------------- handlers

type fvcC01HInfo struct {
	id       string
	endpoint bool
	rewrite  string
}

var (
	fvcC01Trace []string
	fvcC01Pass  bool        // endpoints pass on with Next()
	fvcC01Ref   bool        // reference mode: the handler only tells who it is
	fvcC01RefH  fvcC01HInfo // answer of a handler called in reference mode
)

func fvcC01Handler(id string, endpoint bool, rewrite string) Handler {
	return func(c Ctx) error {
		if fvcC01Ref {
			fvcC01RefH = fvcC01HInfo{id: id, endpoint: endpoint, rewrite: rewrite}
			return nil
		}
		fvcC01Trace = append(fvcC01Trace, id+"("+c.Params("id")+","+c.Params("*")+")")
		if rewrite != "" {
			c.Path(rewrite)
		}
		if !endpoint || fvcC01Pass {
			return c.Next()
		}
		return c.SendStatus(StatusOK)
	}
}

type fvcC01CustomCtx struct {
	DefaultCtx
}

// ---------------------------------------------------------------- route items

type fvcC01Item struct {
	name string
	reg  func(r Router, id string)
}

func fvcC01Ep(method, path string) fvcC01Item {
	return fvcC01Item{name: method + " " + strconv.Quote(path), reg: func(r Router, id string) {
		r.Add([]string{method}, path, fvcC01Handler(id, true, ""))
	}}
}

func fvcC01Use(path string) fvcC01Item {
	if path == "" {
		return fvcC01Item{name: "Use(mw)", reg: func(r Router, id string) { r.Use(fvcC01Handler(id, false, "")) }}
	}
	return fvcC01Item{name: "Use(" + strconv.Quote(path) + ")", reg: func(r Router, id string) { r.Use(path, fvcC01Handler(id, false, "")) }}
}

var (
	fvcC01Full = []fvcC01Item{
		fvcC01Ep(MethodGet, "/"),        // 0
		fvcC01Ep(MethodGet, "/a"),       // 1
		fvcC01Ep(MethodGet, "/ab"),      // 2
		fvcC01Ep(MethodGet, "/abc"),     // 3
		fvcC01Ep(MethodGet, "/abd"),     // 4
		fvcC01Ep(MethodGet, "/ABC/"),    // 5
		fvcC01Ep(MethodGet, "/:id"),     // 6
		fvcC01Ep(MethodGet, "/a/:id?"),  // 7
		fvcC01Ep(MethodGet, "/ab/:id?"), // 8
		fvcC01Ep(MethodGet, "/abc/:id"), // 9
		fvcC01Ep(MethodGet, "/a/*"),     // 10
		fvcC01Ep(MethodGet, "/*"),       // 11
		fvcC01Ep(MethodGet, "/ab:id"),   // 12
		fvcC01Ep(MethodPost, "/abc"),    // 13
		fvcC01Ep(MethodPost, "/a/:id?"), // 14
		{name: `All "/abd"`, reg: func(r Router, id string) { r.All("/abd", fvcC01Handler(id, true, "")) }}, // 15
		{name: `Add([GET,POST], "/abc")`, reg: func(r Router, id string) {
			r.Add([]string{MethodGet, MethodPost}, "/abc", fvcC01Handler(id, true, ""))
		}}, // 16
		fvcC01Use(""),         // 17
		fvcC01Use("/a"),       // 18
		fvcC01Use("/ab"),      // 19
		fvcC01Use("/abc"),     // 20
		fvcC01Use("/a/"),      // 21
		fvcC01Use("/ab/:id?"), // 22
		{name: `Group("/ab").Get("/c")`, reg: func(r Router, id string) { r.Group("/ab").Get("/c", fvcC01Handler(id, true, "")) }}, // 23
		{name: `Group("/a", mw).Get("/:id?")`, reg: func(r Router, id string) {
			r.Group("/a", fvcC01Handler(id+"g", false, "")).Get("/:id?", fvcC01Handler(id, true, ""))
		}}, // 24
		{name: `Use(path:="/abd")`, reg: func(r Router, id string) { r.Use(fvcC01Handler(id, false, "/abd")) }},             // 25
		{name: `Use("/abc", path:="/a")`, reg: func(r Router, id string) { r.Use("/abc", fvcC01Handler(id, false, "/a")) }}, // 26
	}
	fvcC01CoreIdx = []int{3, 4, 6, 7, 8, 9, 12, 13, 17, 19, 25, 5, 10, 26, 2, 15} // C16; the first 12 are C12
	fvcC01Sub     = []fvcC01Item{
		fvcC01Ep(MethodGet, "/"),
		fvcC01Ep(MethodGet, "/c"),
		fvcC01Ep(MethodGet, "/:id"),
		fvcC01Ep(MethodGet, "/:id?"),
		fvcC01Ep(MethodGet, "/*"),
		fvcC01Use(""),
		fvcC01Ep(MethodPost, "/c"),
	}
	fvcC01Paths = []string{
		"/", "/a", "/a/", "/a//", "/A", "/ab", "/ab/", "/AB", "/abc", "/abc/", "/ABC", "/Abc/", "/abd", "/abd/", "/abcd",
		"/abx", "/b", "/bcd", "/a/1", "/a/1/", "/a/b", "/a/bc", "/A/1", "/ab/1", "/ab/c", "/ab/c/", "/AB/C", "/ab/cd",
		"/abc/1", "/abc/1/", "/ABC/1", "/abc/1/2", "/abd/1", "/a/b/c", "/ab/c/d", "/a/c", "/abc/c",
	}
	fvcC01Methods = []string{MethodGet, MethodPost, MethodPut}
)

func fvcC01Core() []fvcC01Item {
	out := make([]fvcC01Item, 0, len(fvcC01CoreIdx))
	for _, i := range fvcC01CoreIdx {
		out = append(out, fvcC01Full[i])
	}
	return out
}

// an application description: a list of nodes, a node is a route item or a mount of a sub-application
type fvcC01Node struct {
	item   *fvcC01Item
	prefix string       // mount prefix (item == nil)
	sub    []fvcC01Node // routes of the mounted application
}

func fvcC01Desc(nodes []fvcC01Node) string {
	parts := make([]string, 0, len(nodes))
	for _, n := range nodes {
		if n.item != nil {
			parts = append(parts, n.item.name)
		} else {
			parts = append(parts, fmt.Sprintf("Use(%q, App{%s})", n.prefix, fvcC01Desc(n.sub)))
		}
	}
	return strings.Join(parts, "; ")
}

func fvcC01New(cfg Config, custom bool) *App {
	app := New(cfg)
	if custom {
		app.NewCtxFunc(func(a *App) CustomCtx {
			return &fvcC01CustomCtx{DefaultCtx: *NewDefaultCtx(a)}
		})
	}
	return app
}

func fvcC01Build(app *App, nodes []fvcC01Node, cfg Config, label string) {
	for i, n := range nodes {
		id := label + strconv.Itoa(i)
		if n.item != nil {
			n.item.reg(app, id)
			continue
		}
		sub := New(cfg)
		fvcC01Build(sub, n.sub, cfg, id+".")
		app.Use(n.prefix, sub)
	}
}

// ---------------------------------------------------------------- part 1: the index

func fvcC01Lower(s string) string {
	b := []byte(s)
	for i, c := range b {
		if c >= 'A' && c <= 'Z' {
			b[i] = c + 'a' - 'A'
		}
	}
	return string(b)
}

// bucketHash, from the pattern text (see the header)
func fvcC01BucketHash(pattern string, cfg Config) int {
	p := pattern
	if !cfg.CaseSensitive {
		p = fvcC01Lower(p)
	}
	if !cfg.StrictRouting && len(p) > 1 {
		p = strings.TrimRight(p, "/")
	}
	var lit []byte
	i := 0
	for i < len(p) && p[i] != ':' && p[i] != '*' && p[i] != '+' {
		if p[i] == '\\' && i+1 < len(p) {
			i++
		}
		lit = append(lit, p[i])
		i++
	}
	optionalSlash := false
	if len(lit) > 0 && lit[len(lit)-1] == '/' {
		switch {
		case i == len(p):
			optionalSlash = true
		case p[i] == '*':
			optionalSlash = true
		case p[i] == ':':
			j := i + 1
			for j < len(p) && (p[j] == '_' || p[j] >= '0' && p[j] <= '9' || p[j] >= 'a' && p[j] <= 'z' || p[j] >= 'A' && p[j] <= 'Z') {
				j++
			}
			optionalSlash = j < len(p) && p[j] == '?'
		}
	}
	if len(lit) < 3 || (len(lit) == 3 && optionalSlash) {
		return 0
	}
	return int(lit[0])<<16 | int(lit[1])<<8 | int(lit[2])
}

func fvcC01Key(h int) string {
	if h == 0 {
		return "0"
	}
	return strconv.Quote(string([]byte{byte(h >> 16), byte(h >> 8), byte(h)}))
}

func fvcC01Routes(rs []*Route) string {
	var sb strings.Builder
	sb.WriteByte('[')
	for i, r := range rs {
		if i > 0 {
			sb.WriteByte(' ')
		}
		if r.use {
			sb.WriteString("use:")
		}
		sb.WriteString(r.Path)
		sb.WriteByte('#')
		sb.WriteString(strconv.Itoa(int(r.pos)))
	}
	sb.WriteByte(']')
	return sb.String()
}

type fvcC01Stats struct {
	t         *testing.T
	apps      int
	idxCases  int
	reqCases  int
	distinct  map[string]struct{}
	fails     int
	failedApp int
}

func (s *fvcC01Stats) fail(msg string) {
	s.fails++
	if s.fails <= 40 {
		fmt.Println("FVC-FAIL " + msg)
	}
	s.t.Fail()
}

// checkIndex: clauses S, K, B for every method. Returns false when the index is wrong.
func (s *fvcC01Stats) checkIndex(app *App, cfg Config, desc func() string) bool {
	ok := true
	bad := func(m int, msg string) {
		ok = false
		s.fail(fmt.Sprintf("index: %s | method %s: %s", desc(), app.config.RequestMethods[m], msg))
	}
	if len(app.treeStack) != len(app.config.RequestMethods) || len(app.stack) != len(app.config.RequestMethods) {
		s.fail(fmt.Sprintf("index: %s | %d trees, %d stacks for %d methods", desc(), len(app.treeStack), len(app.stack), len(app.config.RequestMethods)))
		return false
	}
	for m := range app.config.RequestMethods {
		s.idxCases++
		st := app.stack[m]
		hashes := make([]int, len(st))
		keys := map[int]struct{}{}
		for k, r := range st {
			if r.mount {
				bad(m, fmt.Sprintf("S: mount marker %q left in the stack %s", r.Path, fvcC01Routes(st)))
			}
			if k > 0 && st[k-1].pos >= r.pos {
				bad(m, "S: positions of the stack not strictly increasing "+fvcC01Routes(st))
			}
			hashes[k] = fvcC01BucketHash(r.Path, cfg)
			keys[hashes[k]] = struct{}{}
		}
		ts := app.treeStack[m]
		for h := range ts {
			if _, in := keys[h]; !in {
				bad(m, fmt.Sprintf("K: bucket %s %s exists but no route of the stack %s has that hash", fvcC01Key(h), fvcC01Routes(ts[h]), fvcC01Routes(st)))
			}
		}
		for h := range keys {
			got, in := ts[h]
			if !in {
				bad(m, fmt.Sprintf("K: no bucket %s although the stack %s has a route with that hash", fvcC01Key(h), fvcC01Routes(st)))
				continue
			}
			var want []*Route
			for k, r := range st {
				if hashes[k] == 0 || hashes[k] == h {
					want = append(want, r)
				}
			}
			same := len(got) == len(want)
			for k := 0; same && k < len(got); k++ {
				same = got[k] == want[k]
			}
			if !same {
				bad(m, fmt.Sprintf("B: bucket %s is %s, expected %s (routes of the stack with hash 0 or %s, by position)", fvcC01Key(h), fvcC01Routes(got), fvcC01Routes(want), fvcC01Key(h)))
			}
		}
	}
	return ok
}

// ---------------------------------------------------------------- part 2: transparency

func fvcC01Fold(p string, cfg Config) string {
	if !cfg.CaseSensitive {
		p = fvcC01Lower(p)
	}
	if !cfg.StrictRouting && len(p) > 1 && p[len(p)-1] == '/' {
		p = strings.TrimRight(p, "/")
	}
	return p
}

var fvcC01RefTrace []string

// reference dispatcher: linear scan of app.stack, never app.treeStack
func fvcC01Reference(app *App, cfg Config, method, path string, pass bool) string {
	methods := app.config.RequestMethods
	mi := -1
	for i, m := range methods {
		if m == method {
			mi = i
		}
	}
	trace := fvcC01RefTrace[:0]
	det := fvcC01Fold(path, cfg)
	matched := false
	status := 0
	var params [maxParams]string
scan:
	for _, r := range app.stack[mi] {
		if r.mount {
			continue
		}
		if !r.match(det, path, &params) {
			continue
		}
		if !r.use {
			matched = true
		}
		for _, h := range r.Handlers {
			fvcC01Ref = true
			_ = h(nil) //nolint:errcheck // reference mode
			fvcC01Ref = false
			info := fvcC01RefH
			pid, pstar := "", ""
			for i, name := range r.Params {
				if i >= len(params) {
					break
				}
				switch name {
				case "id":
					pid = params[i]
				case "*1":
					pstar = params[i]
				}
			}
			trace = append(trace, info.id+"("+pid+","+pstar+")")
			if info.rewrite != "" && info.rewrite != path {
				path = info.rewrite
				det = fvcC01Fold(path, cfg)
			}
			if info.endpoint && !pass {
				status = StatusOK
				break scan
			}
		}
	}
	allow := ""
	if status == 0 {
		status = StatusNotFound
		if !matched {
			var list []string
			for i := range methods {
				if i == mi {
					continue
				}
				for _, r := range app.stack[i] {
					if r.use || r.mount {
						continue
					}
					if r.match(det, path, &params) {
						list = append(list, methods[i])
						break
					}
				}
			}
			if len(list) > 0 {
				status = StatusMethodNotAllowed
				allow = strings.Join(list, ", ")
			}
		}
	}
	fvcC01RefTrace = trace
	return fvcC01Obs(status, trace, allow)
}

func fvcC01Obs(status int, trace []string, allow string) string {
	o := strconv.Itoa(status) + " [" + strings.Join(trace, " ") + "]"
	if allow != "" {
		o += " Allow: " + allow
	}
	return o
}

var fvcC01Fctx fasthttp.RequestCtx

func fvcC01Observe(h fasthttp.RequestHandler, method, path string, pass bool) (obs string) {
	defer func() {
		if r := recover(); r != nil {
			fvcC01Ref = false
			obs = fmt.Sprintf("panic: %v", r)
		}
	}()
	fctx := &fvcC01Fctx
	fctx.Request.Reset()
	fctx.Response.Reset()
	fctx.Request.Header.SetMethod(method)
	fctx.Request.SetRequestURI(path)
	fvcC01Trace = fvcC01Trace[:0]
	fvcC01Pass = pass
	h(fctx)
	return fvcC01Obs(fctx.Response.StatusCode(), fvcC01Trace, string(fctx.Response.Header.Peek(HeaderAllow)))
}

func fvcC01CfgName(cfg Config, custom bool) string {
	var parts []string
	if cfg.CaseSensitive {
		parts = append(parts, "CaseSensitive")
	}
	if cfg.StrictRouting {
		parts = append(parts, "StrictRouting")
	}
	if custom {
		parts = append(parts, "custom-ctx")
	}
	if len(parts) == 0 {
		return "default"
	}
	return strings.Join(parts, "+")
}

// checkStarted: part 1 and part 2 on an application whose routes are registered; takes Handler() (start-up).
func (s *fvcC01Stats) checkStarted(app *App, cfg Config, desc func() string) {
	var h fasthttp.RequestHandler
	func() {
		defer func() {
			if r := recover(); r != nil {
				s.idxCases++
				s.fail(fmt.Sprintf("%s | start-up panics: %v", desc(), r))
			}
		}()
		h = app.Handler()
	}()
	if h == nil {
		return
	}
	s.checkIndex(app, cfg, desc)
	failedHere := 0
	for _, method := range fvcC01Methods {
		for _, path := range fvcC01Paths {
			for _, pass := range [2]bool{false, true} {
				got := fvcC01Observe(h, method, path, pass)
				want := fvcC01Reference(app, cfg, method, path, pass)
				s.reqCases++
				if len(want) > 6 { // more than "404 []"
					s.distinct[want] = struct{}{}
				}
				if got != want {
					failedHere++
					if failedHere <= 3 { // at most 3 requests per application are spelled out
						s.fail(fmt.Sprintf("dispatch: %s | %s %s endpoints-pass-on=%v | observed %q, linear scan of the stack gives %q", desc(), method, path, pass, got, want))
					} else {
						s.fails++
					}
				}
			}
		}
	}
	if failedHere > 0 {
		s.failedApp++
	}
}

func (s *fvcC01Stats) check(nodes []fvcC01Node, cfg Config, custom bool, late *fvcC01Item) {
	s.apps++
	desc := func() string { return fvcC01CfgName(cfg, custom) + ": " + fvcC01Desc(nodes) }
	var app *App
	func() {
		defer func() {
			if r := recover(); r != nil {
				s.idxCases++
				s.fail(fmt.Sprintf("%s | registration panics: %v", desc(), r))
				app = nil
			}
		}()
		app = fvcC01New(cfg, custom)
		fvcC01Build(app, nodes, cfg, "")
	}()
	if app == nil {
		return
	}
	s.checkStarted(app, cfg, desc)
	if late != nil {
		s.apps++
		late.reg(app, "late")
		s.checkStarted(app, cfg, func() string { return desc() + "; [started]; " + late.name + " [rebuilt]" })
	}
}

// ---------------------------------------------------------------- enumeration

func fvcC01Lists(pool []fvcC01Item, minLen, maxLen int) [][]fvcC01Node {
	var out [][]fvcC01Node
	level := [][]fvcC01Node{{}}
	if minLen == 0 {
		out = append(out, []fvcC01Node{})
	}
	for d := 1; d <= maxLen; d++ {
		var next [][]fvcC01Node
		for _, l := range level {
			for k := range pool {
				next = append(next, append(append([]fvcC01Node{}, l...), fvcC01Node{item: &pool[k]}))
			}
		}
		if d >= minLen {
			out = append(out, next...)
		}
		level = next
	}
	return out
}

func fvcC01Cat(parts ...[]fvcC01Node) []fvcC01Node {
	var out []fvcC01Node
	for _, p := range parts {
		out = append(out, p...)
	}
	return out
}

func TestFVCBoundedC01IndexTransparency(t *testing.T) {
	thorough := os.Getenv("FVC_TIER") == "thorough"
	s := &fvcC01Stats{t: t, distinct: map[string]struct{}{}}
	core16 := fvcC01Core()
	core := core16[:12]
	all4 := []Config{{}, {CaseSensitive: true}, {StrictRouting: true}, {CaseSensitive: true, StrictRouting: true}}
	def := []Config{{}}
	defStrictCS := []Config{{}, {CaseSensitive: true, StrictRouting: true}}
	counts := map[string]int{}
	family := func(name string, f func()) {
		before := s.apps
		f()
		counts[name] += s.apps - before
	}

	// ---- T: plain route lists ----
	nFull, nCore := 2, 3
	if thorough {
		nFull, nCore = 3, 4
	}
	family("T", func() {
		for _, cfg := range all4 {
			for _, l := range fvcC01Lists(fvcC01Full, 0, nFull) {
				s.check(l, cfg, false, nil)
			}
			if thorough && cfg.CaseSensitive != cfg.StrictRouting {
				continue
			}
			for _, l := range fvcC01Lists(core16, nFull+1, nCore) { // shorter lists over C16 are lists over R
				s.check(l, cfg, false, nil)
			}
		}
	})
	family("T/custom-ctx", func() {
		if thorough {
			for _, cfg := range all4 {
				for _, l := range fvcC01Lists(fvcC01Full, 0, 2) {
					s.check(l, cfg, true, nil)
				}
			}
		} else {
			for _, l := range fvcC01Lists(core, 0, 2) {
				s.check(l, Config{}, true, nil)
			}
		}
	})

	// ---- M: one mounted sub-application ----
	prefixes := []string{"/", "/a", "/ab", "/abc"}
	opt := fvcC01Lists(core, 0, 1)
	few := [][]fvcC01Node{{}, {{item: &fvcC01Full[3]}}, {{item: &fvcC01Full[17]}}}
	mount := func(subLen int, sibs [][]fvcC01Node, cfgs []Config, custom bool) {
		for _, cfg := range cfgs {
			for _, sub := range fvcC01Lists(fvcC01Sub, subLen, subLen) {
				for _, p := range prefixes {
					for _, pre := range sibs {
						for _, post := range sibs {
							s.check(fvcC01Cat(pre, []fvcC01Node{{prefix: p, sub: sub}}, post), cfg, custom, nil)
						}
					}
				}
			}
		}
	}
	family("M", func() {
		if thorough {
			mount(1, opt, all4, false)
			mount(2, opt, defStrictCS, false)
		} else {
			mount(1, opt, defStrictCS, false)
			mount(2, few, defStrictCS, false)
		}
	})
	family("M/custom-ctx", func() {
		if thorough {
			mount(1, opt, all4, true)
		}
	})

	// ---- N: depth 2 ----
	cfgsNL := def
	if thorough {
		cfgsNL = all4
	}
	family("N", func() {
		mids := [][]fvcC01Node{{}, {{item: &fvcC01Sub[2]}}, {{item: &fvcC01Sub[5]}}}
		for _, cfg := range cfgsNL {
			for _, leaf := range fvcC01Lists(fvcC01Sub, 0, 1) {
				for _, s1 := range mids {
					for _, s2 := range mids {
						for _, p1 := range []string{"/a", "/ab"} {
							for _, sib := range []bool{false, true} {
								sub := fvcC01Cat(s1, []fvcC01Node{{prefix: "/c", sub: leaf}}, s2)
								nodes := []fvcC01Node{{prefix: p1, sub: sub}}
								if sib {
									nodes = fvcC01Cat([]fvcC01Node{{item: &fvcC01Full[17]}}, nodes, []fvcC01Node{{item: &fvcC01Full[3]}})
								}
								s.check(nodes, cfg, false, nil)
							}
						}
					}
				}
			}
		}
	})

	// ---- L: late registration and rebuild ----
	family("L", func() {
		for _, cfg := range cfgsNL {
			for _, l := range fvcC01Lists(core, 0, 2) {
				for k := range core {
					s.check(l, cfg, false, &core[k])
				}
			}
			for _, sub := range fvcC01Lists(fvcC01Sub, 1, 1) {
				for _, p := range prefixes {
					for _, pre := range few {
						for k := range core {
							s.check(fvcC01Cat(pre, []fvcC01Node{{prefix: p, sub: sub}}), cfg, false, &core[k])
						}
					}
				}
			}
		}
	})

	fmt.Printf("FVC-CASES %d %d\n", s.idxCases+s.reqCases, len(s.distinct))
	fmt.Printf("FVC-NOTE %d started applications (T %d, T/custom-ctx %d, M %d, M/custom-ctx %d, N %d, L %d); part 1: %d (application, method) index checks; part 2: %d (application, request, mode) comparisons with the linear reference\n",
		s.apps, counts["T"], counts["T/custom-ctx"], counts["M"], counts["M/custom-ctx"], counts["N"], counts["L"], s.idxCases, s.reqCases)
	if s.fails > 0 {
		fmt.Printf("FVC-FAIL total disagreements: %d (in %d applications with a dispatch disagreement)\n", s.fails, s.failedApp)
	}
}
